#!/usr/bin/env python3
"""seedtool.py verify <seed-dir>        confirm a seeded change: applies, compiles, existing suite passes,
                                         demo fails with it and passes without it (in a scratch worktree)
   seedtool.py run <seed-dir> <ID> [tier] [seed]   apply the patch to /repo, run ./check, undo the patch
"""
import json, os, re, shutil, subprocess, sys, tempfile

ENV = dict(os.environ, GOFLAGS="-mod=mod", GOPROXY="off", GOSUMDB="off", GOTOOLCHAIN="local")


def sh(cmd, cwd=None, timeout=900):
    p = subprocess.run(cmd, shell=True, cwd=cwd, env=ENV, capture_output=True, text=True, timeout=timeout)
    return p.returncode, p.stdout + p.stderr


def demo_pkg(meta, d):
    txt = json.dumps(meta)
    m = re.search(r"(?:copied|copy|goes|placed?|put)[^.]*?\b(?:into|in|to)\s+`?((?:util/)?[a-z]+(?:/[a-z]+)?)/?`?", txt)
    cands = ["logger", "httpd", "tasklane", "config", "daemon", "util/netutil", "util/strutil", "util/fsutil", "util/osutil", "util/ioutil"]
    for c in cands:
        if re.search(r"(?<![\w/])" + re.escape(c) + r"(?![\w])", txt):
            return c
    return None


def verify(sd):
    meta = json.load(open(os.path.join(sd, "meta.json")))
    wt = tempfile.mkdtemp(prefix="vseed_")
    os.rmdir(wt)
    rc, out = sh("git -C /repo worktree add --detach %s HEAD -q" % wt)
    assert rc == 0, out
    res = {}
    try:
        patch = os.path.abspath(os.path.join(sd, "patch.diff"))
        rc, out = sh("git apply --check %s" % patch, cwd=wt)
        res["applies"] = rc == 0
        if rc != 0:
            print(out)
            return res
        demo_t = os.path.join(sd, "demo_test.go")
        if not os.path.exists(demo_t) and os.path.exists(demo_t + ".txt"):
            demo_t += ".txt"
        pkg = None
        if os.path.exists(demo_t):
            pkg = meta.get("demo_pkg") or meta.get("demo_package_dir") or meta.get("demo_dir") or demo_pkg(meta, sd)
            pkg = pkg.strip("/")
            shutil.copy(demo_t, os.path.join(wt, pkg, "zz_demo_test.go"))
            demo_cmd = "go test -count=1 -run 'Demo|C[0-9][0-9]' ./%s/" % pkg
            m = re.search(r"-run\s+'?\"?([\w|^$]+)", meta.get("demo_run", ""))
            if m:
                demo_cmd = "go test -count=1 -run '%s' ./%s/" % (m.group(1), pkg)
            if "-race" in meta.get("demo_run", ""):
                demo_cmd = demo_cmd.replace("go test", "go test -race")
            if "-tags verif" in meta.get("demo_run", ""):
                demo_cmd = demo_cmd.replace("go test", "go test -tags verif")
        else:
            dd = os.path.join(sd, "demo")
            tmpd = os.path.join(wt, "_demo")
            shutil.copytree(dd, tmpd)
            gm = open(os.path.join(tmpd, "go.mod")).read()
            gm = re.sub(r"replace github.com/whoisnian/glb => .*", "replace github.com/whoisnian/glb => " + wt, gm)
            open(os.path.join(tmpd, "go.mod"), "w").write(gm)
            shutil.copy("/repo/go.sum", os.path.join(tmpd, "go.sum"))
            race = " -race" if "-race" in meta.get("demo_run", "") else ""
            tags = " -tags verif" if "-tags verif" in meta.get("demo_run", "") else ""
            demo_cmd = "cd %s && go run%s%s ." % (tmpd, race, tags)
        # without the change
        rc0, out0 = sh(demo_cmd, cwd=wt)
        res["demo_passes_without"] = rc0 == 0
        sh("git apply %s" % patch, cwd=wt)
        rcb, outb = sh("go build ./... && go vet ./%s" % (pkg or "..."), cwd=wt)
        res["builds"] = rcb == 0
        rc1, out1 = sh(demo_cmd, cwd=wt)
        res["demo_fails_with"] = rc1 != 0
        # existing suite (demo file removed)
        if pkg:
            os.remove(os.path.join(wt, pkg, "zz_demo_test.go"))
        else:
            shutil.rmtree(os.path.join(wt, "_demo"))
        ok = False
        for attempt in range(3):
            rct, outt = sh("go test -vet=off -count=1 -p 4 ./...", cwd=wt)
            fails = [l for l in outt.splitlines() if l.startswith("--- FAIL")]
            real = [l for l in fails if "TestWaitForInterrupt" not in l and "TestWaitForStop" not in l and "TestLaunch" not in l]
            if rct == 0 or (fails and not real):
                ok = True
                break
            if real:
                break
        res["suite_passes"] = ok
        if not ok:
            print("\n".join(l for l in outt.splitlines() if "FAIL" in l or "panic" in l or "Error" in l)[:3000])
        if not res["demo_fails_with"]:
            print("demo with change:", out1[-1500:])
        if not res["demo_passes_without"]:
            print("demo without change:", out0[-1500:])
        res["demo_cmd"] = demo_cmd
    finally:
        sh("git -C /repo worktree remove --force %s" % wt)
    print(json.dumps(res))
    return res


def run(sd, pid, tier="quick", seed="1"):
    patch = os.path.abspath(os.path.join(sd, "patch.diff"))
    rc, out = sh("git -C /repo status --porcelain")
    assert out.strip() == "", "/repo not clean: " + out
    rc, out = sh("git -C /repo apply %s" % patch)
    assert rc == 0, out
    try:
        # evidence of a run against a seeded (mutated) tree must never land in /verif/evidence
        os.makedirs("/tmp/verif_seed_evidence", exist_ok=True)
        p = subprocess.run(["./check", pid, "--tier", tier, "--seed", seed], cwd="/verif", capture_output=True, text=True,
                           env=dict(os.environ, VERIF_EVIDENCE_DIR="/tmp/verif_seed_evidence"))
        lines = (p.stdout + p.stderr).splitlines()
        keep = [l for l in lines if l.startswith(("VIOLATION", "KNOWN", "INFRA", "DRIFT")) or "what:" in l][:8]
        print("rc=%d" % p.returncode)
        print("\n".join(keep))
        if p.returncode == 2:
            print("\n".join(lines[-15:]))
        return p.returncode
    finally:
        sh("git -C /repo checkout -- . && git -C /repo clean -fdq")


if __name__ == "__main__":
    if sys.argv[1] == "verify":
        verify(sys.argv[2])
    else:
        sys.exit(run(*sys.argv[2:]))
