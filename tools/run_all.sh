#!/bin/sh
# run every registered check (tier $1, default quick) on the current tree, sequentially; summary at the end
tier=${1:-quick}; seed=${2:-1}
cd /verif
ids=$(python3 -c "import json; print(' '.join(c['property_id'] for c in json.load(open('MANIFEST.json'))['checks']))")
for id in $ids; do
  s=$(date +%s)
  ./check $id --tier $tier --seed $seed > /tmp/runall_$id.log 2>&1; rc=$?
  echo "$id rc=$rc $(( $(date +%s) - s ))s $(grep -c '^VIOLATION' /tmp/runall_$id.log) violations $(grep -E '^(DRIFT|KNOWN-FINDING|INFRA)' /tmp/runall_$id.log | head -2 | tr '\n' ' ')"
done
python3-vt lib/validate.py | tail -1
