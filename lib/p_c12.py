"""C12 - IPv4Filter is safe and consistent under concurrent updates and lookups
(spec/netutil/IPv4FilterConc.tla: lock + stepwise migration model with interval bookkeeping;
traces of the real filter (-race build, dwell hooks in the critical sections) judged by TLC)."""
import json, re
import vlib
from vlib import judge


def bits_ip(bits):
    v = 0
    for x in bits + [0] * (32 - len(bits)):
        v = v * 2 + x
    return "%d.%d.%d.%d" % (v >> 24, (v >> 16) & 255, (v >> 8) & 255, v & 255)


def run(ctx):
    q = ctx.quick()
    cfg = open(vlib.SPEC + "/netutil/IPv4FilterConcMC.cfg").read()
    if not q:
        cfg = cfg.replace('Readers = {"r1"}', 'Readers = {"r1", "r2"}').replace("MaxCalls = 2", "MaxCalls = 1")
    r = ctx.tlc("netutil", "IPv4FilterConcMC", cfg, workers=16, timeout=2400, xmx="16g")
    if r.violated:
        raise vlib.Infra("spec-level counterexample (model, not code):\n" + r.trace[:3000])
    m = ctx.tlc("netutil", "IPv4FilterConcMC", open(vlib.SPEC + "/netutil/IPv4FilterConcMC.cfg").read().replace(
        "UseLock = TRUE", "UseLock = FALSE"), workers=8, timeout=600, count=False, tag="mutant reader without lock")
    if m.violated != "IntervalConsistent":
        raise vlib.Infra("vacuity: the lock-free reader satisfies IntervalConsistent")
    # unbounded: lock discipline for ANY writers / readers / programs - a lookup never scans a half-migrated filter
    ctx.tlaps("netutil", "IPv4FilterConcProof", timeout=900, tag="IPv4FilterConcProof (MutualExclusion, ScanSeesStableFilter)")
    hb = ctx.build("ipconc", race=True)
    nruns = 10 if q else 80
    p = ctx.run([hb, "-runs", str(nruns), "-out", ctx.path("traces.ndjson"), "-churn", "90" if q else "140"], timeout=2400,
                ok_codes=(0, 66), env={"GORACE": "halt_on_error=0"})
    races = p.stderr.count("WARNING: DATA RACE")
    if races:
        m_ = re.search(r"WARNING: DATA RACE\n(.*?)\n\n", p.stderr, re.S)
        first = (m_.group(1) if m_ else p.stderr[:1500])
        locs = sorted(set(re.findall(r"(filter\.go:\d+)", first)))
        ctx.violation("data race %s" % " vs ".join(locs), "the race detector reports %d data race(s) in IPv4Filter, first:\n%s" % (races, first[:1800]),
                      {"stderr": p.stderr[:6000]})
    rows = vlib.read_ndjson(ctx.path("traces.ndjson"))
    slim = vlib.balanced([{"evs": c["evs"]} for c in rows], 15, lambda c: len(c["evs"]))
    bad, drift, _ = judge(ctx, "netutil", "IPv4FilterConcCases", slim, nshards=min(15, len(rows)), workers=1, timeout=2400,
                      constants="CONSTANTS\n  W = 32\n  ListSize = 256\n", xmx="4g")
    for c in bad[:10]:
        k = int(c.get("_info") or 1)
        e = c["evs"][k - 1]
        if e["k"] == "re":
            kind = "false negative" if not e["res"] else "false positive"
            what = ("Contains(%s) returned %s (%s): %s (event %d of the trace; %d updates in flight or done before)" % (
                bits_ip(e["ip"]), e["res"], kind,
                "a range covering it was present during the whole call" if not e["res"] else "no range covering it was present at any time during the call",
                k, sum(1 for x in c["evs"][:k] if x["k"] == "wb")))
            sig = kind + (" after updates stopped" if e["p"] == 50 else " during churn")
        elif e["k"] == "stuck":
            what = "Add / Remove / Contains stopped returning: %s; %d goroutine stacks inside the filter (event %d)" % (e.get("op"), e.get("p", 0), k)
            sig = "deadlock"
        elif e["k"] == "crash":
            what = "a writer goroutine crashed inside the filter: %s (event %d)" % (e.get("op"), k)
            sig = "crash"
        else:
            what = "%s(%s/%d) returned an error" % (e.get("op"), bits_ip(e["c"]), len(e["c"]))
            sig = "update rejected"
        ctx.violation(sig, what, {"event": e, "index": k, "window": c["evs"][max(0, k - 12):k]})
    if drift and not ctx.violations:
        ctx.level = "exploration"
        msg = "%d traces: a lookup differs from the result predicted by the order of the critical sections (lp events)" % len(drift)
        ctx.notes.append("DRIFT: " + msg)
        print("DRIFT property=C12 " + msg)
    nev = sum(len(c["evs"]) for c in rows)
    nre = sum(1 for c in rows for e in c["evs"] if e["k"] == "re")
    ctx.cov.update({
        "traces_validated_against_impl": len(rows), "evaluations": nre,
        "distinct_nontrivial": sum(1 for c in rows if c["maps"]),
        "rule": "%d traces: switch-race trials (3 removers + the switching Add + 2 readers released together on a filter one Add away from "
                "the list-to-maps switch), remove-race trials (2 readers looking up a range in a tight loop while it is removed, then probed "
                "again) and churn runs: 5 writers (own /8 each: anchor /16 always present, churn over prefix lengths 17-32, writer 0 toggles "
                "0.0.0.0/0) and 6 readers (4- and 16-byte addresses, following the ranges being updated) over a filter prefilled to 150-250 "
                "slots so the switch happens under the readers; seeded dwell inside the critical sections and in the half-migrated state; "
                "-race build; deadlock watchdog; non-trivial = traces that crossed the switch" % len(rows),
        "exhaustive": False, "events": nev, "lookups_judged": nre, "race_reports": races,
        "runs_crossing_switch": sum(1 for c in rows if c["maps"]),
        "lp_events": sum(1 for c in rows for e in c["evs"] if e["k"] == "lp"), "lp_conformance_drift": len(drift),
    })
    ctx.sample({"events": rows[0]["evs"][400:406], "note": rows[0].get("note")})
    ctx.assumptions += ["event order = a global atomic sequence number taken at emission (consistent with happens-before)",
                        "Go race detector for the 'without data races' clause"]
