"""C19 - ProgressWriter reports true, monotone progress and never stalls the writer
(spec/util/Progress.tla; traces of the real writer judged by spec/util/ProgressCases.tla)."""
import re
import vlib
from vlib import judge


def run(ctx):
    q = ctx.quick()
    base = open(vlib.SPEC + "/util/Progress.cfg").read()
    if not q:
        base = base.replace("MaxWrites = 4", "MaxWrites = 6").replace("MaxN = 2", "MaxN = 3")
    r = ctx.tlc("util", "Progress", base, workers=8, timeout=1200)
    if r.violated:
        raise vlib.Infra("spec-level counterexample (model, not code):\n" + r.trace[:3000])
    m = ctx.tlc("util", "Progress", open(vlib.SPEC + "/util/Progress.cfg").read().replace('Mutant = "none"', 'Mutant = "BlockingSend"'),
                workers=2, timeout=300, count=False, tag="mutant BlockingSend")
    if m.violated != "NeverParksInWrite":
        raise vlib.Infra("vacuity: the blocking-send mutant never parks the writer")
    # unbounded: the same invariants for ANY number of writes and ANY byte counts, by the TLA+ proof system
    ctx.tlaps("util", "ProgressProof", timeout=900, tag="ProgressProof (inductive invariant, unbounded MaxWrites / MaxN)")
    hb = ctx.build("progress")
    ctx.run([hb, "-out", ctx.path("traces.ndjson"), "-runs", "160" if q else "2000"], timeout=2400)
    rows = vlib.read_ndjson(ctx.path("traces.ndjson"))
    bad, _, _ = judge(ctx, "util", "ProgressCases", [{"evs": c["evs"]} for c in rows], nshards=min(8, len(rows)), workers=1, timeout=2400)
    seen = set()
    for c in bad:
        m_ = re.match(r'(\d+), "(.*)"$', c.get("_info") or "")
        k, rule = (int(m_.group(1)), m_.group(2)) if m_ else (1, "rejected")
        if rule in seen:
            continue
        seen.add(rule)
        ctx.violation(rule, "%s (event %d of %d): %s" % (rule, k, len(c["evs"]), c["evs"][max(0, k - 8):k]), {"window": c["evs"][max(0, k - 40):k + 1]})
    ctx.cov.update({
        "traces_validated_against_impl": len(rows), "evaluations": sum(len(c["evs"]) for c in rows),
        "distinct_nontrivial": sum(1 for c in rows if any(e["e"] == "u" and (e["err"] or e["n"] < e["req"]) for e in c["evs"])),
        "rule": "runs of 1-30 (every fifth: 200-500) Write/WriteString calls over scripted wrapped writers (full / short / failing with "
                "partial bytes, with and without io.StringWriter) against consumers absent-until-Close, fast, slow, late (each asking "
                "Status() anew for every receive); two tight runs of 30000 tiny writes against a consumer in a tight loop; one run moving "
                "5 GiB in 64 MiB writes (counts in MiB); stalls judged on stable states; non-trivial = runs with at least one short or failed underlying write",
        "exhaustive": False, "values_received": sum(1 for c in rows for e in c["evs"] if e["e"] == "r"),
    })
    ctx.sample(rows[1]["evs"][:10])
    ctx.assumptions += ["a stall = writer parked in ProgressWriter.sum in two samples with no event in between"]
