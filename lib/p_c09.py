"""C09 - config sources obey priority cli > env > JSON > default
(spec/config/Priority.tla + Snake.tla; G binding: TLC scenarios replayed on the real Parse)."""
import json, os
import vlib

TOP = ["Debug", "ListenAddr", "MaxConn2", "UserID", "X9Y", "URL"]
STRUCTS = ["HTTPServer", "Db", "TLS2Opt"]


def cfg(rich, mutant="none", inv=("PriorityHolds", "Independent")):
    return ("SPECIFICATION Spec\nCONSTANTS\n  Fields = {\"f1\", \"f2\"}\n  Rich = {%s}\n  Mutant = \"%s\"\n%sCHECK_DEADLOCK FALSE\n"
            % (", ".join('"%s"' % f for f in rich), mutant, "".join("INVARIANT %s\n" % i for i in inv)))


def run(ctx):
    q = ctx.quick()
    rich = ["f1"] if q else ["f1", "f2"]
    # 1. design level
    r = ctx.tlc("config", "Priority", cfg(rich), workers=16, timeout=1500, xmx="10g")
    if r.violated:
        raise vlib.Infra("spec-level counterexample (model, not code):\n" + r.trace[:3000])
    muts = ("EnvOverCli", "EmptyEnvIgnored", "SkipIfDefault", "ConfigFromEnv")
    mres = vlib.parallel([(lambda m=m: ctx.tlc("config", "Priority", cfg(["f1"], m, ("PriorityHolds",)), workers=4, timeout=600,
                                               count=False, tag="mutant " + m)) for m in muts], 4)
    for m, mr in zip(muts, mres):
        if mr.violated != "PriorityHolds":
            raise vlib.Infra("vacuity: spec mutant %s satisfies PriorityHolds" % m)
    # 2. generation: every finished scenario with the predicted final values
    g = ctx.tlc("config", "Priority", cfg(["f1"], inv=("Export",)), workers=8, timeout=900, count=False, tag="export")
    scen = [j for j in g.json if "scen" in j]
    if len(scen) < 1000:
        raise vlib.Infra("scenario export produced only %d scenarios" % len(scen))
    if not q:
        # pairs with both fields rich: sample the (large) space by simulation-free slicing: second field rich, first plain
        g2 = ctx.tlc("config", "Priority", cfg(["f2"], inv=("Export",)), workers=8, timeout=900, count=False, tag="export-f2rich")
        scen += [j for j in g2.json if "scen" in j]
    with open(ctx.path("scenarios.ndjson"), "w") as f:
        for s_ in scen:
            f.write(json.dumps(s_) + "\n")
    # 3. environment names derived by the Snake spec (not by the code under test)
    paths = [[t] for t in TOP] + [[s_, t] for s_ in STRUCTS for t in TOP] + [[o, s_, t] for o in STRUCTS for s_ in STRUCTS for t in TOP]
    pfile = "".join(json.dumps([list(x.encode()) for x in p]) + "\n" for p in paths)
    sn = ctx.tlc("config", "Snake", "INIT Init\nNEXT Next\nINVARIANT Derive\nCHECK_DEADLOCK FALSE\n", workers=1, timeout=300,
                 files={"paths.ndjson": pfile}, tag="Snake names")
    if sn.violated:
        raise vlib.Infra("Snake spec produced an ill-shaped name: " + sn.trace[:1000])
    names = {}
    for j in sn.json:
        names["/".join(paths[j["i"] - 1])] = bytes(j["name"]).decode()
    if len(names) != len(paths):
        raise vlib.Infra("Snake export incomplete")
    with open(ctx.path("envnames.json"), "w") as f:
        json.dump(names, f)
    # 4. replay on the real code
    hb = ctx.build("priority")
    p = ctx.run([hb, "-in", ctx.path("scenarios.ndjson"), "-envnames", ctx.path("envnames.json"), "-out", ctx.path("mm.ndjson"),
                 "-variants", "2" if q else "6", "-work", ctx.scratch], timeout=1500)
    stats = json.loads(p.stdout.strip().splitlines()[-1])
    mm = vlib.read_ndjson(ctx.path("mm.ndjson"))
    seen = set()
    for m in mm:
        sc = m["scenario"]
        f = m["field"]
        if f == "*":
            sig = "Parse error: " + m["err"][:80]
            what = "Parse/NewFlagSet failed on well-formed sources: %s [%s]" % (m["err"], m["plan"])
        else:
            pres = "".join("1" if sc[k][f] != "absent" else "0" for k in ("cli", "env", "file", "b64", "def"))
            sig = "field kind=%s winner=%s present(cli,env,file,b64,def)=%s hasFile=%s hasB64=%s" % (
                m["kind"], m["winner"].split("_")[0], pres, sc["hasFile"], sc["hasB64"])
            what = "field %s (%s) holds %s, but the highest-priority source mentioning it (%s) says %s; sources=%s [%s]" % (
                f, m["kind"], m["got"], m["winner"], m["want"], {k: sc[k][f] for k in ("cli", "env", "file", "b64", "def")}, m["plan"])
        if sig in seen:
            continue
        seen.add(sig)
        if len(seen) <= 25:
            ctx.violation(sig, what, m)
    ctx.cov.update({
        "traces_validated_against_impl": stats["runs"], "evaluations": stats["runs"],
        "distinct_nontrivial": len({json.dumps(s_["scen"], sort_keys=True) for s_ in scen
                                    if sum(1 for k in ("cli", "env", "file", "b64", "def") for f in s_["final"] if s_["scen"][k][f] != "absent") >= 2}),
        "rule": "every scenario of the TLC model (per field: each of tag default / cli / env / JSON file / JSON B64 absent, empty-or-zero "
                "or a value; carriers present or not; decoy CFG_CONFIG always set) replayed on run-time built struct types covering "
                "all 9 kinds, top-level / nested one and two levels deep, both tag syntaxes, cli spellings; non-trivial = at least two sources mention a field",
        "exhaustive": True, "scenarios": len(scen), "kinds": stats["kinds"], "mismatches": len(mm),
        "env_names_from_spec": len(names),
    })
    for s_ in scen[100:102] + scen[-1:]:
        ctx.sample(s_)
    ctx.assumptions += ["text->number parsing is strconv's; the spec decides which source wins",
                        "env names derived by spec/config/Snake.tla"]
