"""C05 - requests are isolated: pooled per-request state never leaks between requests
(spec/httpd/StorePool.tla: pool model checked by TLC; recorded histories of the real Mux judged
by spec/httpd/StorePoolCases.tla against Match on the current routes)."""
import json
import vlib
from vlib import judge

UNIVERSE = [("/u/:a/:b", "GET"), ("/a/:x", "GET"), ("/b/:x/:y", "GET"), ("/s", "*"), ("/w/*", "GET"), ("/a/:x", "POST"), ("/:y", "GET"), ("/s", "GET"), ("/s/", "POST")]
NAMES = ["a", "b", "x", "y", "/:any"]
MC_PATHS = ["/u/1/2", "/a/7", "/b/3/4", "/s", "/zz", "/u/9", "/w/q/r", "/b/5"]


def b(s):
    return list(s.encode("latin1"))


def s(a):
    return bytes(a).decode("latin1")


def nd(rows):
    return "".join(json.dumps(r, separators=(",", ":")) + "\n" for r in rows)


def run(ctx):
    q = ctx.quick()
    U = [{"pat": b(p), "method": m} for p, m in UNIVERSE]
    mcU = U[:5]
    R = [{"p": b(p), "m": "GET"} for p in MC_PATHS]
    files = {"universe.ndjson": nd(mcU), "requests.ndjson": nd(R)}
    base = open(vlib.SPEC + "/httpd/StorePool.cfg").read()
    if not q:
        base = base.replace("MaxOps = 4", "MaxOps = 5")
    r = ctx.tlc("httpd", "StorePool", base, workers=16, timeout=2400, xmx="12g", files=files)
    if r.violated:
        raise vlib.Infra("spec-level counterexample (model, not code):\n" + r.trace[:3000])
    muts = ("NoKReset", "NoVTrunc", "NoStatusReset", "NoIdTrunc", "Reslice")
    small = open(vlib.SPEC + "/httpd/StorePool.cfg").read()
    mres = vlib.parallel([(lambda m=m: ctx.tlc("httpd", "StorePool", small.replace('Mutant = "none"', 'Mutant = "%s"' % m),
                                               workers=4, timeout=900, count=False, files=files, tag="mutant " + m)) for m in muts], 4)
    for m, mr in zip(muts, mres):
        if mr.violated != "Isolated":
            raise vlib.Infra("vacuity: pool mutant %s satisfies Isolated" % m)
    hb = ctx.build("storepool")
    out = ctx.path("cases.ndjson")
    ctx.run([hb, "-out", out, "-depth", "2" if q else "3", "-long", "400" if q else "3000", "-conc", "30" if q else "200"], timeout=2400)
    rows = vlib.read_ndjson(out)
    bad, _, _ = judge(ctx, "httpd", "StorePoolCases", rows, per_shard=max(40, len(rows) // 16 + 1), workers=1, timeout=2400,
                      extra_files={"universe.ndjson": nd(U), "names.ndjson": nd([b(n) for n in NAMES])})
    nreq = sum(1 for h in rows for o in h["ops"] if o["op"] == "req")
    reused = sum(1 for h in rows for o in h["ops"] if o["op"] == "req" and o["reused"])
    seen = set()
    for h in bad:
        k = int(h.get("_info") or 1)
        o = h["ops"][k - 1]
        hist = []
        for x in h["ops"][:k]:
            hist.append("reg %s %s" % UNIVERSE[x["u"] - 1] if x["op"] == "reg" else "%s %s [%s]" % (x["m"], s(x["p"]), x["beh"]))
        if o["op"] == "req":
            what = "after history %r the request %s %s observed relay=%s handler=%s id@exit=%r crash=%r (reused Store: %s)" % (
                hist[:-1][-6:], o["m"], s(o["p"]),
                {"route": o["relay"]["id"], "params": [s(v) for v in o["relay"]["v"]], "status": o["relay"]["st"], "id": s(o["relay"]["gid"])},
                {"route": o["handler"]["id"], "params": [s(v) for v in o["handler"]["v"]], "status": o["handler"]["st"], "id": s(o["handler"]["gid"])},
                s(o["gidexit"]), o["crash"], o["reused"])
            kind = "crash" if o["crash"] else "observation"
            if "index out of range" in o["crash"]:
                kind = "stale Params.K"
            if "slice bounds out of range" in o["crash"]:
                kind = "cap(V)"
            sig = "%s: %s %s after %s" % (kind, o["m"], s(o["p"]), hist[-2] if len(hist) > 1 else "nothing")
        elif o["op"] == "hreq":
            what = "hammer phase (many goroutines, fixed routes %r): %d requests %s %s observed relay=%s handler=%s crash=%r" % (
                [x for x in hist if x.startswith("reg")], o["cnt"], o["m"], s(o["p"]),
                {"route": o["relay"]["id"], "params": [s(v) for v in o["relay"]["v"]], "status": o["relay"]["st"]},
                {"route": o["handler"]["id"], "params": [s(v) for v in o["handler"]["v"]], "status": o["handler"]["st"]}, o["crash"])
            sig = "hammer: concurrent requests observe another request's state"
        elif o["op"] == "hsum":
            what = "hammer phase: of %d concurrent requests %d received a request id already handed out and %d saw their id change during the request%s" % (
                o["cnt"], o["dups"], o["changed"], ("; " + o["crash"]) if o["crash"] else "")
            sig = "hammer: request ids not unique / not constant"
        else:
            ctx.level = "exploration"
            ctx.notes.append("DRIFT: registration of %r accepted=%s differs from the model (history not judged further)" % (UNIVERSE[o["u"] - 1], o["acc"]))
            continue
        if sig in seen:
            continue
        seen.add(sig)
        if len(seen) <= 25:
            ctx.violation(sig, what, {"history": hist, "op": o})
    ctx.cov.update({
        "traces_validated_against_impl": len(rows), "evaluations": nreq,
        "distinct_nontrivial": reused,
        "rule": "histories of one Mux: all sequences of <= %d operations over 7 registrations + 8 paths x 3 handler behaviours on one "
                "OS thread (maximal Store reuse), seeded histories of 5-14 operations, 8-goroutine batches with registrations in "
                "between, and 3 hammer phases (4 goroutines per CPU for 1.5 s on fixed routes; distinct observations judged by TLC, "
                "request ids compared among all requests); non-trivial = requests that really ran on a recycled Store (pointer seen before)" % (2 if q else 3),
        "exhaustive": True, "requests": nreq, "requests_on_recycled_store": reused, "bad_histories": len(bad),
        "hammer_requests": sum(o["cnt"] for h_ in rows if h_["kind"] == "hammer" for o in h_["ops"] if o["op"] == "hsum"),
        "hammer_distinct_observations": sum(1 for h_ in rows if h_["kind"] == "hammer" for o in h_["ops"] if o["op"] == "hreq"),
    })
    h = rows[min(len(rows) - 1, 500)]
    ctx.sample([("reg %s %s" % UNIVERSE[x["u"] - 1]) if x["op"] == "reg" else
                {"req": "%s %s" % (x["m"], s(x["p"])), "beh": x["beh"], "route": x["handler"]["id"], "id": s(x["relay"]["gid"]), "reused": x["reused"]}
                for x in h["ops"]])
    ctx.assumptions += ["sync.Pool reuse cannot be forced; the number of requests on recycled Stores is measured and reported",
                        "registrations happen between requests (Handle concurrent with ServeHTTP is outside the property)"]
