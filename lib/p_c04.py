"""C04 - router dispatches every request to exactly one handler by documented precedence
(spec/httpd/Router.tla: declarative Match on the route set vs. trie Register/Lookup)."""
import itertools, json
import vlib
from vlib import judge


def b(s):
    return list(s.encode("latin1"))


def s(a):
    return bytes(a).decode("latin1")


def universe(tier, small=False):
    if small and tier == "quick":
        pats = ["/", "/a", "/:x", "/*", "/a/:x", "/a/*", "/:x/a"]
        U = [{"pat": b(p), "method": m} for p in pats for m in ("GET", "*")]
        return U + [{"pat": b("/a"), "method": "POST"}]
    frs = ["a", "b", ":x", ":y", "*"] if not small else ["a", ":x", "*"]
    pats = ["/"] + ["/" + f for f in frs] + ["/" + f + "/" + g for f in frs if f != "*" for g in frs]
    if not small:
        pats += ["//a", "/a/", "/a//b", "/:", "/:x/:x", "/a/:x/b"]
        if tier == "thorough":
            pats += ["/a/b/:y", "/:x/b/*", "/a/:x/:x", "/*/a", "/b/"]
    else:
        pats += ["/a/:x/b", "/a/", "/:"]
    U = [{"pat": b(p), "method": m} for p in pats for m in ("GET", "*")]
    U += [{"pat": b("/a"), "method": "FOO"}, {"pat": b("/a"), "method": "POST"}]
    if not small:
        U += [{"pat": b("/:x"), "method": "CONNECT"}, {"pat": b("/"), "method": "OPTIONS"}]
    return U


def requests(tier, mc=False):
    paths = []
    for segs, depth in ((["a", "b", ""], 3 if tier == "quick" else 4), (["a", "b", "c", "", ":x", "*"], 0 if tier == "quick" else 3)):
        for n in range(1, depth + 1):
            for t in itertools.product(segs, repeat=n):
                paths.append("/" + "/".join(t))
    paths += ["", "*", "a", "ab/c", "/:x", "/*", "/a/*", "/a/:x", "/c", "/a/c/b", "//", "/a/b/a/b", "a/b", "/\xff", "/a%2fb", "b/",
              # segments spelled like the names a trie implementation might use internally for its parameter / method nodes
              "/:param", "/:any", "/a/:param", "/a/:any", "/:any/b", "/:param/:any", "/param", "/any", "/get", "/a/get", "/a/*/b", "/:", "/a/:"]
    paths = sorted(set(paths))
    if mc:
        meths = ("GET", "FOO")
    else:
        # unknown methods incl. look-alikes of known ones (same length and first letter, other case, one letter off)
        meths = ("GET", "POST", "FOO", "", "GOT", "Get", "PUX") if tier == "quick" else ("GET", "POST", "FOO", "", "*", "GOT", "Get", "get", "PUX", "HEAP", "DELETX", "POSTS")
    return [{"p": b(p), "m": m} for p in paths for m in meths]


def names_of(U):
    names = set()
    for u in U:
        for seg in s(u["pat"])[1:].split("/"):
            if seg.startswith(":") and len(seg) > 1:
                names.add(seg[1:])
    return sorted(names) + ["/:any"]


def nd(rows):
    return "".join(json.dumps(r, separators=(",", ":")) + "\n" for r in rows)


def run(ctx):
    q = ctx.quick()
    plans = [("full", universe(ctx.tier), 2)]
    plans.append(("small", universe(ctx.tier, small=True), 3))
    R = requests(ctx.tier)
    R_mc = requests("quick", mc=q)     # the model check uses the smaller request list; the binding uses the full one
    # 1. design level: trie Lookup == declarative Match for every table and request
    for name, U, mr in plans:
        files = {"universe.ndjson": nd(U), "requests.ndjson": nd(R_mc)}
        cfg = open(vlib.SPEC + "/httpd/RouterMC.cfg").read().replace("MaxRoutes = 2", "MaxRoutes = %d" % mr)
        r = ctx.tlc("httpd", "RouterMC", cfg, workers=16, timeout=2400, xmx="10g", files=files, tag="RouterMC %s<=%d" % (name, mr))
        if r.violated:
            raise vlib.Infra("spec-level counterexample (model, not code):\n" + r.trace[:3000])
    # non-vacuity: a trie walk that prefers :param over a literal must be rejected
    src = open(vlib.SPEC + "/httpd/Router.tla").read()
    lit = '    ELSE IF Append(kp, <<"lit", sg.s>>) \\in trie.nodes\n         THEN Descend(trie, Append(kp, <<"lit", sg.s>>), segs, k + 1, V, p, method)\n'
    par = '    ELSE IF Append(kp, <<"param">>) \\in trie.nodes\n         THEN Descend(trie, Append(kp, <<"param">>), segs, k + 1, Append(V, sg.s), p, method)\n'
    if lit not in src or par not in src:
        raise vlib.Infra("mutant anchor not found in Router.tla")
    mut = src.replace(lit + par, par + lit)
    U = plans[1][1]
    m = ctx.tlc("httpd", "RouterMC", open(vlib.SPEC + "/httpd/RouterMC.cfg").read(), workers=8, timeout=600, count=False,
                files={"universe.ndjson": nd(U), "requests.ndjson": nd(R_mc), "Router.tla": mut}, tag="mutant param-before-literal")
    if m.violated != "LookupIsMatch":
        raise vlib.Infra("vacuity: param-before-literal trie mutant satisfies LookupIsMatch")
    # 2. binding: the real Mux on the same tables; TLC judges with the statement layer only
    hb = ctx.build("router")
    total, bad_total, nontrivial = 0, 0, 0
    drift_tables = []
    for name, U, mr in plans:
        names = names_of(U)
        ufile, rfile, nfile = ctx.path("u_%s.ndjson" % name), ctx.path("r_%s.ndjson" % name), ctx.path("n_%s.ndjson" % name)
        open(ufile, "w").write(nd(U))
        open(rfile, "w").write(nd(R))
        open(nfile, "w").write(nd([b(n) for n in names]))
        out = ctx.path("cases_%s.ndjson" % name)
        ctx.run([hb, "-universe", ufile, "-requests", rfile, "-names", nfile, "-maxroutes", str(mr), "-out", out], timeout=2400)
        rows = vlib.read_ndjson(out)
        total += len(rows) * len(R)
        nontrivial += sum(len(c["dict"]) - 1 for c in rows)
        bad, _, _ = judge(ctx, "httpd", "RouterCases", rows, per_shard=max(60, len(rows) // 16 + 1), workers=1, timeout=2400,
                          extra_files={"universe.ndjson": nd(U), "requests.ndjson": nd(R), "names.ndjson": nd([b(n) for n in names])})
        shown = 0
        for c in bad:
            table = [(s(U[i - 1]["pat"]), U[i - 1]["method"], "accepted" if a else "rejected") for i, a in zip(c["regs"], c["acc"])]
            why = c.get("why")
            k = int(c.get("_info") or 0)
            req = ""
            if not why and k > 0:
                rq = R[k - 1]
                o = c["dict"][c["obs"][k - 1] - 1]
                req = "path=%r method=%r" % (s(rq["p"]), rq["m"])
                why = "request %s ran handler %d with params %r, which Match does not allow" % (
                    req, o["id"], dict(zip(names, [s(v) for v in o["v"]])))
            elif not why:
                # Handle accepted / rejected differently from the model: the statement speaks about successfully
                # registered routes only, so this is model drift, not a violation; the table is not judged further
                drift_tables.append(table)
                continue
            elif "path" in why:
                import re
                m_ = re.search(r'path ("(?:[^"\\]|\\.)*") method ("(?:[^"\\]|\\.)*")', why)
                req = "path=%s method=%s" % (m_.group(1), m_.group(2)) if m_ else ""
            sig = "table=%r %s" % (table, req.replace('path=""', "path=''"))
            shown += 1
            if shown <= 30:
                ctx.violation(sig, "routes %r: %s" % (table, why), {"table": table, "case": c})
        bad_total += len(bad)
        if rows:
            c = rows[min(len(rows) - 1, 700)]
            ctx.sample({"table": [(s(U[i - 1]["pat"]), U[i - 1]["method"]) for i in c["regs"]], "accepted": c["acc"],
                        "distinct_observations": c["dict"][:4], "requests": len(R)})
    if drift_tables and not ctx.violations:
        ctx.level = "exploration"
        ctx.notes.append("DRIFT: Handle accepts/rejects %d tables differently from the model, e.g. %r" % (len(drift_tables), drift_tables[0]))
        print("DRIFT property=C04 registration accept/reject differs from the model for %d tables (not judged further)" % len(drift_tables))
    ctx.cov.update({
        "traces_validated_against_impl": total, "evaluations": total, "distinct_nontrivial": nontrivial,
        "rule": "every sequence of <=2 registrations over the full route universe and <=3 over the small one, each served all "
                "%d requests (paths x methods incl. '', '*', non-rooted, '//' runs, trailing slashes, ':x'/'*' segments, unknown "
                "methods) through the real ServeHTTP; non-trivial = distinct (table, observation) pairs in which a route handler ran" % len(R),
        "exhaustive": True, "requests": len(R), "bad_tables": bad_total,
    })
    ctx.assumptions += ["patterns start with '/' (documented usage)", "a Mux is rebuilt after a rejected Handle (debris of failed registrations is outside the property)"]
