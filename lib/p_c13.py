"""C13 - Text handler lines parse back unambiguously (spec/logger/TextLine.tla: independent tokenizer,
Go-unquote, White_Space; judge TextCases.tla; scenarios shared with JsonLineMC)."""
import json
import vlib
from vlib import judge
import p_c01


def s(a):
    return bytes(a).decode("latin1")


def describe(c):
    line = s(c["tail"])
    if c["mode"] == "strings":
        return "input %r as %s: line tail %r" % (s(c["in"]), c["pos"], line)
    if c["mode"] == "time":
        return "record time %s written as line %r" % (s(c["in"]), line)
    if c["mode"] == "source":
        return "source enabled, Logger.%s called at %s (%s logger): line tail %r" % (c.get("method", "Info"), bytes(c["in"]).decode("latin1"), c["pos"], line)
    if c["mode"] == "values":
        return "value kind %s (%s, source=%s): line tail %r" % (c["kind"], c["where"], c["source"], line)
    def f(nodes):
        return [((n["k"] or "<inline>") + (":" + n["x"] if n["t"] == "leaf" else "{%s}" % ",".join(map(str, f(n["c"]))))) for n in nodes]
    chain = [("With(%s)" % ",".join(f(it["f"])) if it["op"] == "with" else "WithGroup(%s)" % it["name"]) for it in c["chain"]]
    return "chain %s, call attrs %s wrote tail %r" % (chain, f(c["site"]), line[:400])


def run(ctx):
    q = ctx.quick()
    tcfg = "SPECIFICATION Spec\nCONSTANT MaxLen = %d\nINVARIANT %s\nCHECK_DEADLOCK FALSE\n"
    r = ctx.tlc("logger", "TextLineMC", tcfg % (3 if q else 4, "RoundTrip"), workers=16, timeout=2400, xmx="12g", tag="TextLineMC")
    if r.violated:
        raise vlib.Infra("spec-level counterexample (model, not code):\n" + r.trace[:3000])
    m = ctx.tlc("logger", "TextLineMC", tcfg % (2, "MutantRoundTrip"), workers=4, timeout=600, count=False, tag="mutant Unicode spaces bare")
    if m.violated != "MutantRoundTrip":
        raise vlib.Infra("vacuity: leaving Unicode spaces bare still round-trips")
    g = ctx.tlc("logger", "JsonLineMC", p_c01.mc_cfg(2, 1, export=True), workers=8, timeout=1800, xmx="8g", tag="scenarios (chains x forests)")
    scen = [j for j in g.json if isinstance(j, dict) and "chain" in j]
    if len(scen) < 1000:
        raise vlib.Infra("only %d scenarios exported" % len(scen))
    if q and len(scen) > 9000:
        scen = scen[::max(1, len(scen) // 9000)]
    with open(ctx.path("scen.ndjson"), "w") as f:
        for s_ in scen:
            f.write(json.dumps(s_) + "\n")
    hb = ctx.build("textline")
    ctx.run([hb, "-mode", "struct", "-in", ctx.path("scen.ndjson"), "-out", ctx.path("c_struct.ndjson")], timeout=1800)
    ctx.run([hb, "-mode", "values", "-out", ctx.path("c_values.ndjson")], timeout=600)
    ctx.run([hb, "-mode", "strings", "-tier", ctx.tier, "-out", ctx.path("c_strings.ndjson")], timeout=3000)
    rows = []
    for n in ("c_struct", "c_values", "c_strings"):
        rows += vlib.read_ndjson(ctx.path(n + ".ndjson"))
    bad, _, _ = judge(ctx, "logger", "TextCases", rows, per_shard=3000 if q else 100000, workers=1, timeout=3000, xmx="3g" if q else "6g")
    seen = {}
    for c in bad:
        sig = {"strings": "string fidelity (%s)" % c.get("pos"), "values": "value kind %s" % c.get("kind"), "time": "record time",
               "source": "source token"}.get(c["mode"], "structure")
        seen[sig] = seen.get(sig, 0) + 1
        if seen[sig] <= 2:
            ctx.violation(sig, describe(c), c)
    ctx.cov.update({
        "traces_validated_against_impl": len(rows), "evaluations": len(rows),
        "distinct_nontrivial": sum(1 for c in rows if c["mode"] == "strings" and 34 in c["tail"]) + sum(1 for c in rows if c["mode"] == "struct" and c["chain"]),
        "rule": "structure: chains x forests of the TLC model on the real Logger (inside derivation trees); values: %d records over 24 value kinds "
                "(TextMarshaler ok/failing, error, []byte, AnsiString, LogValuer, NaN, forged-field and newline strings ...) x 3 positions x addSource; "
                "strings: every 1-byte string, 2-byte strings (%s), Unicode scalars (%s) as msg / key / value / With value / group name / outer group of a chain / group attribute / key in a group; "
                "explicit record times in and out of order; every output method of Logger called from sites with known file:line, incl. files with unusual names (source on); "
                "non-trivial = string cases the handler had to quote + structures with a derivation chain"
                % (sum(1 for c in rows if c["mode"] == "values"), "first byte from 23 class representatives" if q else "all 65536",
                   "White_Space / boundary set + 6000 seeded" if q else "all 1112064"),
        "exhaustive": not q, "struct_cases": sum(1 for c in rows if c["mode"] == "struct"),
        "string_cases": sum(1 for c in rows if c["mode"] == "strings"), "bad": len(bad),
    })
    ctx.sample(describe(rows[40]))
    ctx.sample(describe(rows[-7]))
    ctx.assumptions += ["the constant head time=<RFC3339> level=<L> is checked by the harness (time.Parse); everything after it by TLC",
                        "Unicode White_Space list as of Unicode 15 (PropList.txt) transcribed in TextLine.tla"]
