"""P01 - the TLA+ proof system checks (unbounded, model level; not in MANIFEST.checks):
   proofs/util/ProgressProof (C19), proofs/logger/LogSinkProof (C02), proofs/tasklane/TaskLaneProof + TaskLaneInv + 8 step modules (C06, C07), proofs/tasklane/TaskLaneShareProof (C08), proofs/tasklane/TaskLaneCountProof + TaskLaneStatusProof (C14), proofs/netutil/IPv4FilterConcProof (C12)."""
TASKLANE_PROOF = ["TaskLaneInv", "TaskLaneStepA", "TaskLaneStepB", "TaskLaneStepC", "TaskLaneStepD", "TaskLaneStepE",
                  "TaskLaneStepF", "TaskLaneStepG", "TaskLaneStepH", "TaskLaneProof"]


def run(ctx):
    n1 = ctx.tlaps("util", "ProgressProof", tag="ProgressProof: SizeIsSum, Monotone, EachIsASize, NeverParksInWrite, CloseDeliversTotal for any number of writes / byte counts")
    n2 = ctx.tlaps("logger", "LogSinkProof", tag="LogSinkProof: one writer at a time, own line, pool safety for any goroutines / records / derived handlers")
    n3 = ctx.tlaps("tasklane", TASKLANE_PROOF, tag="TaskLaneProof: AtMostOnce, NoRejectedRun, StartedOnlyIfPushed, PostCancelReject, WaitOnlyWhenQuiet for any N, Q, tasks, producers")
    n5 = ctx.tlaps("tasklane", ["TaskLaneCountProof", "TaskLaneStatusProof"], tag="TaskLaneCountProof + TaskLaneStatusProof: CntBounds, StatusBounds (C14) for any N, Q, tasks, producers")
    n3 += n5
    n4 = ctx.tlaps("tasklane", "TaskLaneShareProof", tag="TaskLaneShareProof: NoIdleWhileWaiting (C08) for any N, Q, tasks, producers")
    n3 += n4
    n6 = ctx.tlaps("netutil", "IPv4FilterConcProof", tag="IPv4FilterConcProof: MutualExclusion, ScanSeesStableFilter (C12) for any writers / readers / programs")
    n2 += n6
    ctx.cov.update({"evaluations": n1 + n2 + n3, "distinct_nontrivial": n3,
                    "rule": "proof obligations of the inductive-invariant proofs, all discharged by tlapm (SMT / Zenon / Isabelle / PTL back ends); "
                            "non-trivial = obligations of the TaskLane protocol proof", "exhaustive": True,
                    "progress_obligations": n1, "logsink_obligations": n2, "tasklane_obligations": n3})
    ctx.assumptions += ["the proofs are about the TLA+ models (implementation-shaped layers); the binding of the models to the code is the job of the C-checks",
                        "TaskLaneProof assumes OuterCheck = TRUE (the design as built) and N >= 1, Tasks a set of positive integers"]
