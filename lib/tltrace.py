"""Implementation-level trace validation of tasklane traces against TaskLane.tla (TaskLaneTrace.tla)."""
import json, os, re
import vlib

KEEP = {"push.begin", "push.end", "task.start", "task.end", "task.panic", "cancel.begin", "cancel.end", "wait.begin", "wait.end",
        "status.begin", "status.end", "q.took", "q.inc", "q.exit.take", "q.exit.chk", "q.sent.fast", "q.offer", "q.sent.own", "q.sent.uni",
        "q.exit.offer", "q.dec", "w.exit.chk", "w.got.fast", "w.listen", "w.got.own", "w.got.uni", "w.exit.listen", "w.recovered"}


def prepare(case):
    """-> (trace lines, defs module text, cfg text) for one recorded scenario"""
    evs = [e for e in case["evs"] if e["e"] in KEEP and not (e["e"].startswith("status") and e["p"] != 90)]
    lane, prod, panics = {}, {}, {}
    for e in evs:
        if e["e"] == "push.begin":
            lane[e["t"]], prod[e["t"]] = e["lane"], e["p"]
        if e["e"] == "task.panic":
            panics[e["t"]] = e["v"]
    tasks = sorted(lane)
    if not tasks:
        return None
    fn = lambda d, quote=False: " @@ ".join("(%d :> %s)" % (t, ('"%s"' % d[t]) if quote else d[t]) for t in tasks)
    pan = {t: panics.get(t, "none").replace("\\", "/").replace('"', "'") for t in tasks}
    for e in evs:  # the same sanitising on the trace side
        if e.get("v"):
            e["v"] = e["v"].replace("\\", "/").replace('"', "'")
    defs = ("---- MODULE TLTraceDefs ----\nEXTENDS TaskLaneTrace\nLaneT == %s\nProdT == %s\nPanicsT == %s\n====\n"
            % (fn(lane), fn(prod), fn(pan, True)))
    deadline = "deadline=true" in case.get("note", "")
    cfg = ("SPECIFICATION TraceSpec\nCONSTANTS\n  N = %d\n  Q = %d\n  Tasks = {%s}\n  Lane <- LaneT\n  Prod <- ProdT\n  Pinned = {}\n  Panics <- PanicsT\n"
           "  CanCancel = TRUE\n  Sharing = TRUE\n  OuterCheck = TRUE\n  WithStatus = TRUE\n  Deadline = %s\n"
           "INVARIANTS NotAccepted AtMostOnce NoRejectedRun AtMostNRunning CntBounds NoIdleWhileWaiting\nCONSTRAINT HighWater\nPOSTCONDITION ReportHW\nCHECK_DEADLOCK FALSE\n"
           % (case["n"], case["q"], ", ".join(map(str, tasks)), "TRUE" if deadline else "FALSE"))
    trace = "".join(json.dumps({"e": e["e"], "p": e.get("p", 0), "t": e.get("t", 0), "res": e.get("res", ""), "v": e.get("v", ""),
                                "pend": e.get("pend", 0)}) + "\n" for e in evs)
    return trace, defs, cfg, len(evs)


def validate(ctx, cases, maxpar=14, timeout=300):
    """returns list of (case, status, detail): status in accepted | rejected | invariant:<name> | skipped"""
    results = []

    def one(c):
        prep = prepare(c)
        if prep is None:
            return (c, "skipped", "")
        trace, defs, cfg, n = prep
        try:
            r = ctx.tlc("tasklane", "TLTraceDefs", cfg, workers=1, timeout=timeout, xmx="2g", count=False,
                        files={"trace.ndjson": trace, "TLTraceDefs.tla": defs}, deque=True, tag="trace %s (%d events)" % (c["kind"], n))
        except vlib.Infra as e:
            return (c, "infra", str(e)[:500])
        if r.violated == "NotAccepted":
            return (c, "accepted", "")
        if r.violated:
            return (c, "invariant:" + r.violated, r.trace[:1500])
        m = re.search(r'<<"HIGHWATER", (\d+)>>', r.out)
        return (c, "rejected", "matched %s of %d events" % (m.group(1) if m else "?", n))
    results = vlib.parallel([(lambda c=c: one(c)) for c in cases], maxpar)
    return results
