"""C14 - see tasklane_common.py (spec/tasklane/TaskLane.tla, TaskLaneCases.tla)."""
import tasklane_common


def run(ctx):
    tasklane_common.run(ctx, "C14")
