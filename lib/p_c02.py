"""C02 - logging is atomic per record (spec/logger/LogSink.tla; traces recorded at the real
destination writer judged by spec/logger/LogSinkCases.tla)."""
import re
import vlib
from vlib import judge


def run(ctx):
    q = ctx.quick()
    base = open(vlib.SPEC + "/logger/LogSinkMC.cfg").read()
    r = ctx.tlc("logger", "LogSinkMC", base, workers=16, timeout=1800, xmx="12g")
    if r.violated:
        raise vlib.Infra("spec-level counterexample (model, not code):\n" + r.trace[:3000])
    muts = ("NewMutexInClone", "FreeBeforeWrite", "NoLock")
    res = vlib.parallel([(lambda m=m: ctx.tlc("logger", "LogSinkMC", base.replace('Mutant = "none"', 'Mutant = "%s"' % m), workers=4,
                                              timeout=600, count=False, tag="mutant " + m)) for m in muts], 3)
    for m, mr in zip(muts, res):
        if not mr.violated:
            raise vlib.Infra("vacuity: LogSink mutant %s violates nothing" % m)
    # unbounded: any number of goroutines, records and derived handler nodes, by the TLA+ proof system
    ctx.tlaps("logger", "LogSinkProof", timeout=900, tag="LogSinkProof (inductive invariant: one writer at a time, own line, pool safety)")
    hb = ctx.build("logsink")
    ctx.run([hb, "-out", ctx.path("traces.ndjson"), "-runs", "2" if q else "12", "-hammer", "40000" if q else "300000", "-goroutines", "8", "-records", "100" if q else "300"], timeout=2400)
    rows = vlib.read_ndjson(ctx.path("traces.ndjson"))
    bad, _, _ = judge(ctx, "logger", "LogSinkCases", [{"evs": c["evs"]} for c in rows], nshards=min(16, len(rows)), workers=1, timeout=2400, xmx="3g")
    kinds = {id(c): c for c in rows}
    seen = set()
    for n, c in enumerate(bad):
        m_ = re.match(r'(\d+), "(.*)"$', c.get("_info") or "")
        k, rule = (int(m_.group(1)), m_.group(2)) if m_ else (1, "rejected")
        kind = next((x["kind"] for x in rows if x["evs"] is c["evs"] or x["evs"] == c["evs"]), "?")
        sig = "%s handler: %s" % (kind, rule)
        if sig in seen:
            continue
        seen.add(sig)
        ctx.violation(sig, "%s handler: %s (event %d of %d): %s" % (kind, rule, k, len(c["evs"]), c["evs"][max(0, k - 6):k]), {"window": c["evs"][max(0, k - 30):k + 2]})
    nw = sum(1 for c in rows for e in c["evs"] if e["e"] == "wb")
    big = sum(1 for c in rows for e in c["evs"] if e["e"] == "wb" and e["n"] > 16384)
    ctx.cov.update({
        "traces_validated_against_impl": len(rows), "evaluations": nw, "distinct_nontrivial": big,
        "rule": "runs of 8 goroutines x 100-300 records through the root logger and loggers derived before and during the run "
                "(With / WithGroup), 3 handlers, seeded thresholds, sizes 0 B - 66 KB, destination dwelling inside Write; "
                "non-trivial = Write calls with a payload above the 16 KiB pooled-buffer limit",
        "exhaustive": False, "write_calls": nw, "oversize_writes": big,
        "disabled_records": sum(1 for c in rows for e in c["evs"] if e["e"] == "lb" and not e["en"]),
    })
    ctx.sample(rows[0]["evs"][:8])
    ctx.assumptions += ["a Write executes on the goroutine that called Log (true for glb handlers)", "timestamps masked by position"]
