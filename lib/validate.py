#!/usr/bin/env python3
"""Validate MANIFEST.json and evidence/*.json against the schemas (needs jsonschema: run with python3-vt)."""
import json, glob, sys, os
import jsonschema
V = os.path.dirname(os.path.dirname(os.path.abspath(__file__)))
jsonschema.validate(json.load(open(V + '/MANIFEST.json')), json.load(open('/root/.vp/MANIFEST.schema.json')))
es = json.load(open('/root/.vp/EVIDENCE.schema.json'))
for f in sorted(glob.glob(V + '/evidence/*.json')):
    jsonschema.validate(json.load(open(f)), es)
    print('ok', os.path.basename(f))
print('manifest ok')
