"""C18 - CopyFile and MoveFile never lose file content (spec/util/FileOps.tla; G binding:
every TLC scenario materialised on real temp directories, second file system = tmpfs)."""
import json, os
import vlib


def run(ctx):
    q = ctx.quick()
    base = open(vlib.SPEC + "/util/FileOps.cfg").read()
    r = ctx.tlc("util", "FileOps", base, workers=4, timeout=600)
    if r.violated:
        raise vlib.Infra("spec-level counterexample (model, not code):\n" + r.trace[:3000])
    m = ctx.tlc("util", "FileOps", base.replace("SameFileCheck = TRUE", "SameFileCheck = FALSE"), workers=2, timeout=600,
                count=False, tag="mutant truncate-before-look")
    if m.violated != "ContentPreserved" and m.violated != "NeverLost":
        raise vlib.Infra("vacuity: the design without the same-file test preserves content")
    g = ctx.tlc("util", "FileOps", base.replace("INVARIANT ContentPreserved\nINVARIANT NeverLost", "INVARIANT Export"), workers=1,
                timeout=600, count=False, tag="export scenarios")
    scen = [j for j in g.json if "scen" in j]
    if len(scen) < 60:
        raise vlib.Infra("only %d scenarios exported" % len(scen))
    with open(ctx.path("scen.ndjson"), "w") as f:
        for s_ in scen:
            f.write(json.dumps(s_) + "\n")
    hb = ctx.build("fileops")
    p = ctx.run([hb, "-in", ctx.path("scen.ndjson"), "-out", ctx.path("mm.ndjson"), "-work", ctx.scratch, "-other", "/dev/shm",
                 "-reps", "1" if q else "6"], timeout=1800)
    stats = json.loads(p.stdout.strip().splitlines()[-1])
    mm = vlib.read_ndjson(ctx.path("mm.ndjson"))
    seen = set()
    drift = [m_ for m_ in mm if m_["kind"] == "drift"]
    for m_ in mm:
        if m_["kind"] != "violation":
            continue
        sc = m_["scen"]
        alias = sc["dst"] in ("same", "symlinkToSrc", "hardlinkToSrc", "otherFsSymlinkToSrc")
        sig = "%s src=%s dst=%s%s" % (sc["op"], sc["src"], sc["dst"], " (alias of the source)" if alias else "")
        if sig in seen:
            continue
        seen.add(sig)
        ctx.violation(sig, "%sFile(src=%s, dst=%s [%s], %d bytes): %s" % (sc["op"].capitalize(), sc["src"], sc["dst"], m_["spell"], m_["size"], m_["what"]), m_)
    if drift and not ctx.violations:
        ctx.level = "exploration"
        ctx.notes.append("DRIFT: %d outcomes differ from the implementation-shaped model's predicted tree but satisfy the statement, e.g. %s"
                         % (len(drift), drift[0]["what"]))
        print("DRIFT property=C18 %d outcomes differ from the predicted tree yet satisfy the statement" % len(drift))
    if stats["skipped_no_second_fs"]:
        ctx.notes.append("%d runs skipped: no second file system available" % stats["skipped_no_second_fs"])
    ctx.cov.update({
        "traces_validated_against_impl": stats["runs"], "evaluations": stats["runs"],
        "distinct_nontrivial": len([s_ for s_ in scen if s_["scen"]["dst"] != "missing"]),
        "rule": "every scenario of the model (copy/move x source file|missing|dir|symlink-to-file x 16 destination kinds incl. same path, ./ and "
                "sub/.. spellings, symlink, hard link, other file system, dangling link, directory, missing / non-directory parent, a full "
                "device) x sizes 0 B, 12 B, 33 KiB, 64 KiB, 1 MiB, 2 MiB+123457, 3 MiB on real directories; contents random or with runs of "
                "zero bytes; source names that look like scratch files of the destination; existing destinations also with the source's "
                "length and modification time; non-trivial = destination is not simply missing",
        "exhaustive": True, "scenarios": len(scen), "stats": stats, "mismatches": len(mm),
    })
    ctx.sample(scen[5])
    ctx.sample(scen[40])
    ctx.assumptions += ["second file system = /dev/shm (tmpfs); if absent those scenarios are skipped and counted",
                        "mid-copy I/O errors (disk full) are modelled in the spec's branches but cannot be injected into the real call"]
