"""C17 - ResolveUrlPath never leaves the base directory (spec/util/UrlPath.tla)."""
import vlib
from vlib import judge


def s(a):
    return bytes(a).decode("latin1")


def run(ctx):
    q = ctx.quick()
    maxlen = 6 if q else 8
    # 1. design level: TLC exhaustively checks the implementation-shaped Resolve against the statement
    cfg = open(vlib.SPEC + "/util/UrlPathMC.cfg").read().replace("MaxLen = 6", "MaxLen = %d" % maxlen)
    r = ctx.tlc("util", "UrlPathMC", cfg, workers=8 if q else 16, timeout=900)
    if r.violated:
        raise vlib.Infra("spec-level counterexample (model, not code):\n" + r.trace[:2000])
    # non-vacuity: the raw-join mutant must be rejected
    mcfg = cfg.replace("INVARIANT Contained", "INVARIANT MutantRawJoinContained").replace("MaxLen = %d" % maxlen, "MaxLen = 4")
    m = ctx.tlc("util", "UrlPathMC", mcfg, workers=4, timeout=300, count=False, tag="mutant RawJoin")
    if not m.violated:
        raise vlib.Infra("vacuity: raw-join mutant satisfies containment in the bounded model")
    # 2. binding: real function on the same space (+ seeded arbitrary bytes), TLC judges real outputs
    hb = ctx.build("urlpath")
    cases = ctx.path("cases.ndjson")
    ctx.run([hb, "-maxlen", str(maxlen), "-extra", "2000" if q else "20000", "-out", cases])
    rows = vlib.read_ndjson(cases)
    bad, drift, _ = judge(ctx, "util", "UrlPathCases", rows, per_shard=12000 if q else 50000, workers=1)
    for c in bad[:50]:
        ctx.violation("base=%r path=%r" % (s(c["b"]), s(c["p"])),
                      "ResolveUrlPath(%r, %r) = %r violates containment / dot-free join" % (s(c["b"]), s(c["p"]), s(c["r"])), c)
    if drift and not bad:
        ctx.level = "exploration"
        ctx.notes.append("DRIFT: %d results differ from the implementation-shaped Resolve but satisfy the statement, e.g. %r"
                         % (len(drift), {k: s(v) for k, v in drift[0].items()}))
        print("DRIFT property=C17 %d results differ from spec Resolve yet satisfy the statement" % len(drift))
    dot = sum(1 for c in rows if 46 in c["p"])
    ctx.cov.update({
        "traces_validated_against_impl": len(rows), "evaluations": len(rows),
        "distinct_nontrivial": len({(tuple(c["b"]), tuple(c["p"])) for c in rows if 46 in c["p"]}),
        "rule": "all URL paths of length <= %d over {'/','.','a','\\\\'} x 8 bases through the real ResolveUrlPath, plus percent-encoded / backslash-led / mixed spellings and seeded "
                "longer paths over arbitrary bytes; non-trivial = path contains a '.' byte (dot segments can arise)" % maxlen,
        "exhaustive": True, "model_maxlen": maxlen, "drift": len(drift), "with_dot": dot,
    })
    for c in rows[1000:1003] + rows[-2:]:
        ctx.sample({"base": s(c["b"]), "path": s(c["p"]), "result": s(c["r"])})
    ctx.assumptions += ["POSIX path semantics (lexical; symlinks not considered)",
                        "TLC judge: Under/DotFree/Join operators of spec/util/UrlPath.tla"]
