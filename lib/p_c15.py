"""C15 - Logger.Relay contains handler panics and logs each request once, truthfully
(spec/logger/Relay.tla; G binding: every handler script of the model executed through the real
Mux + Relay behind a real HTTP server and a recorder, then 16 clients in flight)."""
import json
import vlib


def cfg(reqs, flush_records=True, with_flush=True, inv="INVARIANTS Truthful OneBegOneEnd"):
    return ("SPECIFICATION Spec\nCONSTANTS\n  Reqs = {%s}\n  FlushRecords = %s\n  WithFlush = %s\n%s\nCHECK_DEADLOCK FALSE\n"
            % (reqs, "TRUE" if flush_records else "FALSE", "TRUE" if with_flush else "FALSE", inv))


def run(ctx):
    q = ctx.quick()
    # two interleaved requests over all scripts (without Flush to keep the product small), one request over all scripts with Flush
    # (thorough: the two interleaved requests range over the scripts with Flush as well)
    r = ctx.tlc("logger", "Relay", cfg("1, 2", with_flush=not q), workers=16, timeout=3000, xmx="16g", tag="Relay 2 requests")
    if r.violated:
        raise vlib.Infra("spec-level counterexample (model, not code):\n" + r.trace[:3000])
    r = ctx.tlc("logger", "Relay", cfg("1"), workers=4, timeout=600, tag="Relay 1 request with Flush")
    if r.violated:
        raise vlib.Infra("spec-level counterexample (model, not code):\n" + r.trace[:3000])
    m = ctx.tlc("logger", "Relay", cfg("1", flush_records=False), workers=2, timeout=600, count=False, tag="mutant Flush not recorded")
    if m.violated != "Truthful":
        raise vlib.Infra("vacuity: a Flush that leaves Status at 0 still satisfies Truthful")
    g = ctx.tlc("logger", "Relay", cfg("1", inv="INVARIANT Export"), workers=1, timeout=600, count=False, tag="export scripts")
    scen = []
    for j in g.json:
        if isinstance(j, list):
            scen += j
        elif isinstance(j, dict):
            scen += list(j.values())
    if len(scen) < 100:
        raise vlib.Infra("only %d scripts exported" % len(scen))
    with open(ctx.path("scripts.ndjson"), "w") as f:
        for s_ in scen:
            f.write(json.dumps([s_]) + "\n")
    hb = ctx.build("relay")
    p = ctx.run([hb, "-in", ctx.path("scripts.ndjson"), "-out", ctx.path("mm.ndjson"), "-conc", "16", "-per", "20" if q else "200"], timeout=2400)
    stats = json.loads(p.stdout.strip().splitlines()[-1])
    mm = vlib.read_ndjson(ctx.path("mm.ndjson"))
    seen = set()
    for m_ in mm:
        sc = m_["script"]
        shape = "wh=%s write=%s flush=%s panicAt=%s pv=%s" % (sc["wh"], sc["write"], sc["flush"], sc["panicAt"], sc["pv"])
        kind = m_["what"].split(";")[0][:60]
        sig = "%s | %s" % (kind if len(kind) < 50 else kind[:50], "flush before panic" if sc["flush"] and sc["panicAt"] == 4 else shape)
        if sig in seen:
            continue
        seen.add(sig)
        if len(seen) <= 20:
            ctx.violation(sig, "%s handler, %s route via %s, script {%s}: %s; records: %s" % (
                m_["kind"], m_["route"], m_["via"], shape, m_["what"], m_["recs"]), m_)
    ctx.cov.update({
        "traces_validated_against_impl": stats["runs"], "evaluations": stats["runs"],
        "distinct_nontrivial": len([s_ for s_ in scen if s_["script"]["panicAt"] > 0]),
        "rule": "every handler script of the model (WriteHeader 201/404/503 or none, body or not, Flush or not, panic at each position "
                "with 9 value kinds incl. nil, an error wrapping ErrAbortHandler, typed nil pointers and values whose String / Error method panics) x 3 log handlers x matched/unmatched route x real "
                "HTTP server (escaped panics recorded) / recorder, bodies written through eight different writer paths incl. zero-length writes, then 16 clients in flight with random scripts; non-trivial = scripts with a panic",
        "exhaustive": True, "scripts": len(scen), "runs": stats["runs"], "mismatches": len(mm),
    })
    ctx.sample(scen[3])
    ctx.sample(scen[-1])
    ctx.assumptions += ["one destination Write = one record (C02)", "status set at most once, before any body (the property's quantifier)"]
