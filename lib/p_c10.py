"""C10 - command-line grammar of config.FlagSet.Parse (spec/config/ArgParse.tla)."""
import json, os
import vlib
from vlib import judge

TOKENS = ["-b", "--b", "-b=true", "-b=false", "-b=", "-b=x", "-s", "-s=v", "--s=v", "-s=", "-s=a=b", "--s", "-i=7", "-i=x", "-i",
          "-i=-5", "-u", "-u=1", "--", "-", "---s", "-=", "-=v", "--=v", "v", "true", "-5", "=", "", "-help", "--help=false",
          "-config=", "x=y", "s", "-s=-b", "--i=", "-b=1", "-config=cfg.json",
          "-B", "--B=true", "-S=v", "-I=7", "-HELP", "-Help=true",
          "-i=010", "-i=0x1f", "-i=08", "-i=1_0", "-i=0b11", "-i=+4", "-i=0_7", "-i=_1",
          "-t", "-t=false", "false", "0"]


def s(a):
    return bytes(a).decode("latin1")


def run(ctx):
    q = ctx.quick()
    toks = "".join(json.dumps(list(t.encode())) + "\n" for t in TOKENS)
    cfg = open(vlib.SPEC + "/config/ArgParseMC.cfg").read()
    if not q:
        cfg = cfg.replace("MaxLen = 3", "MaxLen = 4")
    r = ctx.tlc("config", "ArgParseMC", cfg, workers=16, timeout=1800, xmx="10g", files={"tokens.ndjson": toks})
    if r.violated:
        raise vlib.Infra("spec-level counterexample (model, not code):\n" + r.trace[:3000])
    hb = ctx.build("argparse")
    with open(ctx.path("tokens.ndjson"), "w") as f:
        f.write(toks)
    ctx.run([hb, "-maxlen", "3" if q else "4", "-extra", "3000" if q else "30000", "-tokens", ctx.path("tokens.ndjson"),
             "-out", ctx.path("cases.ndjson")], timeout=1200)
    rows = vlib.read_ndjson(ctx.path("cases.ndjson"))
    slim = [{k: c[k] for k in ("v", "err", "panic", "b", "t", "s", "i", "help", "rest")} for c in rows]
    bad, _, _ = judge(ctx, "config", "ArgParseCases", slim, per_shard=5000 if q else 140000, workers=1, timeout=1800,
                      extra_files={"cfgpath.ndjson": json.dumps(list(b"cfg.json")) + "\n"})
    for c in bad[:40]:
        v = [s(t) for t in c["v"]]
        ctx.violation("argv=%r" % v, "Parse(%r): err=%s panic=%s b=%s t=%s s=%r i=%s help=%s rest=%r contradicts the documented grammar"
                      % (v, c["err"], c["panic"], c["b"], c["t"], s(c["s"]), c["i"], c["help"], [s(t) for t in c["rest"]]), c)
    ctx.cov.update({
        "traces_validated_against_impl": len(rows), "evaluations": len(rows),
        "distinct_nontrivial": len({json.dumps(c["v"]) for c in rows if len(c["v"]) >= 2}),
        "rule": "all argument vectors of length <= %d over %d tokens (well-formed flags, near-misses, values that look like "
                "flags, stray values, repeated flags, unknown names, -help/-config) plus seeded byte-string tokens, through "
                "the real NewFlagSet+Parse; non-trivial = vector of >= 2 tokens" % (3 if q else 4, len(TOKENS)),
        "exhaustive": True, "errors_seen": sum(1 for c in rows if c["err"]), "ok_seen": sum(1 for c in rows if not c["err"]),
    })
    for c in rows[5000:5003] + rows[-2:]:
        ctx.sample({"argv": [s(t) for t in c["v"]], "err": c["err"], "b": c["b"], "s": s(c["s"]), "i": c["i"],
                    "rest": [s(t) for t in c["rest"]]})
    ctx.assumptions += ["error text is not compared, only error-ness", "integer texts longer than 7 bytes that are not plain decimals are strconv's (model: unknown); shorter ones are read by the Go integer literal grammar (GoLit.tla)"]
