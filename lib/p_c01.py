"""C01 - JSON handler: every record is one valid, faithful JSON line
(spec/logger/JsonLine.tla structure, JsonString.tla string fidelity, common/Utf8.tla; judge JsonCases.tla)."""
import json
import vlib
from vlib import judge


def mc_cfg(maxchain, sitedepth, pinned=False, export=False):
    return ("SPECIFICATION Spec\nCONSTANTS\n  MaxChain = %d\n  SiteDepth = %d\n  Pinned = %s\n  DoExport = %s\nINVARIANT %s\nCHECK_DEADLOCK FALSE\n"
            % (maxchain, sitedepth, "TRUE" if pinned else "FALSE", "TRUE" if export else "FALSE", "Export" if export else "LineSays"))


def s(a):
    return bytes(a).decode("latin1")


def describe(c):
    if c["mode"] == "strings":
        return "input %r as %s: literal written %r, line shape %s (expected %s)" % (s(c["in"]), c["pos"], s(c["lit"]), c["shape"], c["want"])
    line = "".join(t["t"] if t["t"] not in ("s", "n", "bad") else ('"%s"' % t["x"] if t["t"] == "s" else t["x"] if t["t"] == "n" else "<BAD:%s>" % t["x"])
                   for t in c["toks"])
    if c["mode"] == "callsite":
        return "Logger.%s called at %s:%s (%s logger, source on): line %s" % (c["method"], c["file"], c["line"], "derived" if c["derived"] else "root", line[:400])
    if c["mode"] == "values":
        return "value kind %s (%s, level %s, source=%s): line %s" % (c["kind"], c["where"], c["level"], c["source"], line[:400])
    def f(nodes):
        return [((n["k"] or "<inline>") + (":" + n["x"] if n["t"] == "leaf" else "{%s}" % ",".join(map(str, f(n["c"]))))) for n in nodes]
    chain = [("With(%s)" % ",".join(f(it["f"])) if it["op"] == "with" else "WithGroup(%s)" % it["name"]) for it in c["chain"]]
    return "chain %s, call attrs %s wrote %s" % (chain, f(c["site"]), line[:400])


def signature(c):
    if c["mode"] == "strings":
        return "string fidelity (%s)" % c["pos"]
    if c["mode"] == "callsite":
        return "caller's file and line via %s" % c["method"]
    if c["mode"] == "values":
        return "value kind %s" % c["kind"]
    def has_empty_inline(nodes):
        return any((n["t"] == "group" and n["k"] == "" and not n["c"]) or has_empty_inline(n["c"]) for n in nodes)
    if has_empty_inline(c["site"]) or any(has_empty_inline(it["f"]) for it in c["chain"]):
        return "structure: empty inline group"
    return "structure"


def run(ctx):
    q = ctx.quick()
    # 1. design level
    r = ctx.tlc("logger", "JsonLineMC", mc_cfg(2, 1), workers=16, timeout=2400, xmx="12g", tag="JsonLineMC")
    if r.violated:
        raise vlib.Infra("spec-level counterexample (model, not code):\n" + r.trace[:3000])
    m = ctx.tlc("logger", "JsonLineMC", mc_cfg(1, 1, pinned=True), workers=4, timeout=600, count=False, tag="mutant pinned separator logic")
    if m.violated != "LineSays":
        raise vlib.Infra("vacuity: the pinned separator logic satisfies LineSays")
    scfg = "SPECIFICATION Spec\nCONSTANT MaxLen = %d\nINVARIANT %s\nCHECK_DEADLOCK FALSE\n"
    r = ctx.tlc("logger", "JsonStringMC", scfg % (3 if q else 4, "EscapeFaithful"), workers=16, timeout=2400, xmx="12g", tag="JsonStringMC")
    if r.violated:
        raise vlib.Infra("spec-level counterexample (model, not code):\n" + r.trace[:3000])
    m = ctx.tlc("logger", "JsonStringMC", scfg % (2, "MutRawInvalid"), workers=4, timeout=600, count=False, tag="mutant raw invalid bytes")
    if m.violated != "MutRawInvalid":
        raise vlib.Infra("vacuity: copying invalid bytes raw is Faithful")
    # 2. scenarios for the structure replay (exported by TLC)
    g = ctx.tlc("logger", "JsonLineMC", mc_cfg(2, 1, export=True), workers=8, timeout=1800, count=False, xmx="8g", tag="export scenarios")
    scen = [j for j in g.json if isinstance(j, dict) and "chain" in j]
    if len(scen) < 1000:
        raise vlib.Infra("only %d scenarios exported" % len(scen))
    if q and len(scen) > 9000:
        scen = scen[::max(1, len(scen) // 9000)]
    with open(ctx.path("scen.ndjson"), "w") as f:
        for s_ in scen:
            f.write(json.dumps(s_) + "\n")
    hb = ctx.build("jsonline")
    ctx.run([hb, "-mode", "struct", "-in", ctx.path("scen.ndjson"), "-out", ctx.path("c_struct.ndjson")], timeout=1800)
    ctx.run([hb, "-mode", "values", "-out", ctx.path("c_values.ndjson")], timeout=600)
    ctx.run([hb, "-mode", "strings", "-tier", ctx.tier, "-out", ctx.path("c_strings.ndjson")], timeout=3000)
    rows = []
    for n in ("c_struct", "c_values", "c_strings"):
        rows += vlib.read_ndjson(ctx.path(n + ".ndjson"))
    bad, _, _ = judge(ctx, "logger", "JsonCases", rows, per_shard=3000 if q else 100000, workers=1, timeout=3000, xmx="3g" if q else "6g")
    seen = {}
    for c in bad:
        sig = signature(c)
        seen[sig] = seen.get(sig, 0) + 1
        if seen[sig] <= 2:
            ctx.violation(sig, describe(c), c)
    nstr = sum(1 for c in rows if c["mode"] == "strings")
    ctx.cov.update({
        "traces_validated_against_impl": len(rows), "evaluations": len(rows),
        "distinct_nontrivial": sum(1 for c in rows if c["mode"] == "strings" and c["lit"] != c["in"]) + sum(1 for c in rows if c["mode"] == "struct" and c["chain"]),
        "rule": "structure: every chain (<= %d items) x call-site forest of the TLC model replayed on the real Logger; values: %d records over "
                "48 value kinds (incl. error texts with control bytes, raw JSON in several layouts, times in ten zones) x 3 positions x levels x addSource; strings: every 1-byte string, 2-byte strings (%s), Unicode scalars (%s) "
                "as msg / key / value / With value / group name; non-trivial = strings that needed escaping + structures with a derivation chain"
                % (1 if q else 2, sum(1 for c in rows if c["mode"] == "values"), "first byte from 22 class representatives" if q else "all 65536",
                   "boundaries + 6000 seeded" if q else "all 1112064"),
        "exhaustive": not q, "struct_cases": sum(1 for c in rows if c["mode"] == "struct"), "string_cases": nstr, "bad": len(bad),
    })
    ctx.sample(describe(rows[50]))
    ctx.sample(describe(rows[-5]))
    ctx.assumptions += ["float and time round trips are checked with strconv / time on the Go side (booleans in the case)",
                        "the line lexer (harness) passes structural bytes through untouched; TLC parses the tokens"]
