#!/usr/bin/env python3
"""Regenerates /verif/MANIFEST.json from the table below (one source of truth for the interface)."""
import json, os, sys

VERIF = os.path.dirname(os.path.dirname(os.path.abspath(__file__)))

HOOK_COMMITS = ["e186cbc", "7a2ce2c", "5e37cf0", "1194d96", "4e8a38b"]

# id -> (spec modules, technique, level text, level note, design ref)
P = {
 "C17": ("spec/util/UrlPath.tla (+UrlPathMC, UrlPathCases)",
         "TLA+ spec of lexical path cleaning/containment; TLC exhaustive over all URL paths <= 6/8 bytes x 8 bases; "
         "real ResolveUrlPath outputs on the same space judged by TLC (trace validation, one case = one event)",
         "TLC proves (bounded, exhaustive) that the implementation-shaped Resolve satisfies Under/DotFree=>Join; every real "
         "result on the same finite space plus seeded byte strings is then judged by the statement-layer operators",
         "lexical POSIX path semantics as transcribed in UrlPath.tla; symlinks out of scope", "5/C17"),

 "C16": ("spec/util/ShellQuote.tla (+ShellQuoteMC, ShellQuoteCases)",
         "TLA+ model of the POSIX shell lexer (quoting, word splitting, expansion flags) + implementation-shaped Escape; "
         "TLC exhaustive over all strings <= 4/5 over the 15 special classes; real ShellEscape outputs judged by TLC with "
         "the lexer model, the model itself validated on the same texts by real dash and bash",
         "TLC proves (bounded, exhaustive) that the quoting scheme is read back as one literal word by the lexer model; every "
         "real output on the same space plus seeded byte strings is judged by that model; a violation needs model and real shells to agree",
         "the lexer model in ShellQuote.tla (validated against dash/bash on every judged text); C locale; HOME fixed", "5/C16"),

 "C10": ("spec/config/ArgParse.tla (+ArgParseMC, ArgParseCases)",
         "TLA+ spec of the documented argv grammar (statement) and of the index-scanning loop (implementation-shaped); TLC "
         "checks refinement + extension facts on all vectors <= 3/4 over 38 tokens; real Parse results on the same vectors "
         "and on seeded byte tokens judged by TLC against the grammar",
         "bounded-exhaustive refinement Machine = Grammar in TLC, and every recorded run of the real NewFlagSet+Parse "
         "(error-ness, field values, Args(), ShowUsage(), no panic) must be the outcome the grammar prescribes",
         "error text not compared; int/bool text parsing beyond plain decimals delegated to strconv (spec marks it unknown)", "5/C10"),
 "C09": ("spec/config/Priority.tla, spec/config/Snake.tla",
         "TLA+ spec with the steps of NewFlagSet+Parse and the FirstPresent statement; TLC checks all source-presence "
         "scenarios; every scenario with its predicted final values is replayed on the real Parse with run-time built structs",
         "TLC exhausts the scenario space (presence lattice per field x carriers) for PriorityHolds/Independent, rejects four "
         "wrong-priority mutants, and exports each scenario with the predicted winner; the harness replays them on real code "
         "for all 9 kinds, nesting, tag syntaxes, cli spellings, with env names derived by the Snake spec",
         "strconv/encoding-json value parsing trusted; value tokens instantiated from per-kind pools incl. extremes", "5/C09"),

 "C04": ("spec/httpd/Router.tla (+RouterMC, RouterCases)",
         "TLA+ spec with a declarative Match on the route set (statement) and the trie Register/Lookup (implementation-shaped); "
         "TLC checks Lookup = Match and accept/reject agreement for all tables <=2/<=3 routes x all requests; the real Mux is "
         "driven over the same tables/requests and every table's observations are judged by TLC against Match",
         "bounded-exhaustive refinement trie = Match in TLC plus exhaustive conformance of the real ServeHTTP on the same finite "
         "space (handler identity, call count, RouteInfo, every RouteParam / RouteParamAny, no panic); verdicts use Match only",
         "patterns start with '/'; non-rooted request paths: totality + one of the admissible segmentations (DESIGN 5/C04)", "5/C04"),
 "C05": ("spec/httpd/StorePool.tla, spec/httpd/StorePoolCases.tla (extends Router)",
         "TLA+ model of ServeHTTP around the Store pool (reuse of any pooled Store, append-on-find, resets, lost Store on panic), "
         "TLC checks isolation for all histories <=4/5 ops with 2 overlapping requests and rejects 5 leak mutants; recorded "
         "histories of the real Mux (sequential exhaustive, seeded long, 8-goroutine batches) are judged by TLC against Match",
         "TLC-exhaustive pool model + trace validation of real histories: each observation (route, every param, status, id) must "
         "be what a fresh Mux would give; ids unique and constant; number of requests on recycled Stores is measured",
         "sync.Pool reuse cannot be forced (measured); registrations only between requests", "5/C05"),

 "C11": ("spec/netutil/IPv4Filter.tla (+IPv4FilterMC, IPv4FilterCases)",
         "TLA+ spec: set-of-prefixes statement vs list+tombstones+migration+maps implementation; TLC explores the full reachable "
         "graph of a small universe (refinement in every state), generates behaviours with predicted answers that are replayed on "
         "the real filter via bit-position embedding + tombstone padding, and judges real-width recorded histories (W=32)",
         "refinement checked exhaustively on the complete state graph (W=2/ListSize=3 quick, W=3/ListSize=2 thorough); G: simulated "
         "spec behaviours replayed on real code with every model address probed in both forms; T: 650+-op real histories crossing "
         "the real 256-slot switch judged by TLC against the abstract set",
         "16-byte CIDR arguments not exercised as valid input; embedding argument in DESIGN 5/C11", "5/C11"),
 "C12": ("spec/netutil/IPv4FilterConc.tla (+IPv4FilterConcMC, IPv4FilterConcCases), proofs/netutil/IPv4FilterConcProof.tla",
         "TLA+ model of the RWMutex protocol with the migration as several steps inside the critical section and interval "
         "bookkeeping (definitely/possibly present) as the statement; TLC checks all interleavings of 2 writers + readers and rejects "
         "the lock-free reader; the lock discipline (mutual exclusion; a lookup never scans a half-migrated filter) is also proved for ANY "
         "writers / readers / programs with the TLA+ proof system (51 obligations); real traces (-race build, dwell hooks in critical sections) judged by TLC with the same bookkeeping",
         "TLC-exhaustive interleavings in the bounded model; every recorded lookup of the real filter under churn across the switch "
         "must satisfy: stable range covers => true, true => some possibly-present range covers; race detector reports are violations",
         "witnessed schedules only (widened by seeded dwell inside the locked regions); Go race detector", "5/C12"),

 "C18": ("spec/util/FileOps.tla",
         "TLA+ model of the file-system state (names, inodes, symlinks, hard links, two devices) with CopyFile / MoveFile as one "
         "system call per step and their failure branches; TLC explores every scenario and exports each with its predicted "
         "outcome; the harness materialises every scenario on real directories (tmpfs as the second file system) and checks the "
         "statement on the real outcome",
         "exhaustive over the scenario space of the model (2 ops x 3 source kinds x 13 destination kinds incl. every aliasing form "
         "and EXDEV); each scenario replayed on the real functions for 4 sizes; verdicts only from the statement (content of source / "
         "destination vs. the snapshot), differences to the predicted tree are reported as drift",
         "mid-copy I/O faults cannot be injected into the real call; second file system must exist (else skipped and counted)", "5/C18"),

 "C03": ("spec/logger/LogDerive.tla",
         "TLA+ memory model of Go slice aliasing for the handlers' preformatted buffers (clone with/without Clip, append in place "
         "or into a new array of any capacity); TLC checks View(node) = own chain for all derivation trees and rejects NoClip; "
         "TLC-simulated derivation histories are replayed on Nano/Text/JSON and each logged line is compared with the isolated "
         "replay of the chain the spec attributes to the node",
         "TLC-exhaustive over all trees <= 4/5 derived nodes x realloc capacities; G binding on real loggers in history order and with "
         "concurrent sibling derivation, attribute sizes chosen to leave spare capacity; second oracle With(A);call(B) = call(A++B)",
         "timestamps masked; addSource off", "5/C03"),
 "C06": ('spec/tasklane/TaskLane.tla (+TaskLaneMC, MC_*.cfg, MUT_*.cfg), spec/tasklane/TaskLaneCases.tla, proofs/tasklane/TaskLaneProof.tla (+TaskLaneInv, TaskLaneStepA-H)',
         'TLA+ model of the tasklane protocol with explicit Go channel/select semantics (poll-and-park, rendezvous only with a parked peer, close(done) claiming parked goroutines, timer), one action per select/statement; TLC checks all interleavings incl. cancellation at every point, safety invariants and liveness under weak fairness, and rejects spec mutants; thorough tier: the safety invariants are also proved for ANY number of lanes, queue size, tasks and producers by an inductive invariant checked with the TLA+ proof system (1605 obligations); traces of the real TaskLane (verif hooks as event sources and as cancellation gates at every protocol point, quiescence by goroutine census) are validated by TLC against the statement layer',
         'AtMostOnce, NoRejectedRun, StartedOnlyIfPushed as invariants and EveryAcceptedStarts (~>) under fairness in the bounded model (2-3 lanes, Q in {0,1}, 2-3 tasks, cancel anywhere); on the real code: Start counts per task object, PushTask results, and - at stably quiescent states with the context live - every accepted task started',
         "witnessed schedules only (widened by hook gates, seeded yields, systematic scenario families); bounded model constants as stated", '5/C06'),
 "C07": ('spec/tasklane/TaskLane.tla (+TaskLaneMC, MC_*.cfg, MUT_*.cfg), spec/tasklane/TaskLaneCases.tla, proofs/tasklane/TaskLaneProof.tla (+TaskLaneInv, TaskLaneStepA-H)',
         'TLA+ model of the tasklane protocol with explicit Go channel/select semantics (poll-and-park, rendezvous only with a parked peer, close(done) claiming parked goroutines, timer), one action per select/statement; TLC checks all interleavings incl. cancellation at every point, safety invariants and liveness under weak fairness, and rejects spec mutants; thorough tier: PostCancelReject and WaitOnlyWhenQuiet are also proved for ANY number of lanes, queue size, tasks and producers by an inductive invariant checked with the TLA+ proof system (1605 obligations); traces of the real TaskLane (verif hooks as event sources and as cancellation gates at every protocol point, quiescence by goroutine census) are validated by TLC against the statement layer',
         'PostCancelReject, WaitOnlyWhenQuiet as invariants, NothingAfterWait as action property, ProducersReleased / WaitReturns (~>) in the model; on the real code: cancellation fired inside each protocol hook, late pushes to every lane must return the context error, Wait must not return while a task runs and must have returned / left no goroutine at the final quiescent state',
         "witnessed schedules only (widened by hook gates, seeded yields, systematic scenario families); bounded model constants as stated", '5/C07'),
 "C08": ('spec/tasklane/TaskLane.tla (+TaskLaneMC, MC_*.cfg, MUT_*.cfg), spec/tasklane/TaskLaneCases.tla, proofs/tasklane/TaskLaneShareProof.tla',
         'TLA+ model of the tasklane protocol with explicit Go channel/select semantics (poll-and-park, rendezvous only with a parked peer, close(done) claiming parked goroutines, timer), one action per select/statement; TLC checks all interleavings incl. cancellation at every point, safety invariants and liveness under weak fairness, and rejects spec mutants; NoIdleWhileWaiting and AtMostNRunning are also proved for ANY number of lanes, queue size, tasks and producers with the TLA+ proof system (88 obligations); traces of the real TaskLane (verif hooks as event sources and as cancellation gates at every protocol point, quiescence by goroutine census) are validated by TLC against the statement layer',
         'AtMostNRunning, NoIdleWhileWaiting as invariants and no-head-of-line-blocking liveness with a pinned task (rejecting the no-sharing mutant) in the model; on the real code: overlapping task bodies counted, all-busy then release-all-but-one scenarios per lane and push order, pinned-worker scenarios judged at quiescence',
         "witnessed schedules only (widened by hook gates, seeded yields, systematic scenario families); bounded model constants as stated", '5/C08'),
 "C14": ('spec/tasklane/TaskLane.tla (+TaskLaneMC, MC_*.cfg, MUT_*.cfg), spec/tasklane/TaskLaneCases.tla, proofs/tasklane/TaskLaneCountProof.tla, TaskLaneStatusProof.tla',
         'TLA+ model of the tasklane protocol with explicit Go channel/select semantics (poll-and-park, rendezvous only with a parked peer, close(done) claiming parked goroutines, timer), one action per select/statement; TLC checks all interleavings incl. cancellation at every point, safety invariants and liveness under weak fairness, and rejects spec mutants; thorough tier: CntBounds and StatusBounds (PendingTask in 0..laneSize x (queueSize+1)) are also proved for ANY number of lanes, queue size, tasks and producers with the TLA+ proof system (TaskLaneCountProof, TaskLaneStatusProof on top of TaskLaneProof); traces of the real TaskLane (verif hooks as event sources and as cancellation gates at every protocol point, quiescence by goroutine census) are validated by TLC against the statement layer',
         'worker survives panics, LastPanicIsOne, StatusBounds for the multi-step Status read, AtRestExact (~ENABLED Internal) in the model (1.4M states); on the real code (-race build): simultaneous typed panics in several rounds with Status pollers, systematic at-rest states (pinned 0 / n-1 / n, every queue size) with exact PendingTask comparison, race detector reports on tasklane.go are violations',
         "witnessed schedules only (widened by hook gates, seeded yields, systematic scenario families); bounded model constants as stated", '5/C14'),
 "C02": ("spec/logger/LogSink.tla (+LogSinkMC), spec/logger/LogSinkCases.tla, proofs/logger/LogSinkProof.tla",
         "TLA+ model of Handle(): level gate, pooled buffer, format, shared mutex (pointer copied by clone), Write begin/end, free; "
         "TLC checks NoOverlap / OwnLine / ExactlyOnce / PoolSafe for all interleavings of 3 goroutines x 2 records and rejects 3 "
         "mutants; the TLA+ proof system proves one-writer-at-a-time / OwnLine / PoolSafe for ANY goroutines, records and derived handlers "
         "(inductive invariant, 38 obligations); traces recorded at the real destination writer (dwelling inside Write) are judged by TLC with the same statement",
         "all interleavings of the bounded model; every Write call of real concurrent runs (3 handlers, derived loggers, sizes beyond the "
         "16 KiB pool limit, thresholds) must be alone on the destination, carry exactly the line the record gives when logged alone, "
         "once per enabled record and never for disabled ones",
         "witnessed schedules only (dwell inside Write makes overlap near-certain if serialisation is missing); timestamps masked", "5/C02"),
 "C19": ("spec/util/Progress.tla, spec/util/ProgressCases.tla, proofs/util/ProgressProof.tla",
         "TLA+ model of Write (wrapped writer reports any k<=n with or without error, size update, non-blocking offer that succeeds only "
         "against a parked receiver) and Close (blocking send + close) against an arbitrarily scheduled consumer; TLC checks 6 invariants "
         "over all schedules and rejects the blocking-send mutant; the TLA+ proof system proves the same invariants for ANY number of writes and byte counts (inductive invariant, 30 obligations); traces of the real writer with scripted wrapped writers and consumers "
         "are judged by TLC; stalls are decided on stable states",
         "all schedules of the bounded model (<=4/6 writes, every short/failed count); on real code: Size() = sum of reported counts, "
         "received values non-decreasing and each a total, writer never parked inside Write (goroutine census), Close delivers the total "
         "and closes the channel",
         "witnessed schedules; stall detection = writer parked in ProgressWriter.sum over two samples without any event", "5/C19"),
 "C15": ("spec/logger/Relay.tla",
         "TLA+ model of Relay around a handler script (WriteHeader once / body / Flush / panic at every position with six value kinds), "
         "wire status = first header; TLC checks Truthful for all scripts and two interleaved requests, rejects the Flush-not-recorded "
         "design, and exports every script with the prescribed wire status and record counts; the harness executes each script through the "
         "real Mux+Relay behind a real HTTP server and a recorder, on matched/unmatched routes, for the three log handlers, then under load",
         "exhaustive over the script space of the model; each script replayed on real code (body written through Write, io.WriteString, "
         "io.Copy, fmt.Fprintf, json.Encoder); parsed records (one destination Write = one record) must pair up by id: one REQ_BEG, one "
         "REQ_END with the status the client received, one Error record with the panic value iff the handler panicked, 500 iff no status "
         "was written before the panic; ids unique",
         "status set at most once and before the body (property's quantifier); http.ErrAbortHandler itself excluded", "5/C15"),
 "C20": ("spec/daemon/Daemon.tla, spec/daemon/DaemonCases.tla",
         "TLA+ model of the caller / launcher / daemon handshake with signal delivery (queued if a handler is installed, deadly if not) "
         "and the order of Notify vs. Start as a constant; TLC checks ReturnsOnlyAfterDone, NeverFailsForRunningDaemon, OrphanedOnReturn and "
         "EventuallyReturns, and rejects the pinned order; event files of real three-process runs (O_APPEND total order; launcher paused via "
         "the verif pause point) are judged by TLC",
         "all interleavings of the protocol model; on real processes: 8 schedules (daemon immediate/delayed x launcher paused/unpaused x "
         "1/3 concurrent launches with distinct handler names): Launch must return nil and the pid of the process running that handler, "
         "after its Done(), with the daemon alive, not a child of the caller, launcher gone",
         "schedule control only through the documented pause point; a Launch not returning within 8 s of start counts as not returning", "5/C20"),
 "C01": ("spec/logger/JsonLine.tla (+JsonLineMC), spec/logger/JsonString.tla (+JsonStringMC), spec/common/Utf8.tla, spec/logger/JsonCases.tla",
         "TLA+ spec with a strict JSON token grammar / ordered decoding / Expected tree (statement) and the handler's separator and group "
         "bookkeeping plus appendJsonString (implementation-shaped); TLC checks Decode(Emit) = Expected over all chains x forests and "
         "Unescape(Escape(s)) = Sanitize(s) over byte-class strings, rejects the pinned separator logic and raw-invalid-byte mutants, exports the "
         "scenarios; real lines (structure replay inside derivation trees, 36 value kinds, every 1-byte string, 2-byte strings, Unicode scalars "
         "in 5 positions) are lexed and judged by TLC",
         "bounded-exhaustive design check + exhaustive byte-level conformance of the real handler judged by the statement layer only "
         "(any valid escaping accepted; empty keyed groups may be shown or omitted)",
         "float/time round trips checked by strconv/time on the Go side; line lexer in the harness passes structural bytes through", "5/C01"),
 "C13": ("spec/logger/TextLine.tla (+TextLineMC), spec/common/Utf8.tla, spec/logger/TextCases.tla (scenarios from JsonLineMC)",
         "TLA+ spec with an independent tokenizer for the key=value line grammar, Go-unquote, the Unicode White_Space list and the "
         "dotted-path Expected tokens (statement), plus the quoting decision and strconv.Quote over code-point classes (implementation-shaped); "
         "TLC checks the round trip over all class strings and rejects the Unicode-space mutant; real lines (structure replay inside derivation "
         "trees, 24 value kinds, every 1-byte string, 2-byte strings, Unicode scalars in 5 positions) are tokenized and judged by TLC",
         "bounded-exhaustive design check + exhaustive byte-level conformance of the real handler: every written line must tokenize into "
         "exactly the prescribed tokens with each part unquoting to the original bytes (so nothing can forge a token or a line break)",
         "constant head time=/level= checked on the Go side; White_Space list transcribed from Unicode 15", "5/C13"),
}

NOT_BUILT_REASON = "check not built yet (see DESIGN.md section 5 for the planned TLA+ spec and binding)"


def main():
    props = [json.loads(l)["id"] for l in open(os.path.join(VERIF, "properties.jsonl")) if l.strip()]
    checks, na = [], []
    for pid in props:
        if pid in P and os.path.exists(os.path.join(VERIF, "lib", "p_%s.py" % pid.lower())):
            spec, tech, text, note, ref = P[pid]
            checks.append({
                "property_id": pid,
                "quick_cmd": "./check %s --tier quick" % pid,
                "thorough_cmd": "./check %s --tier thorough" % pid,
                "evidence_file": "/verif/evidence/%s.json" % pid,
                "replay_cmd_template": "./check %s --replay {path}" % pid,
                "engine": "tlc",
                "level_claimed": {"category": "model_checking", "text": text, "design_ref": "DESIGN.md section " + ref},
                "level_note": note,
                "technique": tech,
            })
        else:
            na.append({"property_id": pid, "reason": NOT_BUILT_REASON})
    m = {
        "version": 1,
        "setup_cmd": "./setup.sh",
        "hooks": {
            "guard": "verif",
            "enable": "go build -tags verif (harness module /verif/harness with replace github.com/whoisnian/glb => /repo)",
            "baseline_off_cmd": "cd /repo && go test -vet=off -count=1 ./...",
            "source_commits": HOOK_COMMITS,
            "add_only": True,
        },
        "engines": [{"name": "tlc", "path": "/opt/veriftools/tla/tla2tools.jar",
                     "serves_properties": [c["property_id"] for c in checks],
                     "kind_free_text": "explicit TLA+ specifications under /verif/spec checked with TLC 1.8.0; bound to the Go "
                                       "code by replaying TLC-generated behaviours into the real packages and by validating "
                                       "traces/cases recorded from the real packages against the specifications"}],
        "checks": checks,
        "not_applicable": na,
        "notes": "Driver: ./check <ID> --tier quick|thorough [--seed N]; exit 0 held / 1 VIOLATION / 2 infrastructure. "
                 "Known findings: /verif/known_findings.json. Design: /verif/DESIGN.md.",
    }
    with open(os.path.join(VERIF, "MANIFEST.json"), "w") as f:
        json.dump(m, f, indent=1)
        f.write("\n")
    print("MANIFEST.json: %d checks, %d not_applicable" % (len(checks), len(na)))


if __name__ == "__main__":
    main()
