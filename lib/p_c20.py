"""C20 - daemon.Launch returns the daemon's pid, after Done(), with the daemon orphaned
(spec/daemon/Daemon.tla; event files of real three-process runs judged by spec/daemon/DaemonCases.tla)."""
import re
import vlib
from vlib import judge


def run(ctx):
    q = ctx.quick()
    base = open(vlib.SPEC + "/daemon/Daemon.cfg").read()
    r = ctx.tlc("daemon", "Daemon", base, workers=2, timeout=300)
    if r.violated:
        raise vlib.Infra("spec-level counterexample (model, not code):\n" + r.trace[:3000])
    m = ctx.tlc("daemon", "Daemon", base.replace("NotifyFirst = TRUE", "NotifyFirst = FALSE"), workers=2, timeout=300, count=False,
                tag="mutant Notify after Start")
    if m.violated != "NeverFailsForRunningDaemon":
        raise vlib.Infra("vacuity: the pinned order (Notify after Start) never fails a launch")
    hb = ctx.build("daemonh")
    ctx.run([hb, "-out", ctx.path("traces.ndjson"), "-work", ctx.scratch, "-reps", "1" if q else "5"], timeout=2400)
    rows = vlib.read_ndjson(ctx.path("traces.ndjson"))
    bad, _, _ = judge(ctx, "daemon", "DaemonCases", [{"evs": c["evs"]} for c in rows], nshards=1, workers=2, timeout=600)
    seen = set()
    for c in bad:
        m_ = re.match(r'(\d+), "(.*)"$', c.get("_info") or "")
        k, rule = (int(m_.group(1)), m_.group(2)) if m_ else (1, "rejected")
        src = next((x for x in rows if x["evs"] == c["evs"]), {})
        sig = rule + (" [Done before Notify: launcher paused]" if src.get("pause") else "")
        if sig in seen:
            continue
        seen.add(sig)
        ctx.violation(sig, "%s - schedule daemon delay %sms, launcher pause %sms, %s concurrent launches; events: %s" % (
            rule, src.get("delay"), src.get("pause"), src.get("launches"),
            [{k2: v for k2, v in e.items() if v not in ("", 0, False)} for e in c["evs"]][:14]), {"case": src})
    ctx.cov.update({
        "traces_validated_against_impl": len(rows), "evaluations": sum(1 for c in rows for e in c["evs"] if e["e"] == "ret"),
        "distinct_nontrivial": sum(1 for c in rows if c["pause"] > 0 or c["launches"] > 1),
        "rule": "schedules {daemon Done() immediately | after 50 ms | after 6 s} x {launcher unpaused | paused 300 ms after starting the daemon} x "
                "{1 | 3 concurrent Launch calls with different handler names}, real processes; callers that changed their environment "
                "first; daemons writing heartbeats to stdout / stderr after Done(), looked at 0.4 s after the caller exited; "
                "non-trivial = paused or concurrent",
        "exhaustive": True, "schedules": len(rows),
    })
    ctx.sample([{k2: v for k2, v in e.items() if v not in ("", 0, False)} for e in rows[2]["evs"]])
    ctx.assumptions += ["event order = file offsets of O_APPEND writes", "a Launch that has not returned 8 s after start (Done() within 0.4 s) counts as not returning"]
