"""Shared driver library for the glb TLA+ verification framework.

Verdict rules (DESIGN.md section 3):
  exit 0  property held on everything explored (KNOWN-FINDING lines allowed)
  exit 1  VIOLATION property=<id> replay=<path>   (real-code behaviour contradicting the statement)
  exit 2  infrastructure failure (build error, TLC crash/timeout, dead harness) - never a verdict
"""
import json, os, re, shutil, subprocess, sys, tempfile, time, hashlib, signal, threading

VERIF = os.path.dirname(os.path.dirname(os.path.abspath(__file__)))
REPO = os.environ.get("VERIF_REPO", "/repo")
SPEC = os.path.join(VERIF, "spec")
HARNESS = os.path.join(VERIF, "harness")
TLA_CP = "/opt/veriftools/tla/tla2tools.jar:/opt/veriftools/tla/CommunityModules-deps.jar"
NCPU = os.cpu_count() or 4


class Infra(Exception):
    pass


class TLCResult:
    def __init__(self):
        self.rc = None
        self.out = ""
        self.generated = 0
        self.distinct = 0
        self.depth = 0
        self.ok = False           # "No error has been found"
        self.violated = None      # name of violated invariant/property, or "deadlock"/"temporal"/"assume"
        self.printed = []         # raw PrintT lines (tuples / strings)
        self.json = []            # decoded JSON payloads printed via PrintT(ToJson(..))
        self.wall = 0.0
        self.cmd = ""
        self.trace = ""           # counterexample text if any
        self.coverage_zero = []


def _go_env():
    env = dict(os.environ)
    env.update({"GOFLAGS": "-mod=mod", "GOPROXY": "off", "GOSUMDB": "off", "GOTOOLCHAIN": "local"})
    return env


_tla_str = re.compile(r'^"((?:[^"\\]|\\.)*)"$')


def tla_unquote(s):
    """De-quote a TLA+ string literal as printed by TLC (only \\\\ and \\" escapes matter)."""
    m = _tla_str.match(s.strip())
    if not m:
        return None
    body = m.group(1)
    out = []
    i = 0
    while i < len(body):
        c = body[i]
        if c == "\\" and i + 1 < len(body):
            n = body[i + 1]
            out.append({"n": "\n", "t": "\t", "r": "\r", "f": "\f"}.get(n, n))
            i += 2
        else:
            out.append(c)
            i += 1
    return "".join(out)


class Ctx:
    def __init__(self, prop, tier, seed):
        self.prop = prop
        self.tier = tier
        self.seed = seed
        self.t0 = time.time()
        self.scratch = tempfile.mkdtemp(prefix="verif_%s_" % prop)
        self.cov = {"samples": []}
        self.assumptions = []
        self.violations = []      # (signature, what, replay_path)
        self.known_hits = []
        self.level = "model_checking"
        self.notes = []
        self._known = self._load_known()
        self._tlc_states = 0
        self._tlc_trans = 0
        self._tlc_cmds = []
        self._nrep = 0
        self._lock = threading.Lock()
        self.keep_scratch = bool(os.environ.get("VERIF_KEEP"))

    # ---------------------------------------------------------------- misc
    def log(self, *a):
        print("[%s %6.1fs]" % (self.prop, time.time() - self.t0), *a, flush=True)

    def quick(self):
        return self.tier == "quick"

    def _load_known(self):
        p = os.path.join(VERIF, "known_findings.json")
        try:
            with open(p) as f:
                d = json.load(f)
        except FileNotFoundError:
            return []
        return [e for e in d.get("findings", []) if e.get("property") == self.prop and e.get("status") == "known"]

    def path(self, *a):
        return os.path.join(self.scratch, *a)

    # ---------------------------------------------------------------- go
    def build(self, cmd, race=False, tags="verif"):
        """Build harness/cmd/<cmd> against /repo's current working tree."""
        out = self.path("bin_" + cmd + ("_race" if race else ""))
        # keep go.sum in step with the repository's
        try:
            src = os.path.join(REPO, "go.sum")
            dst = os.path.join(HARNESS, "go.sum")
            if os.path.exists(src):
                want = open(src).read()
                have = open(dst).read() if os.path.exists(dst) else ""
                missing = [l for l in want.splitlines() if l and l not in have]
                if missing:
                    with open(dst, "a") as f:
                        f.write("\n".join(missing) + "\n")
        except OSError:
            pass
        args = ["go", "build", "-tags", tags, "-o", out]
        if os.path.abspath(REPO) != "/repo":
            # alternate checkout (VERIF_REPO): same module, replace directive redirected through a scratch go.mod
            mf = self.path("alt.mod")
            with open(mf, "w") as f:
                f.write(open(os.path.join(HARNESS, "go.mod")).read().replace("=> /repo", "=> " + os.path.abspath(REPO)))
            shutil.copy(os.path.join(HARNESS, "go.sum"), self.path("alt.sum"))
            args += ["-modfile", mf]
        if race:
            args.insert(2, "-race")
        args.append("./cmd/" + cmd)
        t = time.time()
        p = subprocess.run(args, cwd=HARNESS, env=_go_env(), capture_output=True, text=True)
        if p.returncode != 0:
            raise Infra("harness build failed (%s):\n%s" % (" ".join(args), p.stderr[-4000:]))
        self.log("built %s%s in %.1fs" % (cmd, " -race" if race else "", time.time() - t))
        return out

    def run(self, argv, timeout=600, env=None, cwd=None, ok_codes=(0,), stdin=None):
        e = dict(os.environ)
        e["VERIF_SEED"] = str(self.seed)
        if env:
            e.update(env)
        try:
            p = subprocess.run(argv, cwd=cwd or self.scratch, env=e, capture_output=True, text=True,
                               timeout=timeout, input=stdin)
        except subprocess.TimeoutExpired:
            raise Infra("harness timed out after %ss: %s" % (timeout, " ".join(argv[:3])))
        if p.returncode not in ok_codes:
            raise Infra("harness exit %d: %s\nstdout: %s\nstderr: %s" % (p.returncode, " ".join(argv[:4]),
                                                                     p.stdout[-2000:], p.stderr[-4000:]))
        return p

    # ---------------------------------------------------------------- tlaps
    def tlaps(self, subdir, modules, timeout=1800, stretch=3, tag=None):
        """Check proofs/<subdir>/<module>.tla (modules that EXTEND a module of spec/<subdir>) with the TLA+ proof
        system, one tlapm process per module, in parallel.  Returns the number of proof obligations, all proved;
        anything else is an infrastructure failure (a proof about the model is never a verdict about the code)."""
        if isinstance(modules, str):
            modules = [modules]
        with self._lock:
            self._nrep += 1
            wd = self.path("tlaps%d" % self._nrep)
        os.makedirs(wd)
        for d in (os.path.join(SPEC, "common"), os.path.join(SPEC, subdir), os.path.join(VERIF, "proofs", subdir)):
            if os.path.isdir(d):
                for fn in os.listdir(d):
                    if fn.endswith(".tla"):
                        shutil.copy(os.path.join(d, fn), wd)
        t = time.time()
        per = max(2, min(NCPU, 16) // max(1, len(modules)))

        def one(mod):
            for attempt, st in enumerate((stretch, stretch * 3)):
                # back-end provers run under time limits: on a busy machine an obligation can time out, so a failed
                # module is tried once more with three times the limits (obligations already proved are remembered)
                try:
                    p = subprocess.run(["tlapm", "--threads", str(per), "--stretch", str(st)] + (["--cleanfp"] if attempt == 0 else []) + [mod + ".tla"],
                                       cwd=wd, capture_output=True, text=True, timeout=timeout)
                except subprocess.TimeoutExpired:
                    raise Infra("tlapm timed out after %ss on %s" % (timeout, mod))
                out = p.stdout + p.stderr
                m = re.search(r"All (\d+) obligations? proved", out)
                if p.returncode == 0 and m:
                    break
            if p.returncode != 0 or not m:
                keep = "\n".join(l for l in out.splitlines() if not l.startswith(("Called from", "Raised at")))
                raise Infra("tlapm did not prove every obligation of %s:\n%s" % (mod, keep[-3000:]))
            return int(m.group(1))
        counts = parallel([(lambda m=m: one(m)) for m in modules], len(modules))
        n = sum(counts)
        self.log("TLAPS %s: all %d obligations of %d module(s) proved %.1fs" % (tag or ", ".join(modules), n, len(modules), time.time() - t))
        self.cov["tlaps_obligations_proved"] = self.cov.get("tlaps_obligations_proved", 0) + n
        return n

    # ---------------------------------------------------------------- tlc
    def tlc(self, subdir, module, cfg, workers=None, timeout=600, files=None, xmx="4g",
            simulate=None, depth=None, extra=None, deque=False, coverage=False, count=True, tag=None):
        """Run TLC on spec/<subdir>/<module>.tla with config `cfg` (a file name in that dir, or cfg text).
        `files` = {name: path-or-bytes} placed next to the spec (trace / case files)."""
        workers = workers or min(NCPU, 16)
        with self._lock:
            self._nrep += 1
            wd = self.path("tlc%d" % self._nrep)
        os.makedirs(wd)
        for d in (os.path.join(SPEC, "common"), os.path.join(SPEC, subdir)):
            if os.path.isdir(d):
                for fn in os.listdir(d):
                    if fn.endswith((".tla", ".cfg")):
                        shutil.copy(os.path.join(d, fn), wd)
        if "\n" in cfg or not cfg.endswith(".cfg"):
            cfgname = "_run.cfg"
            with open(os.path.join(wd, cfgname), "w") as f:
                f.write(cfg)
        else:
            cfgname = cfg
        for name, src in (files or {}).items():
            dst = os.path.join(wd, name)
            if isinstance(src, bytes):
                with open(dst, "wb") as f:
                    f.write(src)
            elif isinstance(src, str) and os.path.exists(src):
                if os.path.abspath(src) != os.path.abspath(dst):
                    shutil.copy(src, dst)
            else:
                with open(dst, "w") as f:
                    f.write(src)
        jopts = ["-XX:+UseParallelGC", "-Xmx" + xmx, "-Xss64m", "-Djava.io.tmpdir=" + wd]   # TLC unpacks its standard modules into tmpdir: keep that inside the run's scratch
        if deque:
            jopts.append("-Dtlc2.tool.queue.IStateQueue=StateDeque")
        argv = ["java"] + jopts + ["-cp", TLA_CP, "tlc2.TLC", "-workers", str(workers),
                                   "-metadir", os.path.join(wd, "meta"), "-config", cfgname]
        if simulate:
            argv += ["-simulate", simulate]
        if depth:
            argv += ["-depth", str(depth)]
        if coverage:
            argv += ["-coverage", "1"]
        if extra:
            argv += extra
        argv.append(module + ".tla")
        r = TLCResult()
        r.cmd = " ".join(argv[argv.index("tlc2.TLC"):])
        t = time.time()
        env = dict(os.environ)
        env.pop("JAVA_TOOL_OPTIONS", None)
        try:
            p = subprocess.run(argv, cwd=wd, env=env, capture_output=True, text=True, timeout=timeout)
        except subprocess.TimeoutExpired as e:
            if simulate:
                # simulation under an outer timeout is the normal way to stop it
                p = None
                r.out = (e.stdout or b"").decode("utf8", "replace") if isinstance(e.stdout, bytes) else (e.stdout or "")
                r.rc = -9
            else:
                raise Infra("TLC timed out after %ss: %s" % (timeout, r.cmd))
        if p is not None:
            r.rc = p.returncode
            r.out = p.stdout + p.stderr
        r.wall = time.time() - t
        self._parse_tlc(r)
        if count:
            with self._lock:
                self._tlc_states += r.distinct
                self._tlc_trans += r.generated
                self._tlc_cmds.append(r.cmd)
        label = tag or (module + "/" + (cfgname if cfgname != "_run.cfg" else "inline"))
        self.log("TLC %s: rc=%s ok=%s violated=%s generated=%d distinct=%d depth=%d %.1fs" % (
            label, r.rc, r.ok, r.violated, r.generated, r.distinct, r.depth, r.wall))
        if not r.ok and r.violated is None and not (simulate and r.rc == -9):
            with open(os.path.join(VERIF, "replays", "_last_tlc_error.txt"), "w") as f:
                f.write(r.cmd + "\n" + r.out)
            raise Infra("TLC failed without a verdict (rc=%s) on %s:\n%s" % (r.rc, label, r.out[-3000:]))
        return r

    def _parse_tlc(self, r):
        out = r.out
        m = None
        for m in re.finditer(r"(\d+) states generated, (\d+) distinct states found", out):
            pass
        if m:
            r.generated, r.distinct = int(m.group(1)), int(m.group(2))
        else:
            m2 = re.search(r"The number of states generated: (\d+)", out)
            if m2:
                r.generated = r.distinct = int(m2.group(1))
        m = re.search(r"depth of the complete state graph search is (\d+)", out)
        if m:
            r.depth = int(m.group(1))
        if "Model checking completed. No error has been found." in out:
            r.ok = True
        if r.rc == 0 and "The number of states generated:" in out and "Error:" not in out:
            r.ok = True          # simulation mode finished its quota
        m = re.search(r"Error: Invariant (\S+) is violated", out)
        if m:
            r.violated = m.group(1)
        elif re.search(r"Error: Action property (\S+)", out):
            r.violated = re.search(r"Error: Action property (\S+)", out).group(1)
        elif "Temporal properties were violated" in out:
            r.violated = "temporal"
        elif "Deadlock reached" in out:
            r.violated = "deadlock"
        elif re.search(r"Assumption .* is false", out):
            r.violated = "assume"
        elif "Error: The postcondition" in out or "postcondition" in out.lower() and "false" in out.lower() and "Error" in out:
            r.violated = "postcondition"
        if r.violated:
            i = out.find("Error:")
            r.trace = out[i:i + 20000]
        for line in out.splitlines():
            s = line.strip()
            if s.startswith('"') and s.endswith('"'):
                u = tla_unquote(s)
                if u is not None:
                    r.printed.append(u)
                    if u[:1] in "{[":
                        try:
                            r.json.append(json.loads(u))
                        except ValueError:
                            pass
            elif s.startswith("<<") and s.endswith(">>"):
                r.printed.append(s)
        for m in re.finditer(r"^\s*(line \d+, col \d+ to line \d+, col \d+ of module \S+): 0\s*$", out, re.M):
            r.coverage_zero.append(m.group(1))

    # ---------------------------------------------------------------- verdicts
    def violation(self, signature, what, payload=None):
        """Record a real-code violation.  Known findings print KNOWN-FINDING and do not fail the run."""
        for k in self._known:
            if k.get("signature") and re.search(k["signature"], signature):
                if k not in self.known_hits:
                    self.known_hits.append(k)
                    print("KNOWN-FINDING: property=%s %s" % (self.prop, k.get("what", signature)), flush=True)
                return False
        d = os.path.join(VERIF, "replays", self.prop)
        os.makedirs(d, exist_ok=True)
        h = hashlib.sha1(signature.encode()).hexdigest()[:10]
        path = os.path.join(d, "%s_%s_seed%d_%s.json" % (self.tier, time.strftime("%Y%m%d%H%M%S"), self.seed, h))
        with open(path, "w") as f:
            json.dump({"property": self.prop, "signature": signature, "what": what, "seed": self.seed,
                       "tier": self.tier, "payload": payload}, f, indent=1, default=str)
        self.violations.append((signature, what, path))
        if len(self.violations) <= 5:
            print("VIOLATION property=%s replay=%s" % (self.prop, path), flush=True)
            print("  what: %s" % what[:600], flush=True)
        return True

    def sample(self, x, cap=6):
        if len(self.cov["samples"]) < cap:
            self.cov["samples"].append(x)

    def finish(self):
        wall = time.time() - self.t0
        cov = self.cov
        cov.setdefault("states", self._tlc_states)
        cov.setdefault("transitions", self._tlc_trans)
        cov.setdefault("traces_validated_against_impl", 0)
        cov.setdefault("evaluations", cov.get("traces_validated_against_impl", 0))
        cov.setdefault("distinct_nontrivial", 0)
        cov["tlc_cmds"] = self._tlc_cmds[:12]
        if self.notes:
            cov["notes"] = self.notes
        if not cov["samples"]:
            cov["samples"] = ["(no sample recorded)"]
        ev = {
            "property_id": self.prop, "tier": self.tier, "seed": self.seed, "level": self.level,
            "coverage": cov, "assumptions": self.assumptions, "wall_s": round(wall, 2),
            "violations": len(self.violations),
            "known_findings_seen": [k.get("what") for k in self.known_hits],
        }
        edir = os.path.join(VERIF, "evidence") if self.prop.startswith("C") else os.path.join(VERIF, "evidence", "extras")
        if os.environ.get("VERIF_EVIDENCE_DIR"):
            edir = os.environ["VERIF_EVIDENCE_DIR"]      # dry runs against another checkout must not touch the committed evidence
        os.makedirs(edir, exist_ok=True)
        tmp = os.path.join(edir, ".%s.tmp" % self.prop)
        with open(tmp, "w") as f:
            json.dump(ev, f, indent=1, default=str)
        os.replace(tmp, os.path.join(edir, "%s.json" % self.prop))
        self.cleanup()
        if self.violations:
            self.log("FAILED: %d violation(s)" % len(self.violations))
            return 1
        self.log("OK (%.1fs) states=%d transitions=%d impl_traces=%d" % (
            wall, cov["states"], cov["transitions"], cov["traces_validated_against_impl"]))
        return 0

    def cleanup(self):
        if not self.keep_scratch:
            shutil.rmtree(self.scratch, ignore_errors=True)


# -------------------------------------------------------------------- helpers
def write_ndjson(path, rows):
    with open(path, "w") as f:
        for r in rows:
            f.write(json.dumps(r, separators=(",", ":")) + "\n")


def read_ndjson(path):
    out = []
    with open(path) as f:
        for line in f:
            line = line.strip()
            if line:
                out.append(json.loads(line))
    return out


def shard(rows, n):
    n = max(1, min(n, len(rows)))
    k = (len(rows) + n - 1) // n
    return [rows[i:i + k] for i in range(0, len(rows), k)]


def balanced(rows, nshards, weight):
    """Reorder rows so that the contiguous shards made by shard() get about the same total weight."""
    nshards = max(1, min(nshards, len(rows)))
    k = (len(rows) + nshards - 1) // nshards
    bins = [[] for _ in range(nshards)]
    loads = [0] * nshards
    for r in sorted(rows, key=weight, reverse=True):
        cand = [b for b in range(nshards) if len(bins[b]) < k]
        b = min(cand, key=lambda x: loads[x])
        bins[b].append(r)
        loads[b] += weight(r)
    out = []
    for b in bins:
        out += b
    return out


def parallel(fns, maxpar):
    """Run callables in threads (they mostly wait on subprocesses)."""
    import concurrent.futures as cf
    with cf.ThreadPoolExecutor(max_workers=maxpar) as ex:
        futs = [ex.submit(f) for f in fns]
        return [f.result() for f in futs]


def judge(ctx, subdir, module, rows, invariant="JudgeOK", nshards=None, per_shard=6000, timeout=900,
          constants="", workers=2, xmx="3g", extra_files=None):
    """T-degenerate binding: TLC is the judge of recorded real-code cases.
    `module` must read "cases.ndjson" into Cases, have VARIABLE i ranging over 1..Len(Cases) and an
    invariant printing <<"BAD", i>> / <<"DRIFT", i>> (and evaluating to TRUE) for rejected cases.
    Returns (bad_rows, drift_rows, other_tags) where other_tags = {tag: [rows]}."""
    if not rows:
        return [], [], {}
    if nshards is None:
        nshards = max(1, min(NCPU, (len(rows) + per_shard - 1) // per_shard))
    shards = shard(rows, nshards)
    cfg = "INIT Init\nNEXT Next\nINVARIANT %s\nCHECK_DEADLOCK FALSE\n%s" % (invariant, constants)
    results = [None] * len(shards)

    def mk(k):
        def f():
            data = "\n".join(json.dumps(r, separators=(",", ":")) for r in shards[k]) + "\n"
            files = {"cases.ndjson": data}
            if extra_files:
                files.update(extra_files)
            results[k] = ctx.tlc(subdir, module, cfg, workers=workers, timeout=timeout, files=files, xmx=xmx,
                                 tag="%s[shard %d/%d, %d cases]" % (module, k + 1, len(shards), len(shards[k])))
        return f
    parallel([mk(k) for k in range(len(shards))], max(1, NCPU // max(1, workers)))
    bad, drift, other = [], [], {}
    for k, r in enumerate(results):
        if r.violated:
            raise Infra("judge module %s reported %s instead of printing cases:\n%s" % (module, r.violated, r.trace[:3000]))
        if r.distinct != len(shards[k]):
            raise Infra("judge %s: %d states for %d cases (duplicate or unread cases?)" % (module, r.distinct, len(shards[k])))
        # TLC wraps long tuples over several lines: match over the whole output
        for m in re.finditer(r'<<\s*"(\w+)",\s*(\d+)(?:,\s*(.*?))?\s*>>', r.out, re.S):
            row = shards[k][int(m.group(2)) - 1]
            info = re.sub(r"\s*\n\s*", " ", m.group(3)) if m.group(3) else None
            if info and isinstance(row, dict):
                row = dict(row, _info=info)
            if m.group(1) == "BAD":
                bad.append(row)
            elif m.group(1) == "DRIFT":
                drift.append(row)
            else:
                other.setdefault(m.group(1), []).append(row)
    return bad, drift, other
