"""Extras: behaviour specified beyond the 20 listed properties (not in MANIFEST.checks).
   X01 string helpers (StrUtil.tla)   X02 GetClientIP (ClientIP.tla)   X03 FirstIP/LastIP (IpRange.tla)
   X04 Nano handler line format (NanoLine.tla, scenarios from JsonLineMC)   X05 ResponseWriter / reply helpers (HttpHelpers.tla)
   X06 Logger front end (LogFront.tla)   X07 config value texts + usage (ValueLit.tla)   X08 ReadRand, ansi texts, SliceContain (Misc.tla)
   X09 colour on versus colour off (Colour.tla)   X10 struct tag syntax (TagParse.tla)
   X11 daemon.Run role dispatch, Launch outcomes off the protocol (DaemonRole.tla)
   X12 osutil.WaitFor / WaitForInterrupt / WaitForStop over delivered signals (WaitFor.tla)
   X13 config.FromCommandLine in child processes (CmdLine.tla on top of ArgParse.tla), ioutil.SeekAndReadAll (SeekRead.tla)
   X16 the dispatch protocol of httpd.Mux: HandleRelay / HandleNoRoute at any time, who is invoked with which RouteInfo; CookieValue (Dispatch.tla)
   X15 the time side of PushTask / SetTimeout (PushTimeout.tla): not before the timeout configured when the call began, per-call timers
   X14 TaskLane.ShortestQueueIndex on lanes at rest, under load and as the lane chooser of a producer (LanePick.tla)"""
import json
import vlib
from vlib import judge
import p_c01


def run(ctx, which):
    q = ctx.quick()
    out = ctx.path("cases.ndjson")
    if which == "X14":
        return run_x14(ctx, q, out)
    if which == "X15":
        return run_x15(ctx, q, out)
    hb = ctx.build("extras")
    if which == "X01":
        r = ctx.tlc("util", "StrUtilMC", "SPECIFICATION Spec\nCONSTANT MaxLen = %d\nINVARIANT Facts\nCHECK_DEADLOCK FALSE\n" % (4 if q else 5), workers=16, timeout=1800)
        if r.violated:
            raise vlib.Infra("spec-level counterexample:\n" + r.trace[:2000])
        ctx.run([hb, "-mode", "strs", "-maxlen", "3" if q else "4", "-out", out], timeout=900)
        rows = vlib.read_ndjson(out)
        bad, _, _ = judge(ctx, "util", "StrUtilCases", rows, per_shard=4000 if q else 30000, workers=1, timeout=1800)
        what = lambda c: "%s(%r, upper=%s) = %r / %r" % (c["f"], bytes(c["s"]).decode("latin1"), c["up"], bytes(c["r"]).decode("latin1"), bytes(c["r2"]).decode("latin1"))
    elif which == "X02":
        ctx.run([hb, "-mode", "clientip", "-out", out], timeout=300)
        rows = vlib.read_ndjson(out)
        bad, _, _ = judge(ctx, "httpd", "ClientIP", rows, nshards=1, workers=2, timeout=600)
        what = lambda c: "GetClientIP with X-Client-IP=%r X-Forwarded-For=%r X-Real-IP=%r remote host %r = %r" % tuple(
            bytes(c[k]).decode() for k in ("xc", "xff", "xr", "host", "r"))
    elif which == "X03":
        ctx.run([hb, "-mode", "iprange", "-out", out], timeout=300)
        rows = vlib.read_ndjson(out)
        bad, _, _ = judge(ctx, "netutil", "IpRange", rows, nshards=1, workers=2, timeout=600)
        what = lambda c: "FirstIP/LastIP of %s/%d" % (c["ip"], c["len"])
    elif which == "X05":
        ctx.run([hb, "-mode", "helpers", "-out", out], timeout=300)
        rows = vlib.read_ndjson(out)
        bad, _, _ = judge(ctx, "httpd", "HttpHelpers", rows, nshards=1, workers=4, timeout=600)
        what = lambda c: "calls %s: Status=%d, client status %d" % ([(x["h"], x["code"]) for x in c["calls"]], c["status"], c["wire"])
    elif which == "X07":
        ctx.run([hb, "-mode", "values", "-maxlen", "3" if q else "4", "-out", out], timeout=900)
        rows = vlib.read_ndjson(out)
        bad, _, _ = judge(ctx, "config", "ValueLit", rows, per_shard=3000, workers=1, timeout=900)
        def what(c):
            if c["kind"] == "lit":
                return "%s value text %r: command line ok=%s v=%d, environment ok=%s v=%d, tag default ok=%s v=%d" % (
                    c["ty"], bytes(c["s"]).decode("latin1"), c["argok"], c["argv"], c["envok"], c["envv"], c["defok"], c["defv"])
            return "usage text %r for flags %s" % (bytes(c["out"]).decode("latin1"), [bytes(f["name"]).decode("latin1") for f in c["flags"]])
    elif which == "X08":
        ctx.run([hb, "-mode", "misc", "-out", out], timeout=300)
        rows = vlib.read_ndjson(out)
        bad, _, _ = judge(ctx, "misc", "Misc", rows, nshards=1, workers=4, timeout=600)
        what = lambda c: "%s: %s" % (c["kind"], json.dumps({k: v for k, v in c.items() if k != "kind"})[:300])
    elif which == "X09":
        ctx.run([hb, "-mode", "colour", "-out", out], timeout=300)
        rows = vlib.read_ndjson(out)
        bad, _, _ = judge(ctx, "logger", "Colour", rows, nshards=2, workers=2, timeout=600)
        what = lambda c: "%s handler: plain %r colourful %r (%d AnsiString values with a prefix)" % (
            c["kind"], bytes(c["plain"]).decode("latin1"), bytes(c["colour"]).decode("latin1"), c["nansi"])
    elif which == "X10":
        ctx.run([hb, "-mode", "tags", "-maxlen", "4" if q else "5", "-out", out], timeout=600)
        rows = vlib.read_ndjson(out)
        bad, _, _ = judge(ctx, "config", "TagParse", rows, per_shard=2000, workers=1, timeout=900)
        what = lambda c: "tag %r on field %s: rejected=%s found=%s name=%r default=%r usage=%r" % (
            bytes(c["tag"]).decode("latin1"), bytes(c["field"]).decode(), c["rejected"], c["found"], bytes(c["name"]).decode("latin1"),
            bytes(c["def"]).decode("latin1"), bytes(c["usage"]).decode("latin1"))
    elif which == "X16":
        ctx.run([hb, "-mode", "dispatch", "-out", out], timeout=600)
        rows = vlib.read_ndjson(out)
        bad, _, _ = judge(ctx, "httpd", "Dispatch", rows, per_shard=2500, workers=1, timeout=900)
        def what(c):
            if c["kind"] == "cookie":
                return "CookieValue(%r) = %r on a request carrying %s" % (bytes(c["name"]).decode(), bytes(c["got"]).decode("latin1"),
                                                                           [(bytes(x["n"]).decode(), bytes(x["v"]).decode("latin1")) for x in c["cs"]])
            return "history %s" % [((o["op"], o["k"]) if o["op"] != "req" else ("req", "matched" if o["m"] else "unmatched", [(x["who"], x["k"]) for x in o["seen"]], o["wire"],
                                    bytes(o["ipath"]).decode(), bytes(o["imethod"]).decode())) for o in c["ops"]]
    elif which == "X11":
        ctx.run([hb, "-mode", "roles", "-out", out], timeout=300)
        rows = vlib.read_ndjson(out)
        bad, _, _ = judge(ctx, "daemon", "DaemonRole", rows, nshards=1, workers=2, timeout=300)
        what = lambda c: json.dumps(c)[:300]
    elif which == "X12":
        r = ctx.tlc("osutil", "WaitForMC", "SPECIFICATION Spec\nCONSTANT MaxSigs = %d\nINVARIANT Facts\nCHECK_DEADLOCK FALSE\n" % (3 if q else 4), workers=8, timeout=900)
        if r.violated:
            raise vlib.Infra("spec-level counterexample:\n" + r.trace[:2000])
        mr = ctx.tlc("osutil", "WaitForMC", "SPECIFICATION Spec\nCONSTANT MaxSigs = 2\nINVARIANT NeverDies\nCHECK_DEADLOCK FALSE\n", workers=2, timeout=300, count=False, tag="vacuity")
        if not mr.violated:
            raise vlib.Infra("vacuity: no modelled run ends with the process dying")
        ctx.run([hb, "-mode", "waitfor", "-maxlen", "2" if q else "3", "-out", out], timeout=1500)
        rows = vlib.read_ndjson(out)
        bad, _, _ = judge(ctx, "osutil", "WaitForCases", rows, nshards=2, workers=2, timeout=600)
        what = lambda c: "%s with other handlers for %s: signals %s observed %s (ready=%s)" % (c["fn"], c["elsewhere"], c["sigs"], c["obs"], c["ready"])
    elif which == "X13":
        ctx.run([hb, "-mode", "cmdline", "-maxlen", "2" if q else "3", "-out", out], timeout=1500)
        rows = vlib.read_ndjson(out)
        bad, _, _ = judge(ctx, "config", "CmdLine", rows, per_shard=2000, workers=1, timeout=900,
                          extra_files={"cfgpath.ndjson": json.dumps(list(b"cfg.json")) + "\n"})
        ctx.run([hb, "-mode", "seekread", "-out", ctx.path("seek.ndjson")], timeout=300)
        rows2 = vlib.read_ndjson(ctx.path("seek.ndjson"))
        bad2, _, _ = judge(ctx, "misc", "SeekRead", rows2, nshards=1, workers=2, timeout=300)
        for c in bad2[:3]:
            k = int(c.get("_info") or 1)
            ctx.violation("X13 SeekAndReadAll", "SeekAndReadAll: step %d of the history %s contradicts the file machine" % (k, json.dumps(c["ops"])[:600]), c)
        rows = rows + rows2
        what = lambda c: "FromCommandLine with os.Args[1:] = %s: %s, exit status %d, usage on stderr: %s, rest %s" % (
            [bytes(t).decode("latin1") for t in c["v"]], c["kind"], c["exit"], c["usage"], [bytes(t).decode("latin1") for t in c["rest"]])
    elif which == "X06":
        ctx.run([hb, "-mode", "front", "-out", out], timeout=600)
        rows = vlib.read_ndjson(out)
        bad, _, _ = judge(ctx, "logger", "LogFront", rows, per_shard=4000, workers=1, timeout=900)
        what = lambda c: "%s(level %d) on a logger at level %d with(%s) args(%s): %d writes, label %r/%r, attrs %s, panicked=%s exit=%d" % (
            c["m"], c["l"], c["min"], "".join(a["t"] for a in c["with"]), "".join(a["t"] for a in c["args"]), c["writes"], c["jlabel"], c["nlabel"],
            [(a["k"], a["v"]) for a in c["attrs"]], c["panicked"], c["exit"])
    else:
        g = ctx.tlc("logger", "JsonLineMC", p_c01.mc_cfg(2, 1, export=True), workers=8, timeout=1800, xmx="8g", tag="scenarios (chains x forests)")
        scen = [j for j in g.json if isinstance(j, dict) and "chain" in j]
        scen = scen[::max(1, len(scen) // (6000 if q else 40000))]
        with open(ctx.path("scen.ndjson"), "w") as f:
            for s_ in scen:
                f.write(json.dumps(s_) + "\n")
        ctx.run([hb, "-mode", "nano", "-in", ctx.path("scen.ndjson"), "-out", out], timeout=900)
        rows = vlib.read_ndjson(out)
        bad, _, _ = judge(ctx, "logger", "NanoLine", rows, per_shard=3000, workers=1, timeout=1800)
        what = lambda c: "nano line tail %r for msg %r" % (bytes(c["tail"]).decode("latin1"), bytes(c["msg"]).decode())
    for c in bad[:5]:
        ctx.violation(which + " " + what(c)[:80], what(c), c)
    ctx.cov.update({"traces_validated_against_impl": len(rows), "evaluations": len(rows), "distinct_nontrivial": len(rows) // 2,
                    "rule": "extras family %s: recorded real results judged by the TLA+ module" % which, "bad": len(bad)})
    ctx.sample(rows[len(rows) // 2])


def run_x14(ctx, q, out):
    cfg = "SPECIFICATION Spec\nCONSTANTS N = %d\nQ = %d\nStrict = %s\nINVARIANTS TypeOK InRange AtRest\nCHECK_DEADLOCK FALSE\n"
    for n, qq in ([(1, 1), (2, 2), (3, 2)] if q else [(1, 1), (2, 3), (3, 3), (4, 2)]):
        r = ctx.tlc("tasklane", "LanePick", cfg % (n, qq, "TRUE"), workers=8, timeout=900, tag="LanePick N=%d Q=%d" % (n, qq))
        if r.violated:
            raise vlib.Infra("spec-level counterexample:\n" + r.trace[:2000])
    mr = ctx.tlc("tasklane", "LanePick", cfg % (3, 1, "FALSE"), workers=4, timeout=300, count=False, tag="mutant: <= instead of <")
    if not mr.violated:
        raise vlib.Infra("vacuity: the `<=` mutant of the loop satisfies AtRest")
    hb = ctx.build("tasklane")
    ctx.run([hb, "-pick", "quick" if q else "thorough", "-out", out], timeout=1500)
    rows = vlib.read_ndjson(out)
    bad, _, _ = judge(ctx, "tasklane", "LanePickCases", rows, nshards=2, workers=2, timeout=600)
    for c in bad[:5]:
        if c["kind"] == "rest":
            w = "ShortestQueueIndex on a lane at rest (laneSize %d, queueSize %d) with buffer lengths %s returned index %d" % (c["n"], c["q"], c["lens"], c["idx"] - 1)
        elif c["kind"] == "busy":
            w = "ShortestQueueIndex under load (laneSize %d) returned %d, not a lane index" % (c["n"], c["idx"] - 1)
        else:
            w = "a producer pushing %d tasks to the lane ShortestQueueIndex named (laneSize %d, queueSize %d, lane at rest) was sent to lanes %s" % (len(c["picks"]), c["n"], c["q"], [x - 1 for x in c["picks"]])
        ctx.violation("X14 " + c["kind"], w, c)
    nrest = sum(1 for c in rows if c["kind"] == "rest")
    if nrest < 20:
        raise vlib.Infra("only %d at-rest cases recorded" % nrest)
    ctx.cov.update({"traces_validated_against_impl": len(rows), "evaluations": len(rows), "distinct_nontrivial": nrest,
                    "rule": "extras family X14: ShortestQueueIndex results of the real lane (every buffer-length vector at rest, under load, as lane chooser) judged by LanePickCases.tla; LanePick.tla model-checked with the loop's two reads per iteration interleaved with sends and takes",
                    "bad": len(bad)})
    ctx.sample(rows[len(rows) // 2])


def run_x15(ctx, q, out):
    cfg = "SPECIFICATION Spec\nCONSTANTS Timeouts = {0, 1, 3}\nMaxNow = %d\nEvalLate = %s\nINVARIANTS NotEarly NilOnlyWithRoom\nCHECK_DEADLOCK FALSE\n"
    r = ctx.tlc("tasklane", "PushTimeout", cfg % (5 if q else 8, "FALSE"), workers=8, timeout=900)
    if r.violated:
        raise vlib.Infra("spec-level counterexample:\n" + r.trace[:2000])
    mr = ctx.tlc("tasklane", "PushTimeout", cfg % (5, "TRUE"), workers=4, timeout=300, count=False, tag="mutant: timeout read when the timer fires")
    if mr.violated != "NotEarly":
        raise vlib.Infra("vacuity: the EvalLate mutant satisfies NotEarly")
    # unbounded clock, any timeout up to 1000 ticks: NotEarly as part of an inductive invariant, discharged by Apalache (base + step);
    # the EvalLate variant of Fire must break the step.  A failure here is an infrastructure error, never a verdict about the code.
    import os, shutil, subprocess
    src = open(os.path.join(os.path.dirname(vlib.SPEC), "proofs", "tasklane", "PushTimeoutInd.tla")).read()
    adir = ctx.path("apalache")
    os.makedirs(adir, exist_ok=True)
    def apa(name, text, init, length):
        with open(os.path.join(adir, name + ".tla"), "w") as f:
            f.write(text.replace("MODULE PushTimeoutInd", "MODULE " + name))
        pr = subprocess.run(["timeout", "300", "apalache-mc", "check", "--init=" + init, "--inv=IndInv", "--length=%d" % length,
                             "--out-dir=" + os.path.join(adir, "out"), name + ".tla"], cwd=adir, capture_output=True, text=True)
        ctx.log("apalache %s init=%s length=%d: rc=%d" % (name, init, length, pr.returncode))
        return pr.returncode, pr.stdout[-1500:]
    rc0, o0 = apa("PushTimeoutInd", src, "Init", 0)
    rc1, o1 = apa("PushTimeoutInd", src, "IndInit", 1)
    if rc0 != 0 or rc1 != 0:
        raise vlib.Infra("Apalache did not discharge the inductive invariant of PushTimeout:\n" + o0 + o1)
    mut = src.replace("now - t0 >= armed /\\ pc' = \"idle\"", "now - t0 >= cfg /\\ pc' = \"idle\"")
    if mut == src:
        raise vlib.Infra("mutant text of PushTimeoutInd not produced")
    rcm, om = apa("PushTimeoutIndMut", mut, "IndInit", 1)
    if rcm == 0:
        raise vlib.Infra("vacuity: Apalache accepts the inductive step for the EvalLate variant")
    shutil.rmtree(adir, ignore_errors=True)
    hb = ctx.build("lanetime")
    ctx.run([hb, "-reps", "2" if q else "8", "-out", out], timeout=1500)
    rows = vlib.read_ndjson(out)
    bad, _, _ = judge(ctx, "tasklane", "PushTimeoutCases", rows, nshards=1, workers=2, timeout=600)
    for c in bad[:5]:
        w = "PushTask on a lane (laneSize %d, queueSize %d) that %s, timeout %d ms%s: returned %s after %d us" % (
            c["n"], c["q"], "had room" if c["kind"] == "room" else "was full during the whole call", c["ms"],
            " (SetTimeout(%d ms) 20 ms into the call)" % c["newms"] if c["kind"] == "during" else "", c["res"], c["us"])
        ctx.violation("X15 %s %d" % (c["kind"], c["ms"]), w, c)
    ctx.cov.update({"traces_validated_against_impl": len(rows), "evaluations": len(rows), "distinct_nontrivial": sum(1 for c in rows if c["kind"] != "room"),
                    "rule": "extras family X15: durations and results of PushTask on full lanes (timeouts 0..260 ms, SetTimeout during a call in both directions) "
                            "and on lanes with room, judged by PushTimeoutCases.tla; PushTimeout.tla model-checked with a tick clock, EvalLate mutant rejected",
                    "bad": len(bad)})
    ctx.sample(rows[len(rows) // 2])
