"""C03 - derived loggers are isolated (spec/logger/LogDerive.tla: Go slice aliasing model;
G binding: TLC-generated derivation histories replayed on the three real handlers)."""
import json
import vlib


def cfg(maxnodes, maxops=0, clip=True, rec=False, inv="Isolated"):
    return ("SPECIFICATION Spec\nCONSTANTS\n  MaxNodes = %d\n  MaxOps = %d\n  Clip = %s\n  Spare = {0, 1, 2}\n  RecordHist = %s\n"
            "INVARIANT %s\nCHECK_DEADLOCK FALSE\n" % (maxnodes, maxops, "TRUE" if clip else "FALSE", "TRUE" if rec else "FALSE", inv))


def run(ctx):
    q = ctx.quick()
    r = ctx.tlc("logger", "LogDerive", cfg(4 if q else 5), workers=16, timeout=2400, xmx="16g")
    if r.violated:
        raise vlib.Infra("spec-level counterexample (model, not code):\n" + r.trace[:3000])
    m = ctx.tlc("logger", "LogDerive", cfg(3, clip=False), workers=4, timeout=600, count=False, tag="mutant NoClip")
    if m.violated != "Isolated":
        raise vlib.Infra("vacuity: the NoClip mutant keeps derived handlers isolated")
    # generation: deep random histories (derive anywhere in the tree, log any node, any order)
    nsim = 30 if q else 300
    hist = []
    for depth, nodes in ((8, 5), (12, 7)):
        g = ctx.tlc("logger", "LogDerive", cfg(nodes, maxops=depth, rec=True, inv="Export"), workers=1, timeout=900, count=False,
                    simulate="num=%d" % nsim, depth=depth + 2, extra=["-seed", str(ctx.seed + depth)], tag="generate histories depth %d" % depth)
        hist += [j for j in g.json if isinstance(j, list)]
    # keep histories that log at least twice and derive at least twice
    hist = [h for h in hist if sum(1 for o in h if o["op"] == "log") >= 2 and sum(1 for o in h if o["op"] != "log") >= 2]
    seen, uniq = set(), []
    for h in hist:
        k = json.dumps(h)
        if k not in seen:
            seen.add(k)
            uniq.append(h)
    hist = uniq[: (500 if q else 6000)]
    if len(hist) < 100:
        raise vlib.Infra("history generation produced only %d usable histories" % len(hist))
    with open(ctx.path("hist.ndjson"), "w") as f:
        for h in hist:
            f.write(json.dumps(h) + "\n")
    hb = ctx.build("logderive")
    p = ctx.run([hb, "-in", ctx.path("hist.ndjson"), "-out", ctx.path("mm.ndjson"), "-variants", "2" if q else "4"], timeout=2400)
    stats = json.loads(p.stdout.strip().splitlines()[-1])
    mm = vlib.read_ndjson(ctx.path("mm.ndjson"))
    seen = set()
    for m_ in mm:
        sig = "%s handler, %s, chain length %d, oracle: %s" % (m_["handler"], m_["mode"], len(m_["chain"]), m_["oracle"][:20])
        if sig in seen:
            continue
        seen.add(sig)
        if len(seen) <= 12:
            ctx.violation(sig, "%s handler (%s): node %d with chain %r wrote %r but %s gives %r" % (
                m_["handler"], m_["mode"], m_["node"], m_["chain"], m_["got"][:300], m_["oracle"], m_["want"][:300]), m_)
    branching = sum(1 for h in hist if len({o["parent"] for o in h if o["op"] != "log"}) < sum(1 for o in h if o["op"] != "log"))
    ctx.cov.update({
        "traces_validated_against_impl": len(hist), "evaluations": stats["logs_compared"],
        "distinct_nontrivial": branching,
        "rule": "TLC-simulated derivation histories (derive With/WithGroup from any node, log any node, any order; 8 and 12 operations) "
                "replayed on Nano/Text/JSON in history order and with concurrent sibling derivation, seeded attribute sizes 1..600 bytes, records with and without own attributes, deferred values inside With groups "
                "resolved against a harness-controlled epoch (the isolated replay gets attribute objects of its own); "
                "non-trivial = histories in which some parent has several children",
        "exhaustive": False, "histories": len(hist), "stats": stats, "mismatches": len(mm),
        "model": "all trees up to %d derived nodes, every realloc capacity in {+0,+1,+2}" % (4 if q else 5),
    })
    ctx.sample(hist[0])
    ctx.assumptions += ["timestamps masked by position per handler format", "addSource off (call sites differ between tree and isolated replay)"]
