"""C11 - IPv4Filter answers membership exactly as the set of CIDRs added and not removed
(spec/netutil/IPv4Filter.tla: set-of-prefixes statement vs list+tombstones+migration+maps)."""
import json
import vlib
from vlib import judge


def mc_cfg(W, L, rec=False, maxhist=0, mutant="none", inv="Refines"):
    return ("SPECIFICATION Spec\nCONSTANTS\n  W = %d\n  ListSize = %d\n  RecordHist = %s\n  MaxHist = %d\n  Mutant = \"%s\"\n"
            "INVARIANT %s\nCHECK_DEADLOCK FALSE\n" % (W, L, "TRUE" if rec else "FALSE", maxhist, mutant, inv))


def bits_ip(bits):
    v = 0
    for x in bits:
        v = v * 2 + x
    return "%d.%d.%d.%d" % (v >> 24, (v >> 16) & 255, (v >> 8) & 255, v & 255)


def run(ctx):
    q = ctx.quick()
    # 1. design level: the full reachable graph of a small universe, refinement in every state
    W, L = (2, 3) if q else (3, 2)
    r = ctx.tlc("netutil", "IPv4FilterMC", mc_cfg(W, L), workers=16, timeout=2400, xmx="16g")
    if r.violated:
        raise vlib.Infra("spec-level counterexample (model, not code):\n" + r.trace[:3000])
    for m in ("MigrateKeepsTombs", "RemoveFirstOnly"):
        mr = ctx.tlc("netutil", "IPv4FilterMC", mc_cfg(2, 2, mutant=m), workers=4, timeout=600, count=False, tag="mutant " + m)
        if mr.violated != "Refines":
            raise vlib.Infra("vacuity: filter mutant %s refines the set" % m)
    # 2. G: TLC-generated behaviours (with predicted answers) replayed on the real filter
    nsim = 12 if q else 120
    g = ctx.tlc("netutil", "IPv4FilterMC", mc_cfg(3, 2, rec=True, maxhist=14, inv="Export"), workers=1, timeout=900, count=False,
                simulate="num=%d" % nsim, depth=16, extra=["-seed", str(ctx.seed)], tag="generate behaviours")
    beh = [j for j in g.json if isinstance(j, list)]
    if len(beh) < 50:
        raise vlib.Infra("behaviour generation produced only %d behaviours" % len(beh))
    with open(ctx.path("beh.ndjson"), "w") as f:
        for b_ in beh:
            f.write(json.dumps(b_) + "\n")
    hb = ctx.build("ipfilter")
    p = ctx.run([hb, "-mode", "replay", "-in", ctx.path("beh.ndjson"), "-out", ctx.path("mm.ndjson"), "-modellist", "2"], timeout=1200)
    stats = json.loads(p.stdout.strip().splitlines()[-1])
    mm = vlib.read_ndjson(ctx.path("mm.ndjson"))
    drift = [m for m in mm if m["kind"] == "drift"]
    seen = set()
    for m in mm:
        if m["kind"] == "drift":
            continue
        sig = ("16-byte form: " if m.get("detail") == "16-byte" else "") + m["what"].split(",")[0][:60]
        key = m.get("detail") or m["what"][:30]
        if key in seen:
            continue
        seen.add(key)
        ctx.violation(sig, m["what"] + " | history: " + m["hist"][-700:], m)
    # 3. T: seeded real-width histories crossing the real switch, judged by TLC with W = 32
    ntr = 12 if q else 96
    ctx.run([hb, "-mode", "trace", "-traces", str(ntr), "-ops", "650" if q else "900", "-out", ctx.path("traces.ndjson")], timeout=1200)
    rows = vlib.read_ndjson(ctx.path("traces.ndjson"))
    bad, drift2, _ = judge(ctx, "netutil", "IPv4FilterCases", vlib.balanced(rows, min(16, len(rows)), lambda c: len(c["evs"]) ** 2), nshards=min(16, len(rows)), workers=1, timeout=2400,
                           constants="CONSTANTS\n  W = 32\n  ListSize = 256\n", xmx="4g")
    for c in bad[:10]:
        k = int(c.get("_info") or 1)
        e = c["evs"][k - 1]
        recent = ["%s %s/%d" % (x["op"], bits_ip(x["ip"]), x["len"]) for x in c["evs"][:k] if x["op"] in ("add", "remove")][-8:]
        if e["op"] == "contains":
            what = "Contains(%s as %d-byte) = %s contradicts the set of CIDRs added and not removed (event %d; recent updates: %s)" % (
                bits_ip(e["ip"]), e["form"], e["res"], k, recent)
            sig = "%s%s event" % ("16-byte form: " if e["form"] == 16 else "", "contains")
        elif e["op"] == "invalid":
            what = "a %s argument was not rejected with ErrInvalidIPv4CIDR (event %d)" % (e.get("arg"), k)
            sig = "invalid argument accepted: %s" % e.get("arg")
        else:
            what = "%s(%s/%d) returned an error for a valid IPv4 CIDR (event %d)" % (e["op"], bits_ip(e["ip"]), e["len"], k)
            sig = "valid cidr rejected"
        ctx.violation(sig, what, {"event": e, "index": k, "recent": recent})
    if (drift or drift2) and not ctx.violations:
        ctx.level = "exploration"
        msg = "internal state differs from the implementation-shaped model in %d replay steps / %d traces" % (len(drift), len(drift2))
        ctx.notes.append("DRIFT: " + msg)
        print("DRIFT property=C11 " + msg)
    nev = sum(len(c["evs"]) for c in rows)
    ctx.cov.update({
        "traces_validated_against_impl": len(beh) + len(rows), "evaluations": stats["probes"] + nev,
        "distinct_nontrivial": sum(1 for c in rows if c["maps"]) + stats["steps_in_maps_mode"],
        "rule": "G: %d TLC-simulated behaviours (14 ops over a 3-bit universe, ListSize 2) replayed through seeded bit-position embeddings "
                "with tombstone padding to the real 256-slot switch, every model address probed in 4- and 16-byte form after every op; "
                "T: %d real-width histories judged by TLC with W=32 (seeded ones of >= 650 ops incl. non-IPv4 arguments, and 128 list-boundary histories: "
                "list filled to 256 / 255 ranges, then every tail of three operations over {remove last, remove first, add, add}); non-trivial = traces that ended in maps mode "
                "+ replayed steps executed in maps mode" % (len(beh), len(rows)),
        "exhaustive": False, "model_universe": "W=%d ListSize=%d full graph" % (W, L), "replay": stats,
        "trace_events": nev, "traces_crossing_switch": sum(1 for c in rows if c["maps"]), "drift": len(drift) + len(drift2),
    })
    ctx.sample({"behaviour": beh[0][:4]})
    ctx.sample({"trace_events": rows[0]["evs"][:5]})
    ctx.assumptions += ["16-byte CIDR arguments (ambiguous in the statement) are not exercised as valid input",
                        "bit-position embedding preserves containment exactly (DESIGN 5/C11)"]
