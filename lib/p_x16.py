import p_x


def run(ctx):
    p_x.run(ctx, "X16")
