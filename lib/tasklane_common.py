"""Shared driver for C06, C07, C08, C14 (spec/tasklane/TaskLane.tla + TaskLaneCases.tla)."""
import json, re
import vlib
from vlib import judge

# per property: model-checking configs (quick, thorough) and expected-to-fail spec mutants
MC = {
    "C06": (["MC_small"], ["MC_small", "MC_q0", "MC_big", "MC_n3"], [("MUT_rerun", None)]),
    "C07": (["MC_small"], ["MC_small", "MC_q0", "MC_big", "MC_n3"], [("MUT_noouter", "PostCancelReject")]),
    "C08": (["MC_pinned", "MC_small"], ["MC_pinned", "MC_small", "MC_n3", "MC_big"], [("MUT_nosharing", "temporal")]),
    "C14": (["MC_status"], ["MC_status", "MC_big"], [("MUT_nodec", None)]),
}


def run(ctx, prop):
    q = ctx.quick()
    quick_cfgs, thorough_cfgs, mutants = MC[prop]
    # 1. design level: every interleaving of the bounded protocol model
    for cfg in (quick_cfgs if q else thorough_cfgs):
        r = ctx.tlc("tasklane", "TaskLaneMC", cfg + ".cfg", workers=16, timeout=3000, xmx="24g", tag="TaskLane " + cfg)
        if r.violated:
            raise vlib.Infra("spec-level counterexample in %s (model, not code): %s\n%s" % (cfg, r.violated, r.trace[:3000]))
    for mut, expect in mutants:
        m = ctx.tlc("tasklane", "TaskLaneMC", mut + ".cfg", workers=8, timeout=900, count=False, tag="mutant " + mut)
        if not m.violated:
            raise vlib.Infra("vacuity: spec mutant %s violates nothing" % mut)
    # 2. binding: traces of the real TaskLane, judged with the statement layer
    race = prop == "C14"
    hb = ctx.build("tasklane", race=race)
    args = [hb, "-out", ctx.path("traces.ndjson")]
    if q:
        args += ["-random", "40", "-gatek", "1", "-atrest", "1", "-panics", "5"]
    else:
        args += ["-random", "600", "-gatek", "3", "-atrest", "8", "-panics", "60"]
    p = ctx.run(args, timeout=3000, ok_codes=(0, 66), env={"GORACE": "halt_on_error=0"})
    races = p.stderr.count("WARNING: DATA RACE")
    if races and race:
        m_ = re.search(r"WARNING: DATA RACE\n(.*?)\n\n", p.stderr, re.S)
        first = m_.group(1) if m_ else p.stderr[:1500]
        if "tasklane/tasklane.go" in p.stderr:
            locs = sorted(set(re.findall(r"(tasklane\.go:\d+)", first)))
            sig = "lastPanic race" if "lastPanic" in p.stderr or True else "race"
            ctx.violation("data race in tasklane %s" % " vs ".join(locs),
                          "the race detector reports %d data race(s) involving tasklane.go, first:\n%s" % (races, first[:1800]), {"stderr": p.stderr[:8000]})
        else:
            raise vlib.Infra("race detector report inside the harness itself:\n" + first[:1500])
    rows = vlib.read_ndjson(ctx.path("traces.ndjson"))
    bad, _, _ = judge(ctx, "tasklane", "TaskLaneCases", rows, nshards=min(16, max(1, len(rows) // 8)), workers=1, timeout=3000,
                      constants='CONSTANT Prop = "%s"\n' % prop, xmx="3g")
    seen = set()
    for c in bad:
        info = c.get("_info") or ""
        m_ = re.match(r'(\d+), "(.*)"$', info)
        k, rule = (int(m_.group(1)), m_.group(2)) if m_ else (1, info)
        if rule.startswith("INFRA"):
            raise vlib.Infra("scenario %s (%s) never reached a stable state" % (c["kind"], c["note"]))
        sig = "%s [%s]" % (rule, c["kind"])
        if sig in seen:
            continue
        seen.add(sig)
        window = c["evs"][max(0, k - 14):k]
        ctx.violation(sig, "%s - scenario %s (%s), event %d of %d; last events: %s" % (
            rule, c["kind"], c["note"], k, len(c["evs"]),
            " ".join("%s(%s)" % (e["e"], ",".join(str(e[x]) for x in ("p", "t", "res", "v") if e.get(x))) for e in window)), {"case": c})
    kinds = {}
    for c in rows:
        kinds[c["kind"]] = kinds.get(c["kind"], 0) + 1
    hook_evs = set(e["e"] for c in rows for e in c["evs"] if e["e"][:2] in ("q.", "w."))
    cancel_points = len({c["note"] for c in rows if c["kind"] == "cancelat" and any(e["e"] == "cancel.begin" and e["v"].startswith("hook") for e in c["evs"])})
    ctx.cov.update({
        "traces_validated_against_impl": len(rows), "evaluations": sum(len(c["evs"]) for c in rows),
        "distinct_nontrivial": cancel_points + sum(1 for c in rows if c["kind"] != "cancelat" and any(e["e"] == "quiescent" for e in c["evs"])),
        "rule": "scenarios on the real TaskLane with verif hooks: seeded random programs (lanes 1-3, queue 0-2, 1-4 producers, slow / "
                "panicking tasks, tiny timeouts, cancel / deadline / none), cancellation fired inside the hook of each protocol point "
                "(k-th occurrence), pinned-worker at-rest states, simultaneous typed panics with Status pollers; non-trivial = "
                "cancellation points actually hit + scenarios that reached a judged quiescent state",
        "exhaustive": False, "scenario_kinds": kinds, "hook_events_witnessed": sorted(hook_evs),
        "cancel_points_hit": cancel_points, "race_build": race, "race_reports": races,
    })
    c = rows[0]
    ctx.sample({"kind": c["kind"], "note": c["note"], "events": c["evs"][:12]})
    ctx.assumptions += ["liveness judged on stably quiescent states (goroutine census from runtime.Stack), never on a bare timeout",
                        "event order = global atomic sequence number at emission; hook events follow the step they name"]
