"""Shared driver for C06, C07, C08, C14 (spec/tasklane/TaskLane.tla + TaskLaneCases.tla)."""
import json, re
import vlib
from vlib import judge
import tltrace

# per property: model-checking configs (quick, thorough) and expected-to-fail spec mutants
MC = {
    "C06": (["MC_small"], ["MC_small", "MC_q0", "MC_big", "MC_n3"], [("MUT_rerun", None)]),
    "C07": (["MC_small"], ["MC_small", "MC_q0", "MC_big", "MC_n3"], [("MUT_noouter", "PostCancelReject")]),
    "C08": (["MC_pinned", "MC_small"], ["MC_pinned", "MC_small", "MC_n3", "MC_big"], [("MUT_nosharing", "temporal")]),
    "C14": (["MC_status"], ["MC_status", "MC_big"], [("MUT_nodec", None)]),
}


def run(ctx, prop):
    q = ctx.quick()
    quick_cfgs, thorough_cfgs, mutants = MC[prop]
    # 1. design level: every interleaving of the bounded protocol model
    for cfg in (quick_cfgs if q else thorough_cfgs):
        r = ctx.tlc("tasklane", "TaskLaneMC", cfg + ".cfg", workers=16, timeout=3000, xmx="24g", tag="TaskLane " + cfg)
        if r.violated:
            raise vlib.Infra("spec-level counterexample in %s (model, not code): %s\n%s" % (cfg, r.violated, r.trace[:3000]))
    if not q:
        # beyond the exhaustive bounds: random deep behaviours of a 3-lane, 4-task, 3-producer model with panics and Status
        r = ctx.tlc("tasklane", "TaskLaneMC", "MC_sim.cfg", workers=16, timeout=900, xmx="8g", simulate="num=1500", depth=400,
                    extra=["-seed", str(ctx.seed)], tag="TaskLane MC_sim (simulation: 24000 behaviours of depth <= 400)")
        if r.violated:
            raise vlib.Infra("spec-level counterexample in simulation (model, not code): %s\n%s" % (r.violated, r.trace[:3000]))
    for mut, expect in mutants:
        m = ctx.tlc("tasklane", "TaskLaneMC", mut + ".cfg", workers=8, timeout=900, count=False, tag="mutant " + mut)
        if not m.violated:
            raise vlib.Infra("vacuity: spec mutant %s violates nothing" % mut)
    if not q and prop in ("C06", "C07"):
        # unbounded: AtMostOnce, NoRejectedRun, StartedOnlyIfPushed, PostCancelReject, WaitOnlyWhenQuiet for ANY N, Q, tasks and
        # producers - the inductive invariant of proofs/tasklane checked by the TLA+ proof system (about 2 minutes)
        import p_p01
        ctx.tlaps("tasklane", p_p01.TASKLANE_PROOF, timeout=2400, tag="TaskLaneProof (unbounded safety of the protocol model)")
    if not q and prop == "C14":
        # unbounded: cnt in 0..N and every Status() result in 0..N*(Q+1) for ANY N, Q, tasks, producers (on top of the protocol invariant)
        import p_p01
        ctx.tlaps("tasklane", p_p01.TASKLANE_PROOF + ["TaskLaneCountProof", "TaskLaneStatusProof"], timeout=2400,
                  tag="TaskLaneProof + CountProof + StatusProof (CntBounds, StatusBounds unbounded)")
    if prop == "C08":
        # unbounded: a queue goroutine parked offering and a worker parked listening never coexist while the context is live
        ctx.tlaps("tasklane", "TaskLaneShareProof", timeout=900, tag="TaskLaneShareProof (NoIdleWhileWaiting for any N, Q, tasks, producers)")
    # 2. binding: traces of the real TaskLane, judged with the statement layer
    race = prop == "C14"
    hb = ctx.build("tasklane", race=race)
    args = [hb, "-out", ctx.path("traces.ndjson")]
    if q:
        args += ["-random", "40", "-gatek", "1", "-atrest", "1", "-panics", "4", "-burst", "2", "-burstper", "50", "-timeouts", "3", "-lastpanic", "12", "-burstprobe", "25000"]
    else:
        args += ["-random", "600", "-gatek", "3", "-atrest", "8", "-panics", "60", "-burst", "24", "-burstper", "150", "-timeouts", "40", "-lastpanic", "150", "-burstprobe", "200000"]
    if prop != "C14":
        args += ["-panicmarathon", "30000"]      # the long one belongs to C14
    if prop == "C08":
        args += ["-burstprobe", "100000" if q else "600000"]   # a 1-in-10^4 hand-over order: the long run belongs to C08
    else:
        args += ["-burstprobe", "5000"]
    args += ["-lonebursts", ("1500" if q else "10000") if prop == "C06" else "300"]   # single-lane bursts: the long run belongs to C06
    p = ctx.run(args, timeout=3000, ok_codes=(0, 66, 2), env={"GORACE": "halt_on_error=0"})
    if p.returncode == 2:
        # the harness process died: a Go run-time panic that escaped (or happened inside) the lane's own goroutines
        m_ = re.search(r"^(panic: .*|fatal error: .*)$", p.stderr, re.M)
        if m_ and "tasklane.(*TaskLane)" in p.stderr and "tasklane/tasklane.go" in p.stderr:
            if prop in ("C14", "C06", "C07"):
                frame = re.search(r"tasklane\.\(\*TaskLane\)\.(\w+)", p.stderr)
                ctx.violation("process crashed inside tasklane.%s" % (frame.group(1) if frame else "?"),
                              "a panic was not contained: the process died with %r inside the lane's goroutine:\n%s" % (m_.group(1), p.stderr[:1500]),
                              {"stderr": p.stderr[:6000]})
                ctx.cov.update({"traces_validated_against_impl": 0, "evaluations": 1, "distinct_nontrivial": 0,
                                "rule": "harness crashed inside tasklane", "exhaustive": False})
                ctx.sample({"crash": m_.group(1)})
                return
        raise vlib.Infra("tasklane harness died:\n" + p.stderr[-2500:])
    races = p.stderr.count("WARNING: DATA RACE")
    if races and race:
        m_ = re.search(r"WARNING: DATA RACE\n(.*?)\n\n", p.stderr, re.S)
        first = m_.group(1) if m_ else p.stderr[:1500]
        if "tasklane/tasklane.go" in p.stderr:
            locs = sorted(set(re.findall(r"(tasklane\.go:\d+)", first)))
            sig = "lastPanic race" if "lastPanic" in p.stderr or True else "race"
            ctx.violation("data race in tasklane %s" % " vs ".join(locs),
                          "the race detector reports %d data race(s) involving tasklane.go, first:\n%s" % (races, first[:1800]), {"stderr": p.stderr[:8000]})
        else:
            raise vlib.Infra("race detector report inside the harness itself:\n" + first[:1500])
    rows = vlib.read_ndjson(ctx.path("traces.ndjson"))
    nsh = min(16, max(1, len(rows) // 8))
    bad, _, _ = judge(ctx, "tasklane", "TaskLaneCases", vlib.balanced(rows, nsh, lambda c: len(c["evs"])), nshards=nsh, workers=1, timeout=3000,
                      constants='CONSTANT Prop = "%s"\n' % prop, xmx="3g")
    seen = set()
    for c in bad:
        info = c.get("_info") or ""
        m_ = re.match(r'(\d+), "(.*)"$', info)
        k, rule = (int(m_.group(1)), m_.group(2)) if m_ else (1, info)
        if rule.startswith("INFRA"):
            raise vlib.Infra("scenario %s (%s) never reached a stable state" % (c["kind"], c["note"]))
        sig = "%s [%s]" % (rule, c["kind"])
        if sig in seen:
            continue
        seen.add(sig)
        window = c["evs"][max(0, k - 14):k]
        ctx.violation(sig, "%s - scenario %s (%s), event %d of %d; last events: %s" % (
            rule, c["kind"], c["note"], k, len(c["evs"]),
            " ".join("%s(%s)" % (e["e"], ",".join(str(e[x]) for x in ("p", "t", "res", "v") if e.get(x))) for e in window)), {"case": c})
    # 3. implementation-level conformance: are the recorded traces behaviours of the protocol model itself?
    #    (TaskLaneTrace.tla: the model may run at most one step per goroutine ahead of the log.)
    #    A rejection is model drift, not a violation: the verdicts above come from the statement layer.
    per_kind = {}
    chosen = []
    for c in sorted(rows, key=lambda c: len(c["evs"])):
        if len(c["evs"]) > (260 if q else 500) or c["kind"] in ("quietburst", "marathon", "panicmarathon", "burstprobe", "lonebursts"):
            continue
        per_kind.setdefault(c["kind"], 0)
        if per_kind[c["kind"]] < (8 if q else 60):
            per_kind[c["kind"]] += 1
            chosen.append(c)
    tres = tltrace.validate(ctx, chosen, maxpar=12, timeout=45 if q else 180)
    acc = [c for c, st, d in tres if st == "accepted"]
    rej = [(c, d) for c, st, d in tres if st == "rejected"]
    inv = [(c, st, d) for c, st, d in tres if st.startswith("invariant:")]
    inconclusive = [c for c, st, d in tres if st in ("infra", "skipped")]
    if (rej or inv) and not ctx.violations:
        ctx.level = "exploration"
        c0, d0 = (rej[0] if rej else (inv[0][0], inv[0][1] + " " + inv[0][2][:300]))
        msg = "%d of %d traces are not behaviours of the implementation-shaped model (first: %s %s - %s)" % (
            len(rej) + len(inv), len(chosen), c0["kind"], c0["note"], d0)
        ctx.notes.append("DRIFT: " + msg)
        print("DRIFT property=%s %s" % (prop, msg))
    ctx.cov["impl_level_traces"] = {"tried": len(chosen), "accepted": len(acc), "rejected": len(rej), "model_invariant_hit": len(inv),
                                    "inconclusive_timeout": len(inconclusive)}
    kinds = {}
    for c in rows:
        kinds[c["kind"]] = kinds.get(c["kind"], 0) + 1
    hook_evs = set(e["e"] for c in rows for e in c["evs"] if e["e"][:2] in ("q.", "w."))
    cancel_points = len({c["note"] for c in rows if c["kind"] == "cancelat" and any(e["e"] == "cancel.begin" and e["v"].startswith("hook") for e in c["evs"])})
    ctx.cov.update({
        "traces_validated_against_impl": len(rows), "evaluations": sum(len(c["evs"]) for c in rows),
        "distinct_nontrivial": cancel_points + sum(1 for c in rows if c["kind"] != "cancelat" and any(e["e"] == "quiescent" for e in c["evs"])),
        "rule": "scenarios on the real TaskLane with verif hooks: seeded random programs (lanes 1-3, queue 0-2, 1-4 producers, slow / "
                "panicking tasks, tiny timeouts, cancel / deadline / none), cancellation fired inside the hook of each protocol point "
                "(k-th occurrence), pinned-worker at-rest states, simultaneous typed panics with Status pollers, bursts with and without per-step events (polled PendingTask maximum), "
                "timeouts, last-task-panics-under-Wait, panics on foreign workers, burst-then-probe rounds, marathons (70 k tasks / 300 k "
                "panics per worker), a 40-lane lane; non-trivial = "
                "cancellation points actually hit + scenarios that reached a judged quiescent state",
        "exhaustive": False, "scenario_kinds": kinds, "hook_events_witnessed": sorted(hook_evs),
        "cancel_points_hit": cancel_points, "race_build": race, "race_reports": races,
    })
    c = rows[0]
    ctx.sample({"kind": c["kind"], "note": c["note"], "events": c["evs"][:12]})
    ctx.assumptions += ["liveness judged on stably quiescent states (goroutine census from runtime.Stack), never on a bare timeout",
                        "event order = global atomic sequence number at emission; hook events follow the step they name"]
