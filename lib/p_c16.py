"""C16 - ShellEscape yields exactly one shell word that evaluates back to the input
(spec/util/ShellQuote.tla: POSIX lexer model + implementation-shaped Escape)."""
import vlib
from vlib import judge


def s(a):
    return bytes(a).decode("latin1")


def run(ctx):
    q = ctx.quick()
    mc_len = 4 if q else 5
    bind_len = 3 if q else 5
    cfg = open(vlib.SPEC + "/util/ShellQuoteMC.cfg").read().replace("MaxLen = 4", "MaxLen = %d" % mc_len)
    # 1. design level: quoting scheme vs lexer model, exhaustive
    r = ctx.tlc("util", "ShellQuoteMC", cfg, workers=16, timeout=1200, xmx="8g")
    if r.violated:
        raise vlib.Infra("spec-level counterexample (model, not code):\n" + r.trace[:2000])
    # non-vacuity: three wrong quoting schemes must be rejected by the lexer model
    for inv in ("MutFirstOnly", "MutBackslash", "MutTildeQuoted"):
        m = ctx.tlc("util", "ShellQuoteMC", cfg.replace("INVARIANT OneWord", "INVARIANT " + inv).replace(
            "MaxLen = %d" % mc_len, "MaxLen = 3"), workers=4, timeout=300, count=False, tag="mutant " + inv)
        if not m.violated:
            raise vlib.Infra("vacuity: spec mutant %s is accepted by the lexer model" % inv)
    # 2. binding: real outputs, judged by TLC with the lexer model, cross-checked by dash and bash
    hb = ctx.build("shellq")
    cases = ctx.path("cases.ndjson")
    ctx.run([hb, "-maxlen", str(bind_len), "-extra", "3000" if q else "40000", "-work", ctx.scratch, "-out", cases],
            timeout=1500)
    rows = vlib.read_ndjson(cases)
    trows = [{"s": c["s"], "e": c["e"], "t": c["t"]} for c in rows]
    bad, drift, other = judge(ctx, "util", "ShellQuoteCases", trows, per_shard=4000 if q else 60000, workers=1, timeout=1500)
    badset = {(tuple(c["s"])) for c in bad} | {tuple(c["s"]) for c in other.get("BADT", [])}
    shbad = {tuple(c["s"]): c for c in rows if not c["sh"]}
    model_wrong = [c for k, c in shbad.items() if k not in badset]
    if model_wrong:
        c = model_wrong[0]
        raise vlib.Infra("lexer model disagrees with a real shell (model accepts, shell does not): s=%r: %s"
                         % (s(c["s"]), c.get("sd")))
    overstrict = [k for k in badset if k not in shbad]
    for k in sorted(badset):
        if k in shbad:
            c = shbad[k]
            ctx.violation("input=%r" % s(c["s"]),
                          "ShellEscape(%r)=%r / ExceptTilde=%r is not read back as one word equal to the input "
                          "(lexer model and real shell agree: %s)" % (s(c["s"]), s(c["e"]), s(c["t"]), c.get("sd")), c)
    if overstrict:
        ctx.notes.append("lexer model stricter than dash/bash on %d texts (no alarm), e.g. %r" % (len(overstrict), bytes(overstrict[0])))
        print("DRIFT property=C16 model stricter than the real shells on %d texts (not a violation)" % len(overstrict))
        ctx.level = "exploration"
    if drift and not badset:
        ctx.notes.append("DRIFT: %d outputs differ from the implementation-shaped Escape but are accepted" % len(drift))
        print("DRIFT property=C16 %d outputs differ from spec Escape yet satisfy the statement" % len(drift))
        ctx.level = "exploration"
    nontriv = len({tuple(c["s"]) for c in rows if any(b in (39, 34, 92, 36, 96, 32, 10, 59, 38, 124, 42, 126, 33, 35) for b in c["s"])})
    ctx.cov.update({
        "traces_validated_against_impl": len(rows), "evaluations": len(rows), "distinct_nontrivial": nontriv,
        "rule": "all strings of length <= %d over the 15 shell-special classes (+ '~/' prefixes, 32 tilde-prefix forms, runs of up to 200 special characters) and seeded strings over "
                "arbitrary non-NUL bytes, through the real ShellEscape and ShellEscapeExceptTilde; TLC judges each escaped "
                "text with the POSIX lexer model, dash and bash read each text too; non-trivial = input has a special byte" % bind_len,
        "exhaustive": True, "model_maxlen": mc_len, "bind_maxlen": bind_len, "shell_disagreements": len(shbad),
        "drift": len(drift),
    })
    for c in rows[200:202] + rows[-2:]:
        ctx.sample({"input": s(c["s"]), "escaped": s(c["e"]), "except_tilde": s(c["t"]), "shells_ok": c["sh"]})
    ctx.assumptions += ["dash and bash (LC_ALL=C, HOME fixed, PATH empty) stand for 'a POSIX shell'; they validate the lexer model",
                        "seeded strings use a vocabulary that cannot spell a command name (safety of running mutants)"]
