#!/bin/sh
# Offline setup: parse every TLA+ module (fail fast) and warm the Go build cache for the harness.
set -e
cd "$(dirname "$0")"
export GOFLAGS=-mod=mod GOPROXY=off GOSUMDB=off GOTOOLCHAIN=local
mkdir -p evidence replays
tmp=$(mktemp -d)
trap 'rm -rf "$tmp"' EXIT
for d in spec/*/; do
  [ "$d" = "spec/common/" ] && continue
  mkdir -p "$tmp/$d"
  cp spec/common/*.tla "$tmp/$d" 2>/dev/null || true
  cp "$d"*.tla "$tmp/$d" 2>/dev/null || true
done
fail=0
for f in "$tmp"/spec/*/*.tla; do
  ( cd "$(dirname "$f")" && java -Djava.io.tmpdir="$tmp" -cp /opt/veriftools/tla/tla2tools.jar:/opt/veriftools/tla/CommunityModules-deps.jar tla2sany.SANY "$(basename "$f")" >"$f.out" 2>&1 ) || true
  if grep -qE "^(\*\*\* Errors|Fatal errors|Could not|Lexical error|\*\*\*Parse Error|Semantic errors)" "$f.out"; then echo "SANY FAILED: $f"; cat "$f.out"; fail=1; fi
done
[ $fail = 0 ] || exit 1
cp /repo/go.sum harness/go.sum 2>/dev/null || true
( cd harness && go build -tags verif -o "$tmp/bin/" ./cmd/... )
echo "setup ok"
