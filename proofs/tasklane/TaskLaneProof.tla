----------------------------- MODULE TaskLaneProof -----------------------------
(***************************************************************************)
(* Unbounded safety of the tasklane protocol model TaskLane.tla, checked   *)
(* by the TLA+ proof system: for ANY number of lanes N >= 1, ANY queue     *)
(* size Q >= 0, ANY set of tasks, producers, lane assignments, pinned and  *)
(* panicking tasks, with or without cancellation and work sharing:         *)
(*   AtMostOnce, NoRejectedRun, StartedOnlyIfPushed            (C06)       *)
(*   PostCancelReject, WaitOnlyWhenQuiet                       (C07)       *)
(* TLC checks the same formulas (and the liveness ones) exhaustively for   *)
(* 2-3 lanes, Q <= 1 and 3-4 tasks.                                        *)
(* The inductive invariant says where a task can be: with its producer, in *)
(* one slot of one buffer, in the hands of one queue goroutine, with one   *)
(* worker about to start it, or started - in at most one of these places,  *)
(* and only after PushTask has returned nil for it.                        *)
(***************************************************************************)
EXTENDS TaskLaneStepA, TaskLaneStepB, TaskLaneStepC, TaskLaneStepD, TaskLaneStepE, TaskLaneStepF, TaskLaneStepG, TaskLaneStepH

LEMMA NextInv == Inv /\ [Next]_vars => Inv'
<1> SUFFICES ASSUME Inv, [Next]_vars PROVE Inv'
  OBVIOUS
<1> QED BY Step_PCall, Step_POuter, Step_PTimeout, Step_PInner, Step_QTake, Step_QInc, Step_QChk, Step_QTryOwn, Step_QOffer, Step_QDec, Step_QExit, Step_WChk, Step_WTryOwn, Step_WListen, Step_WStart, Step_WReturn, Step_WRecover, Step_WExit, Step_Cancel, Step_WaitRet, Step_SBegin_SLen_SCnt_SLast, Step_Stutter DEF Next, Internal

THEOREM Safety == Spec => [](AtMostOnce /\ NoRejectedRun /\ StartedOnlyIfPushed /\ PostCancelReject /\ WaitOnlyWhenQuiet)
<1>1. Inv => AtMostOnce /\ PostCancelReject
  BY DEF Inv, Unique, U12, Late
<1>2. Inv => NoRejectedRun
  <2> SUFFICES ASSUME Inv, NEW t \in Rejected PROVE started[t] = 0
    BY DEF NoRejectedRun
  <2>1. PICK x \in pres : x[2] # "nil" /\ t = x[1]
    BY DEF Rejected
  <2>2. t \in Tasks /\ started[t] \in Nat
    BY <2>1, Assump DEF Inv, TypeOK
  <2>3. ~InSys(t)
    BY <2>1, <2>2 DEF Inv, AcceptedFirst, OneResult
  <2> QED BY <2>2, <2>3 DEF InSys
<1>3. Inv => StartedOnlyIfPushed
  <2> SUFFICES ASSUME Inv, NEW t \in Tasks, started[t] > 0 PROVE t \in Pushed
    BY DEF StartedOnlyIfPushed
  <2>1. PICK r \in pres : r[1] = t
    BY DEF Inv, AcceptedFirst, InSys
  <2> QED BY <2>1, Assump DEF Pushed, NoTask
<1>4. Inv => WaitOnlyWhenQuiet
  BY DEF Inv, Quiet, WaitOnlyWhenQuiet, AllGone, Running
<1> QED BY InitInv, NextInv, <1>1, <1>2, <1>3, <1>4, PTL DEF Spec
=============================================================================
