--------------------------- MODULE PushTimeoutInd ---------------------------
(* Inductive-invariant check of PushTimeout's NotEarly with Apalache, for an unbounded clock and any timeouts up to 1000 ticks:
   apalache-mc check --init=IndInit --inv=IndInv --length=1 (step) and --init=Init --inv=IndInv --length=0 (base). *)
EXTENDS Integers

VARIABLES
  \* @type: Int;
  now,
  \* @type: Int;
  cfg,
  \* @type: Bool;
  room,
  \* @type: Str;
  pc,
  \* @type: Int;
  t0,
  \* @type: Int;
  armed,
  \* @type: Str;
  lastRes,
  \* @type: Int;
  lastElapsed,
  \* @type: Int;
  lastArmed

Timeouts == 0..1000

Init == /\ now = 0 /\ cfg \in Timeouts /\ room = FALSE /\ pc = "idle" /\ t0 = 0 /\ armed = 0
        /\ lastRes = "none" /\ lastElapsed = 0 /\ lastArmed = 0

Tick == now' = now + 1 /\ UNCHANGED <<cfg, room, pc, t0, armed, lastRes, lastElapsed, lastArmed>>
SetTimeout == \E v \in Timeouts : cfg' = v /\ UNCHANGED <<now, room, pc, t0, armed, lastRes, lastElapsed, lastArmed>>
Drain == ~room /\ room' = TRUE /\ UNCHANGED <<now, cfg, pc, t0, armed, lastRes, lastElapsed, lastArmed>>
Call == pc = "idle" /\ pc' = "waiting" /\ t0' = now /\ armed' = cfg /\ UNCHANGED <<now, cfg, room, lastRes, lastElapsed, lastArmed>>
Sent == /\ pc = "waiting" /\ room /\ room' = FALSE /\ pc' = "idle"
        /\ lastRes' = "nil" /\ lastElapsed' = now - t0 /\ lastArmed' = armed /\ UNCHANGED <<now, cfg, t0, armed>>
Fire == /\ pc = "waiting" /\ now - t0 >= armed /\ pc' = "idle"
        /\ lastRes' = "timeout" /\ lastElapsed' = now - t0 /\ lastArmed' = armed /\ UNCHANGED <<now, cfg, room, t0, armed>>
Next == Tick \/ SetTimeout \/ Drain \/ Call \/ Sent \/ Fire

IndInv == /\ now >= 0 /\ cfg \in Timeouts /\ pc \in {"idle", "waiting"} /\ room \in BOOLEAN
          /\ t0 >= 0 /\ t0 <= now /\ armed \in Timeouts
          /\ lastRes \in {"none", "nil", "timeout"} /\ lastElapsed >= 0 /\ lastArmed \in Timeouts
          /\ (lastRes = "timeout" => lastElapsed >= lastArmed)
IndInit == /\ now \in Nat /\ cfg \in Timeouts /\ pc \in {"idle", "waiting"} /\ room \in BOOLEAN
           /\ t0 \in Nat /\ armed \in Timeouts
           /\ lastRes \in {"none", "nil", "timeout"} /\ lastElapsed \in Nat /\ lastArmed \in Timeouts
           /\ IndInv
NotEarly == lastRes = "timeout" => lastElapsed >= lastArmed
=============================================================================
