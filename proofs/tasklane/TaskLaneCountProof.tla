--------------------------- MODULE TaskLaneCountProof ---------------------------
(***************************************************************************)
(* Unbounded proof of the counter bound of TaskLane.tla (C14), for ANY     *)
(* number of lanes, queue size, tasks and producers: blockingTaskCnt is    *)
(* exactly the number of queue goroutines that have incremented it and not *)
(* yet decremented it (those past "inc" and before the end of "dec", and   *)
(* those that left the loop on cancellation with a task in hand), hence    *)
(*     CntBounds == cnt \in 0..N.                                          *)
(* Built on the invariant Inv of TaskLaneInv / TaskLaneProof (task ids are *)
(* non-zero, a holding queue goroutine holds a task).                      *)
(***************************************************************************)
EXTENDS TaskLaneProof, FiniteSetTheorems

CountedPCs == {"chk", "tryOwn", "offer", "offerParked", "dec"}
Counted(i) == qpc[i] \in CountedPCs \/ (qpc[i] \in {"exit", "gone"} /\ qtask[i] # NoTask)
CS == {i \in Lanes : Counted(i)}
CInv == /\ cnt = Cardinality(CS)
        /\ \A i \in Lanes : qpc[i] \in {"take", "takeParked"} => qtask[i] = NoTask

LEMMA CSFinite == IsFiniteSet(CS) /\ Cardinality(CS) \in 0..N
<1>1. IsFiniteSet(1..N) /\ Cardinality(1..N) = N
  BY Assump, FS_Interval
<1>2. CS \in SUBSET (1..N)
  BY DEF CS, Lanes
<1>3. IsFiniteSet(CS) /\ Cardinality(CS) <= N
  BY <1>1, <1>2, FS_Subset
<1>4. Cardinality(CS) \in Nat
  BY <1>3, FS_CardinalityType
<1> QED BY <1>3, <1>4, Assump

LEMMA CInit == Init => CInv
<1> SUFFICES ASSUME Init PROVE CInv
  OBVIOUS
<1>1. CS = {}
  BY Assump DEF Init, CS, Counted, CountedPCs, Lanes
<1> QED BY <1>1, FS_EmptySet, Assump DEF Init, CInv, NoTask, Lanes

LEMMA CNext == Inv /\ CInv /\ [Next]_vars => CInv'
<1> SUFFICES ASSUME Inv, CInv, [Next]_vars PROVE CInv'
  OBVIOUS
<1> USE Assump
<1>a. \A i \in Lanes : qpc[i] \in HoldQ \cup {"dec"} => qtask[i] # NoTask
  BY DEF Inv, Unique, U7, NoTask
<1>b. IsFiniteSet(CS)
  BY CSFinite
<1>1. ASSUME NEW i \in Lanes, QInc(i) PROVE CInv'
  <2>1. CS' = CS \cup {i} /\ i \notin CS
    BY <1>1, <1>a DEF QInc, CS, Counted, CountedPCs, Inv, TypeOK, QPCs, Lanes
  <2>2. Cardinality(CS') = Cardinality(CS) + 1
    BY <2>1, <1>b, FS_AddElement
  <2> QED BY <1>1, <2>2 DEF QInc, CInv, Inv, TypeOK, QPCs, Lanes
<1>2. ASSUME NEW i \in Lanes, QDec(i) PROVE CInv'
  <2>1. CS' = CS \ {i} /\ i \in CS
    BY <1>2 DEF QDec, CS, Counted, CountedPCs, Inv, TypeOK, QPCs, Lanes, NoTask
  <2>2. Cardinality(CS') = Cardinality(CS) - 1
    BY <2>1, <1>b, FS_RemoveElement
  <2>3. Cardinality(CS) \in Nat
    BY CSFinite
  <2> QED BY <1>2, <2>2, <2>3 DEF QDec, CInv, Inv, TypeOK, QPCs, Lanes
<1>3. ASSUME NEW p \in Prods, PCall(p) PROVE CInv'
  <2>1. \A x \in Lanes : Counted(x)' <=> Counted(x)
    BY <1>3, <1>a DEF PCall, Counted, CountedPCs, CInv, Inv, TypeOK, QPCs, HoldQ, Lanes, NoTask
  <2>2. CS' = CS
    BY <2>1 DEF CS, Lanes
  <2>3. cnt' = cnt /\ \A x \in Lanes : qpc'[x] \in {"take", "takeParked"} => qtask'[x] = NoTask
    BY <1>3, <1>a DEF PCall, CInv, Inv, TypeOK, QPCs, HoldQ, Lanes, NoTask
  <2> QED BY <2>2, <2>3 DEF CInv
<1>4. ASSUME NEW p \in Prods, POuter(p) PROVE CInv'
  <2>1. \A x \in Lanes : Counted(x)' <=> Counted(x)
    BY <1>4, <1>a DEF POuter, Return, Counted, CountedPCs, CInv, Inv, TypeOK, QPCs, HoldQ, Lanes, NoTask
  <2>2. CS' = CS
    BY <2>1 DEF CS, Lanes
  <2>3. cnt' = cnt /\ \A x \in Lanes : qpc'[x] \in {"take", "takeParked"} => qtask'[x] = NoTask
    BY <1>4, <1>a DEF POuter, Return, CInv, Inv, TypeOK, QPCs, HoldQ, Lanes, NoTask
  <2> QED BY <2>2, <2>3 DEF CInv
<1>5. ASSUME NEW p \in Prods, PInner(p) PROVE CInv'
  <2>1. \A x \in Lanes : Counted(x)' <=> Counted(x)
    BY <1>5, <1>a DEF PInner, Return, SendReady, DoSend, Counted, CountedPCs, CInv, Inv, TypeOK, QPCs, HoldQ, Lanes, NoTask
  <2>2. CS' = CS
    BY <2>1 DEF CS, Lanes
  <2>3. cnt' = cnt /\ \A x \in Lanes : qpc'[x] \in {"take", "takeParked"} => qtask'[x] = NoTask
    BY <1>5, <1>a DEF PInner, Return, SendReady, DoSend, CInv, Inv, TypeOK, QPCs, HoldQ, Lanes, NoTask
  <2> QED BY <2>2, <2>3 DEF CInv
<1>6. ASSUME NEW p \in Prods, PTimeout(p) PROVE CInv'
  <2>1. \A x \in Lanes : Counted(x)' <=> Counted(x)
    BY <1>6, <1>a DEF PTimeout, Return, Counted, CountedPCs, CInv, Inv, TypeOK, QPCs, HoldQ, Lanes, NoTask
  <2>2. CS' = CS
    BY <2>1 DEF CS, Lanes
  <2>3. cnt' = cnt /\ \A x \in Lanes : qpc'[x] \in {"take", "takeParked"} => qtask'[x] = NoTask
    BY <1>6, <1>a DEF PTimeout, Return, CInv, Inv, TypeOK, QPCs, HoldQ, Lanes, NoTask
  <2> QED BY <2>2, <2>3 DEF CInv
<1>7. ASSUME NEW i \in Lanes, QTake(i) PROVE CInv'
  <2>1. \A x \in Lanes : Counted(x)' <=> Counted(x)
    BY <1>7, <1>a DEF QTake, Return, ParkedSenders, Counted, CountedPCs, CInv, Inv, TypeOK, QPCs, HoldQ, Lanes, NoTask
  <2>2. CS' = CS
    BY <2>1 DEF CS, Lanes
  <2>3. cnt' = cnt /\ \A x \in Lanes : qpc'[x] \in {"take", "takeParked"} => qtask'[x] = NoTask
    BY <1>7, <1>a DEF QTake, Return, ParkedSenders, CInv, Inv, TypeOK, QPCs, HoldQ, Lanes, NoTask
  <2> QED BY <2>2, <2>3 DEF CInv
<1>8. ASSUME NEW i \in Lanes, QChk(i) PROVE CInv'
  <2>1. \A x \in Lanes : Counted(x)' <=> Counted(x)
    BY <1>8, <1>a DEF QChk, Counted, CountedPCs, CInv, Inv, TypeOK, QPCs, HoldQ, Lanes, NoTask
  <2>2. CS' = CS
    BY <2>1 DEF CS, Lanes
  <2>3. cnt' = cnt /\ \A x \in Lanes : qpc'[x] \in {"take", "takeParked"} => qtask'[x] = NoTask
    BY <1>8, <1>a DEF QChk, CInv, Inv, TypeOK, QPCs, HoldQ, Lanes, NoTask
  <2> QED BY <2>2, <2>3 DEF CInv
<1>9. ASSUME NEW i \in Lanes, QTryOwn(i) PROVE CInv'
  <2>1. \A x \in Lanes : Counted(x)' <=> Counted(x)
    BY <1>9, <1>a DEF QTryOwn, Handover, Counted, CountedPCs, CInv, Inv, TypeOK, QPCs, HoldQ, Lanes, NoTask
  <2>2. CS' = CS
    BY <2>1 DEF CS, Lanes
  <2>3. cnt' = cnt /\ \A x \in Lanes : qpc'[x] \in {"take", "takeParked"} => qtask'[x] = NoTask
    BY <1>9, <1>a DEF QTryOwn, Handover, CInv, Inv, TypeOK, QPCs, HoldQ, Lanes, NoTask
  <2> QED BY <2>2, <2>3 DEF CInv
<1>10. ASSUME NEW i \in Lanes, QOffer(i) PROVE CInv'
  <2>1. \A x \in Lanes : Counted(x)' <=> Counted(x)
    BY <1>10, <1>a DEF QOffer, Handover, Counted, CountedPCs, CInv, Inv, TypeOK, QPCs, HoldQ, Lanes, NoTask
  <2>2. CS' = CS
    BY <2>1 DEF CS, Lanes
  <2>3. cnt' = cnt /\ \A x \in Lanes : qpc'[x] \in {"take", "takeParked"} => qtask'[x] = NoTask
    BY <1>10, <1>a DEF QOffer, Handover, CInv, Inv, TypeOK, QPCs, HoldQ, Lanes, NoTask
  <2> QED BY <2>2, <2>3 DEF CInv
<1>11. ASSUME NEW i \in Lanes, QExit(i) PROVE CInv'
  <2>1. \A x \in Lanes : Counted(x)' <=> Counted(x)
    BY <1>11, <1>a DEF QExit, Counted, CountedPCs, CInv, Inv, TypeOK, QPCs, HoldQ, Lanes, NoTask
  <2>2. CS' = CS
    BY <2>1 DEF CS, Lanes
  <2>3. cnt' = cnt /\ \A x \in Lanes : qpc'[x] \in {"take", "takeParked"} => qtask'[x] = NoTask
    BY <1>11, <1>a DEF QExit, CInv, Inv, TypeOK, QPCs, HoldQ, Lanes, NoTask
  <2> QED BY <2>2, <2>3 DEF CInv
<1>12. ASSUME NEW j \in Lanes, WChk(j) PROVE CInv'
  <2>1. \A x \in Lanes : Counted(x)' <=> Counted(x)
    BY <1>12, <1>a DEF WChk, Counted, CountedPCs, CInv, Inv, TypeOK, QPCs, HoldQ, Lanes, NoTask
  <2>2. CS' = CS
    BY <2>1 DEF CS, Lanes
  <2>3. cnt' = cnt /\ \A x \in Lanes : qpc'[x] \in {"take", "takeParked"} => qtask'[x] = NoTask
    BY <1>12, <1>a DEF WChk, CInv, Inv, TypeOK, QPCs, HoldQ, Lanes, NoTask
  <2> QED BY <2>2, <2>3 DEF CInv
<1>13. ASSUME NEW j \in Lanes, WTryOwn(j) PROVE CInv'
  <2>1. \A x \in Lanes : Counted(x)' <=> Counted(x)
    BY <1>13, <1>a DEF WTryOwn, Takeover, Counted, CountedPCs, CInv, Inv, TypeOK, QPCs, HoldQ, Lanes, NoTask
  <2>2. CS' = CS
    BY <2>1 DEF CS, Lanes
  <2>3. cnt' = cnt /\ \A x \in Lanes : qpc'[x] \in {"take", "takeParked"} => qtask'[x] = NoTask
    BY <1>13, <1>a DEF WTryOwn, Takeover, CInv, Inv, TypeOK, QPCs, HoldQ, Lanes, NoTask
  <2> QED BY <2>2, <2>3 DEF CInv
<1>14. ASSUME NEW j \in Lanes, WListen(j) PROVE CInv'
  <2>1. \A x \in Lanes : Counted(x)' <=> Counted(x)
    BY <1>14, <1>a DEF WListen, Takeover, Counted, CountedPCs, CInv, Inv, TypeOK, QPCs, HoldQ, Lanes, NoTask
  <2>2. CS' = CS
    BY <2>1 DEF CS, Lanes
  <2>3. cnt' = cnt /\ \A x \in Lanes : qpc'[x] \in {"take", "takeParked"} => qtask'[x] = NoTask
    BY <1>14, <1>a DEF WListen, Takeover, CInv, Inv, TypeOK, QPCs, HoldQ, Lanes, NoTask
  <2> QED BY <2>2, <2>3 DEF CInv
<1>15. ASSUME NEW j \in Lanes, WStart(j) PROVE CInv'
  <2>1. \A x \in Lanes : Counted(x)' <=> Counted(x)
    BY <1>15, <1>a DEF WStart, Counted, CountedPCs, CInv, Inv, TypeOK, QPCs, HoldQ, Lanes, NoTask
  <2>2. CS' = CS
    BY <2>1 DEF CS, Lanes
  <2>3. cnt' = cnt /\ \A x \in Lanes : qpc'[x] \in {"take", "takeParked"} => qtask'[x] = NoTask
    BY <1>15, <1>a DEF WStart, CInv, Inv, TypeOK, QPCs, HoldQ, Lanes, NoTask
  <2> QED BY <2>2, <2>3 DEF CInv
<1>16. ASSUME NEW j \in Lanes, WReturn(j) PROVE CInv'
  <2>1. \A x \in Lanes : Counted(x)' <=> Counted(x)
    BY <1>16, <1>a DEF WReturn, Counted, CountedPCs, CInv, Inv, TypeOK, QPCs, HoldQ, Lanes, NoTask
  <2>2. CS' = CS
    BY <2>1 DEF CS, Lanes
  <2>3. cnt' = cnt /\ \A x \in Lanes : qpc'[x] \in {"take", "takeParked"} => qtask'[x] = NoTask
    BY <1>16, <1>a DEF WReturn, CInv, Inv, TypeOK, QPCs, HoldQ, Lanes, NoTask
  <2> QED BY <2>2, <2>3 DEF CInv
<1>17. ASSUME NEW j \in Lanes, WRecover(j) PROVE CInv'
  <2>1. \A x \in Lanes : Counted(x)' <=> Counted(x)
    BY <1>17, <1>a DEF WRecover, Counted, CountedPCs, CInv, Inv, TypeOK, QPCs, HoldQ, Lanes, NoTask
  <2>2. CS' = CS
    BY <2>1 DEF CS, Lanes
  <2>3. cnt' = cnt /\ \A x \in Lanes : qpc'[x] \in {"take", "takeParked"} => qtask'[x] = NoTask
    BY <1>17, <1>a DEF WRecover, CInv, Inv, TypeOK, QPCs, HoldQ, Lanes, NoTask
  <2> QED BY <2>2, <2>3 DEF CInv
<1>18. ASSUME NEW j \in Lanes, WExit(j) PROVE CInv'
  <2>1. \A x \in Lanes : Counted(x)' <=> Counted(x)
    BY <1>18, <1>a DEF WExit, Counted, CountedPCs, CInv, Inv, TypeOK, QPCs, HoldQ, Lanes, NoTask
  <2>2. CS' = CS
    BY <2>1 DEF CS, Lanes
  <2>3. cnt' = cnt /\ \A x \in Lanes : qpc'[x] \in {"take", "takeParked"} => qtask'[x] = NoTask
    BY <1>18, <1>a DEF WExit, CInv, Inv, TypeOK, QPCs, HoldQ, Lanes, NoTask
  <2> QED BY <2>2, <2>3 DEF CInv
<1>19. CASE Cancel
  <2>1. \A x \in Lanes : Counted(x)' <=> Counted(x)
    BY <1>19, <1>a DEF Cancel, Counted, CountedPCs, CInv, Inv, TypeOK, QPCs, HoldQ, Lanes, NoTask
  <2>2. CS' = CS
    BY <2>1 DEF CS, Lanes
  <2>3. cnt' = cnt /\ \A x \in Lanes : qpc'[x] \in {"take", "takeParked"} => qtask'[x] = NoTask
    BY <1>19, <1>a DEF Cancel, CInv, Inv, TypeOK, QPCs, HoldQ, Lanes, NoTask
  <2> QED BY <2>2, <2>3 DEF CInv
<1>20. CASE WaitRet
  <2>1. \A x \in Lanes : Counted(x)' <=> Counted(x)
    BY <1>20, <1>a DEF WaitRet, Counted, CountedPCs, CInv, Inv, TypeOK, QPCs, HoldQ, Lanes, NoTask
  <2>2. CS' = CS
    BY <2>1 DEF CS, Lanes
  <2>3. cnt' = cnt /\ \A x \in Lanes : qpc'[x] \in {"take", "takeParked"} => qtask'[x] = NoTask
    BY <1>20, <1>a DEF WaitRet, CInv, Inv, TypeOK, QPCs, HoldQ, Lanes, NoTask
  <2> QED BY <2>2, <2>3 DEF CInv
<1>21. CASE SBegin \/ SLen \/ SCnt \/ SLast
  <2>1. \A x \in Lanes : Counted(x)' <=> Counted(x)
    BY <1>21, <1>a DEF SBegin, SLen, SCnt, SLast, Counted, CountedPCs, CInv, Inv, TypeOK, QPCs, HoldQ, Lanes, NoTask
  <2>2. CS' = CS
    BY <2>1 DEF CS, Lanes
  <2>3. cnt' = cnt /\ \A x \in Lanes : qpc'[x] \in {"take", "takeParked"} => qtask'[x] = NoTask
    BY <1>21, <1>a DEF SBegin, SLen, SCnt, SLast, CInv, Inv, TypeOK, QPCs, HoldQ, Lanes, NoTask
  <2> QED BY <2>2, <2>3 DEF CInv
<1>22. CASE UNCHANGED vars
  BY <1>22 DEF vars, CInv, CS, Counted
<1> QED BY <1>1, <1>2, <1>3, <1>4, <1>5, <1>6, <1>7, <1>8, <1>9, <1>10, <1>11, <1>12, <1>13, <1>14, <1>15, <1>16, <1>17, <1>18, <1>19, <1>20, <1>21, <1>22 DEF Next, Internal

LEMMA CountBound == Inv /\ CInv => CntBounds
  BY CSFinite DEF CInv, CntBounds

THEOREM CountSafety == Spec => []CntBounds
<1>1. Init => Inv /\ CInv
  BY InitInv, CInit
<1>2. (Inv /\ CInv) /\ [Next]_vars => (Inv /\ CInv)'
  BY NextInv, CNext
<1>3. Inv /\ CInv => CntBounds
  BY CountBound
<1> QED BY <1>1, <1>2, <1>3, PTL DEF Spec
=============================================================================
