------------------------------ MODULE TaskLaneStepA ------------------------------
(* Part of the inductive step of TaskLaneProof: Inv is preserved by the actions named in the lemmas below. *)
EXTENDS TaskLaneInv

LEMMA Step_PCall == ASSUME Inv PROVE \A p \in Prods : PCall(p) => Inv'
<1> USE Assump
<1>1. ASSUME NEW p \in Prods, PCall(p) PROVE Inv'
  <2>1. TypeOK'
    BY <1>1, NextTaskOK DEF Inv, PCall, Pushed, TypeOK, ProdOK, QPCs, WPCs, PPCs, Results, Lanes, NoTask
  <2>2. ProdOK'
    BY <1>1, NextTaskOK DEF Inv, PCall, Pushed, TypeOK, ProdOK, QPCs, WPCs, PPCs, Results, Lanes, NoTask
  <2>3. OneResult'
    BY <1>1, NextTaskOK DEF Inv, PCall, Pushed, TypeOK, ProdOK, OneResult, PPCs, Results, Lanes, NoTask
  <2>4. AcceptedFirst'
    BY <1>1, NextTaskOK DEF Inv, PCall, Pushed, TypeOK, ProdOK, AcceptedFirst, InSys, InBuf, HeldQ, AtStart, HoldQ, QPCs, WPCs, PPCs, Results, Lanes, NoTask
  <2>5. Unique'
    <3>1. U1'
      BY <1>1, NextTaskOK DEF Inv, PCall, Pushed, TypeOK, ProdOK, AcceptedFirst, Unique, U1, U2, U3, U4, U5, U6, U7, U8, U9, U10, U11, U12, AtMostOnce, InSys, InBuf, HeldQ, AtStart, HoldQ, QPCs, WPCs, PPCs, Results, Lanes, NoTask
    <3>2. U2'
      BY <1>1, NextTaskOK DEF Inv, PCall, Pushed, TypeOK, ProdOK, AcceptedFirst, Unique, U1, U2, U3, U4, U5, U6, U7, U8, U9, U10, U11, U12, AtMostOnce, InSys, InBuf, HeldQ, AtStart, HoldQ, QPCs, WPCs, PPCs, Results, Lanes, NoTask
    <3>3. U3'
      BY <1>1, NextTaskOK DEF Inv, PCall, Pushed, TypeOK, ProdOK, AcceptedFirst, Unique, U1, U2, U3, U4, U5, U6, U7, U8, U9, U10, U11, U12, AtMostOnce, InSys, InBuf, HeldQ, AtStart, HoldQ, QPCs, WPCs, PPCs, Results, Lanes, NoTask
    <3>4. U4'
      BY <1>1, NextTaskOK DEF Inv, PCall, Pushed, TypeOK, ProdOK, AcceptedFirst, Unique, U1, U2, U3, U4, U5, U6, U7, U8, U9, U10, U11, U12, AtMostOnce, InSys, InBuf, HeldQ, AtStart, HoldQ, QPCs, WPCs, PPCs, Results, Lanes, NoTask
    <3>5. U5'
      BY <1>1, NextTaskOK DEF Inv, PCall, Pushed, TypeOK, ProdOK, AcceptedFirst, Unique, U1, U2, U3, U4, U5, U6, U7, U8, U9, U10, U11, U12, AtMostOnce, InSys, InBuf, HeldQ, AtStart, HoldQ, QPCs, WPCs, PPCs, Results, Lanes, NoTask
    <3>6. U6'
      BY <1>1, NextTaskOK DEF Inv, PCall, Pushed, TypeOK, ProdOK, AcceptedFirst, Unique, U1, U2, U3, U4, U5, U6, U7, U8, U9, U10, U11, U12, AtMostOnce, InSys, InBuf, HeldQ, AtStart, HoldQ, QPCs, WPCs, PPCs, Results, Lanes, NoTask
    <3>7. U7'
      BY <1>1, NextTaskOK DEF Inv, PCall, Pushed, TypeOK, ProdOK, AcceptedFirst, Unique, U1, U2, U3, U4, U5, U6, U7, U8, U9, U10, U11, U12, AtMostOnce, InSys, InBuf, HeldQ, AtStart, HoldQ, QPCs, WPCs, PPCs, Results, Lanes, NoTask
    <3>8. U8'
      BY <1>1, NextTaskOK DEF Inv, PCall, Pushed, TypeOK, ProdOK, AcceptedFirst, Unique, U1, U2, U3, U4, U5, U6, U7, U8, U9, U10, U11, U12, AtMostOnce, InSys, InBuf, HeldQ, AtStart, HoldQ, QPCs, WPCs, PPCs, Results, Lanes, NoTask
    <3>9. U9'
      BY <1>1, NextTaskOK DEF Inv, PCall, Pushed, TypeOK, ProdOK, AcceptedFirst, Unique, U1, U2, U3, U4, U5, U6, U7, U8, U9, U10, U11, U12, AtMostOnce, InSys, InBuf, HeldQ, AtStart, HoldQ, QPCs, WPCs, PPCs, Results, Lanes, NoTask
    <3>10. U10'
      BY <1>1, NextTaskOK DEF Inv, PCall, Pushed, TypeOK, ProdOK, AcceptedFirst, Unique, U1, U2, U3, U4, U5, U6, U7, U8, U9, U10, U11, U12, AtMostOnce, InSys, InBuf, HeldQ, AtStart, HoldQ, QPCs, WPCs, PPCs, Results, Lanes, NoTask
    <3>11. U11'
      BY <1>1, NextTaskOK DEF Inv, PCall, Pushed, TypeOK, ProdOK, AcceptedFirst, Unique, U1, U2, U3, U4, U5, U6, U7, U8, U9, U10, U11, U12, AtMostOnce, InSys, InBuf, HeldQ, AtStart, HoldQ, QPCs, WPCs, PPCs, Results, Lanes, NoTask
    <3>12. U12'
      BY <1>1, NextTaskOK DEF Inv, PCall, Pushed, TypeOK, ProdOK, AcceptedFirst, Unique, U1, U2, U3, U4, U5, U6, U7, U8, U9, U10, U11, U12, AtMostOnce, InSys, InBuf, HeldQ, AtStart, HoldQ, QPCs, WPCs, PPCs, Results, Lanes, NoTask
    <3> QED BY <3>1, <3>2, <3>3, <3>4, <3>5, <3>6, <3>7, <3>8, <3>9, <3>10, <3>11, <3>12 DEF Unique
  <2>6. Late'
    BY <1>1, NextTaskOK DEF Inv, PCall, Pushed, TypeOK, ProdOK, Late, PostCancelReject, PPCs, Results, Lanes, NoTask
  <2>7. Quiet'
    BY <1>1, NextTaskOK DEF Inv, PCall, Pushed, TypeOK, Quiet, AllGone, QPCs, WPCs, Lanes
  <2> QED BY <2>1, <2>2, <2>3, <2>4, <2>5, <2>6, <2>7 DEF Inv
<1> QED BY <1>1

LEMMA Step_POuter == ASSUME Inv PROVE \A p \in Prods : POuter(p) => Inv'
<1> USE Assump
<1>2. ASSUME NEW p \in Prods, POuter(p) PROVE Inv'
  <2>1. TypeOK'
    BY <1>2 DEF Inv, POuter, Return, TypeOK, ProdOK, QPCs, WPCs, PPCs, Results, Lanes, NoTask
  <2>2. ProdOK'
    BY <1>2 DEF Inv, POuter, Return, TypeOK, ProdOK, QPCs, WPCs, PPCs, Results, Lanes, NoTask
  <2>3. OneResult'
    BY <1>2 DEF Inv, POuter, Return, TypeOK, ProdOK, OneResult, PPCs, Results, Lanes, NoTask
  <2>4. AcceptedFirst'
    BY <1>2 DEF Inv, POuter, Return, TypeOK, ProdOK, AcceptedFirst, InSys, InBuf, HeldQ, AtStart, HoldQ, QPCs, WPCs, PPCs, Results, Lanes, NoTask
  <2>5. Unique'
    <3>1. U1'
      BY <1>2 DEF Inv, POuter, Return, TypeOK, ProdOK, AcceptedFirst, Unique, U1, U2, U3, U4, U5, U6, U7, U8, U9, U10, U11, U12, AtMostOnce, InSys, InBuf, HeldQ, AtStart, HoldQ, QPCs, WPCs, PPCs, Results, Lanes, NoTask
    <3>2. U2'
      BY <1>2 DEF Inv, POuter, Return, TypeOK, ProdOK, AcceptedFirst, Unique, U1, U2, U3, U4, U5, U6, U7, U8, U9, U10, U11, U12, AtMostOnce, InSys, InBuf, HeldQ, AtStart, HoldQ, QPCs, WPCs, PPCs, Results, Lanes, NoTask
    <3>3. U3'
      BY <1>2 DEF Inv, POuter, Return, TypeOK, ProdOK, AcceptedFirst, Unique, U1, U2, U3, U4, U5, U6, U7, U8, U9, U10, U11, U12, AtMostOnce, InSys, InBuf, HeldQ, AtStart, HoldQ, QPCs, WPCs, PPCs, Results, Lanes, NoTask
    <3>4. U4'
      BY <1>2 DEF Inv, POuter, Return, TypeOK, ProdOK, AcceptedFirst, Unique, U1, U2, U3, U4, U5, U6, U7, U8, U9, U10, U11, U12, AtMostOnce, InSys, InBuf, HeldQ, AtStart, HoldQ, QPCs, WPCs, PPCs, Results, Lanes, NoTask
    <3>5. U5'
      BY <1>2 DEF Inv, POuter, Return, TypeOK, ProdOK, AcceptedFirst, Unique, U1, U2, U3, U4, U5, U6, U7, U8, U9, U10, U11, U12, AtMostOnce, InSys, InBuf, HeldQ, AtStart, HoldQ, QPCs, WPCs, PPCs, Results, Lanes, NoTask
    <3>6. U6'
      BY <1>2 DEF Inv, POuter, Return, TypeOK, ProdOK, AcceptedFirst, Unique, U1, U2, U3, U4, U5, U6, U7, U8, U9, U10, U11, U12, AtMostOnce, InSys, InBuf, HeldQ, AtStart, HoldQ, QPCs, WPCs, PPCs, Results, Lanes, NoTask
    <3>7. U7'
      BY <1>2 DEF Inv, POuter, Return, TypeOK, ProdOK, AcceptedFirst, Unique, U1, U2, U3, U4, U5, U6, U7, U8, U9, U10, U11, U12, AtMostOnce, InSys, InBuf, HeldQ, AtStart, HoldQ, QPCs, WPCs, PPCs, Results, Lanes, NoTask
    <3>8. U8'
      BY <1>2 DEF Inv, POuter, Return, TypeOK, ProdOK, AcceptedFirst, Unique, U1, U2, U3, U4, U5, U6, U7, U8, U9, U10, U11, U12, AtMostOnce, InSys, InBuf, HeldQ, AtStart, HoldQ, QPCs, WPCs, PPCs, Results, Lanes, NoTask
    <3>9. U9'
      BY <1>2 DEF Inv, POuter, Return, TypeOK, ProdOK, AcceptedFirst, Unique, U1, U2, U3, U4, U5, U6, U7, U8, U9, U10, U11, U12, AtMostOnce, InSys, InBuf, HeldQ, AtStart, HoldQ, QPCs, WPCs, PPCs, Results, Lanes, NoTask
    <3>10. U10'
      BY <1>2 DEF Inv, POuter, Return, TypeOK, ProdOK, AcceptedFirst, Unique, U1, U2, U3, U4, U5, U6, U7, U8, U9, U10, U11, U12, AtMostOnce, InSys, InBuf, HeldQ, AtStart, HoldQ, QPCs, WPCs, PPCs, Results, Lanes, NoTask
    <3>11. U11'
      BY <1>2 DEF Inv, POuter, Return, TypeOK, ProdOK, AcceptedFirst, Unique, U1, U2, U3, U4, U5, U6, U7, U8, U9, U10, U11, U12, AtMostOnce, InSys, InBuf, HeldQ, AtStart, HoldQ, QPCs, WPCs, PPCs, Results, Lanes, NoTask
    <3>12. U12'
      BY <1>2 DEF Inv, POuter, Return, TypeOK, ProdOK, AcceptedFirst, Unique, U1, U2, U3, U4, U5, U6, U7, U8, U9, U10, U11, U12, AtMostOnce, InSys, InBuf, HeldQ, AtStart, HoldQ, QPCs, WPCs, PPCs, Results, Lanes, NoTask
    <3> QED BY <3>1, <3>2, <3>3, <3>4, <3>5, <3>6, <3>7, <3>8, <3>9, <3>10, <3>11, <3>12 DEF Unique
  <2>6. Late'
    BY <1>2 DEF Inv, POuter, Return, TypeOK, ProdOK, Late, PostCancelReject, PPCs, Results, Lanes, NoTask
  <2>7. Quiet'
    BY <1>2 DEF Inv, POuter, Return, TypeOK, Quiet, AllGone, QPCs, WPCs, Lanes
  <2> QED BY <2>1, <2>2, <2>3, <2>4, <2>5, <2>6, <2>7 DEF Inv
<1> QED BY <1>2

LEMMA Step_PTimeout == ASSUME Inv PROVE \A p \in Prods : PTimeout(p) => Inv'
<1> USE Assump
<1>4. ASSUME NEW p \in Prods, PTimeout(p) PROVE Inv'
  <2>1. TypeOK'
    BY <1>4 DEF Inv, PTimeout, Return, TypeOK, ProdOK, QPCs, WPCs, PPCs, Results, Lanes, NoTask
  <2>2. ProdOK'
    BY <1>4 DEF Inv, PTimeout, Return, TypeOK, ProdOK, QPCs, WPCs, PPCs, Results, Lanes, NoTask
  <2>3. OneResult'
    BY <1>4 DEF Inv, PTimeout, Return, TypeOK, ProdOK, OneResult, PPCs, Results, Lanes, NoTask
  <2>4. AcceptedFirst'
    BY <1>4 DEF Inv, PTimeout, Return, TypeOK, ProdOK, AcceptedFirst, InSys, InBuf, HeldQ, AtStart, HoldQ, QPCs, WPCs, PPCs, Results, Lanes, NoTask
  <2>5. Unique'
    <3>1. U1'
      BY <1>4 DEF Inv, PTimeout, Return, TypeOK, ProdOK, AcceptedFirst, Unique, U1, U2, U3, U4, U5, U6, U7, U8, U9, U10, U11, U12, AtMostOnce, InSys, InBuf, HeldQ, AtStart, HoldQ, QPCs, WPCs, PPCs, Results, Lanes, NoTask
    <3>2. U2'
      BY <1>4 DEF Inv, PTimeout, Return, TypeOK, ProdOK, AcceptedFirst, Unique, U1, U2, U3, U4, U5, U6, U7, U8, U9, U10, U11, U12, AtMostOnce, InSys, InBuf, HeldQ, AtStart, HoldQ, QPCs, WPCs, PPCs, Results, Lanes, NoTask
    <3>3. U3'
      BY <1>4 DEF Inv, PTimeout, Return, TypeOK, ProdOK, AcceptedFirst, Unique, U1, U2, U3, U4, U5, U6, U7, U8, U9, U10, U11, U12, AtMostOnce, InSys, InBuf, HeldQ, AtStart, HoldQ, QPCs, WPCs, PPCs, Results, Lanes, NoTask
    <3>4. U4'
      BY <1>4 DEF Inv, PTimeout, Return, TypeOK, ProdOK, AcceptedFirst, Unique, U1, U2, U3, U4, U5, U6, U7, U8, U9, U10, U11, U12, AtMostOnce, InSys, InBuf, HeldQ, AtStart, HoldQ, QPCs, WPCs, PPCs, Results, Lanes, NoTask
    <3>5. U5'
      BY <1>4 DEF Inv, PTimeout, Return, TypeOK, ProdOK, AcceptedFirst, Unique, U1, U2, U3, U4, U5, U6, U7, U8, U9, U10, U11, U12, AtMostOnce, InSys, InBuf, HeldQ, AtStart, HoldQ, QPCs, WPCs, PPCs, Results, Lanes, NoTask
    <3>6. U6'
      BY <1>4 DEF Inv, PTimeout, Return, TypeOK, ProdOK, AcceptedFirst, Unique, U1, U2, U3, U4, U5, U6, U7, U8, U9, U10, U11, U12, AtMostOnce, InSys, InBuf, HeldQ, AtStart, HoldQ, QPCs, WPCs, PPCs, Results, Lanes, NoTask
    <3>7. U7'
      BY <1>4 DEF Inv, PTimeout, Return, TypeOK, ProdOK, AcceptedFirst, Unique, U1, U2, U3, U4, U5, U6, U7, U8, U9, U10, U11, U12, AtMostOnce, InSys, InBuf, HeldQ, AtStart, HoldQ, QPCs, WPCs, PPCs, Results, Lanes, NoTask
    <3>8. U8'
      BY <1>4 DEF Inv, PTimeout, Return, TypeOK, ProdOK, AcceptedFirst, Unique, U1, U2, U3, U4, U5, U6, U7, U8, U9, U10, U11, U12, AtMostOnce, InSys, InBuf, HeldQ, AtStart, HoldQ, QPCs, WPCs, PPCs, Results, Lanes, NoTask
    <3>9. U9'
      BY <1>4 DEF Inv, PTimeout, Return, TypeOK, ProdOK, AcceptedFirst, Unique, U1, U2, U3, U4, U5, U6, U7, U8, U9, U10, U11, U12, AtMostOnce, InSys, InBuf, HeldQ, AtStart, HoldQ, QPCs, WPCs, PPCs, Results, Lanes, NoTask
    <3>10. U10'
      BY <1>4 DEF Inv, PTimeout, Return, TypeOK, ProdOK, AcceptedFirst, Unique, U1, U2, U3, U4, U5, U6, U7, U8, U9, U10, U11, U12, AtMostOnce, InSys, InBuf, HeldQ, AtStart, HoldQ, QPCs, WPCs, PPCs, Results, Lanes, NoTask
    <3>11. U11'
      BY <1>4 DEF Inv, PTimeout, Return, TypeOK, ProdOK, AcceptedFirst, Unique, U1, U2, U3, U4, U5, U6, U7, U8, U9, U10, U11, U12, AtMostOnce, InSys, InBuf, HeldQ, AtStart, HoldQ, QPCs, WPCs, PPCs, Results, Lanes, NoTask
    <3>12. U12'
      BY <1>4 DEF Inv, PTimeout, Return, TypeOK, ProdOK, AcceptedFirst, Unique, U1, U2, U3, U4, U5, U6, U7, U8, U9, U10, U11, U12, AtMostOnce, InSys, InBuf, HeldQ, AtStart, HoldQ, QPCs, WPCs, PPCs, Results, Lanes, NoTask
    <3> QED BY <3>1, <3>2, <3>3, <3>4, <3>5, <3>6, <3>7, <3>8, <3>9, <3>10, <3>11, <3>12 DEF Unique
  <2>6. Late'
    BY <1>4 DEF Inv, PTimeout, Return, TypeOK, ProdOK, Late, PostCancelReject, PPCs, Results, Lanes, NoTask
  <2>7. Quiet'
    BY <1>4 DEF Inv, PTimeout, Return, TypeOK, Quiet, AllGone, QPCs, WPCs, Lanes
  <2> QED BY <2>1, <2>2, <2>3, <2>4, <2>5, <2>6, <2>7 DEF Inv
<1> QED BY <1>4

=============================================================================
