--------------------------- MODULE TaskLaneShareProof ---------------------------
(***************************************************************************)
(* Unbounded proof of the sharing invariant of TaskLane.tla (C08), for ANY *)
(* number of lanes, queue size, tasks and producers, with work sharing on: *)
(* while the context is live, no queue goroutine is parked offering a task *)
(* while some worker is parked listening (NoIdleWhileWaiting) - a waiting  *)
(* task and an idle worker always meet, whatever lane the task was pushed  *)
(* to.  The no-sharing mutant (Sharing = FALSE) violates it in TLC.        *)
(***************************************************************************)
EXTENDS TaskLane, FiniteSetTheorems, TLAPS

ASSUME ShareAssump == N \in Nat \ {0} /\ Sharing = TRUE

QPCs == {"take", "takeParked", "inc", "chk", "tryOwn", "offer", "offerParked", "dec", "exit", "gone"}
WPCs == {"chk", "tryOwn", "listen", "listenParked", "start", "running", "recover", "exit", "gone"}
PcOK == ctx \in {"live", "done"} /\ qpc \in [Lanes -> QPCs] /\ wpc \in [Lanes -> WPCs]
SInv == PcOK /\ NoIdleWhileWaiting

LEMMA SInit == Init => SInv
  BY ShareAssump DEF Init, SInv, PcOK, NoIdleWhileWaiting, QPCs, WPCs, Lanes

LEMMA SNext == SInv /\ [Next]_vars => SInv'
<1> SUFFICES ASSUME SInv, [Next]_vars PROVE SInv'
  OBVIOUS
<1> USE ShareAssump DEF SInv, PcOK, NoIdleWhileWaiting, QPCs, WPCs, Lanes
<1>1. ASSUME NEW p \in Prods, PCall(p) PROVE SInv'
  BY <1>1 DEF PCall
<1>2. ASSUME NEW p \in Prods, POuter(p) PROVE SInv'
  BY <1>2 DEF POuter, Return
<1>3. ASSUME NEW p \in Prods, PInner(p) PROVE SInv'
  BY <1>3 DEF PInner, Return, SendReady, DoSend
<1>4. ASSUME NEW p \in Prods, PTimeout(p) PROVE SInv'
  BY <1>4 DEF PTimeout, Return
<1>5. ASSUME NEW i \in Lanes, QTake(i) PROVE SInv'
  BY <1>5 DEF QTake, Return, ParkedSenders
<1>6. ASSUME NEW i \in Lanes, QInc(i) PROVE SInv'
  BY <1>6 DEF QInc
<1>7. ASSUME NEW i \in Lanes, QChk(i) PROVE SInv'
  BY <1>7 DEF QChk
<1>8. ASSUME NEW i \in Lanes, QTryOwn(i) PROVE SInv'
  BY <1>8 DEF QTryOwn, Handover
<1>9. ASSUME NEW i \in Lanes, QOffer(i) PROVE SInv'
  BY <1>9 DEF QOffer, Handover
<1>10. ASSUME NEW i \in Lanes, QDec(i) PROVE SInv'
  BY <1>10 DEF QDec
<1>11. ASSUME NEW i \in Lanes, QExit(i) PROVE SInv'
  BY <1>11 DEF QExit
<1>12. ASSUME NEW j \in Lanes, WChk(j) PROVE SInv'
  BY <1>12 DEF WChk
<1>13. ASSUME NEW j \in Lanes, WTryOwn(j) PROVE SInv'
  BY <1>13 DEF WTryOwn, Takeover
<1>14. ASSUME NEW j \in Lanes, WListen(j) PROVE SInv'
  BY <1>14 DEF WListen, Takeover
<1>15. ASSUME NEW j \in Lanes, WStart(j) PROVE SInv'
  BY <1>15 DEF WStart
<1>16. ASSUME NEW j \in Lanes, WReturn(j) PROVE SInv'
  BY <1>16 DEF WReturn
<1>17. ASSUME NEW j \in Lanes, WRecover(j) PROVE SInv'
  BY <1>17 DEF WRecover
<1>18. ASSUME NEW j \in Lanes, WExit(j) PROVE SInv'
  BY <1>18 DEF WExit
<1>19. CASE Cancel
  BY <1>19 DEF Cancel
<1>20. CASE WaitRet
  BY <1>20 DEF WaitRet
<1>21. CASE SBegin \/ SLen \/ SCnt \/ SLast
  BY <1>21 DEF SBegin, SLen, SCnt, SLast
<1>22. CASE UNCHANGED vars
  BY <1>22 DEF vars
<1> QED BY <1>1, <1>2, <1>3, <1>4, <1>5, <1>6, <1>7, <1>8, <1>9, <1>10, <1>11, <1>12, <1>13, <1>14, <1>15, <1>16, <1>17, <1>18, <1>19, <1>20, <1>21, <1>22 DEF Next, Internal

THEOREM Sharing_Safety == Spec => []NoIdleWhileWaiting
<1>1. SInv => NoIdleWhileWaiting
  BY DEF SInv
<1> QED BY SInit, SNext, <1>1, PTL DEF Spec

(* At no instant are more than laneSize tasks executing: the running tasks are those of workers in "running", one per lane. *)
THEOREM RunningBound == AtMostNRunning
<1>1. IsFiniteSet(1..N) /\ Cardinality(1..N) = N
  BY ShareAssump, FS_Interval
<1>2. Running \in SUBSET (1..N)
  BY DEF Running, Lanes
<1>3. Cardinality(Running) <= Cardinality(1..N)
  BY <1>1, <1>2, FS_Subset
<1> QED BY <1>1, <1>3 DEF AtMostNRunning
=============================================================================
