--------------------------- MODULE TaskLaneStatusProof ---------------------------
(***************************************************************************)
(* Unbounded proof of the Status() bound of TaskLane.tla (C14), for ANY    *)
(* number of lanes N, queue size Q, tasks and producers: every value that  *)
(* Status() returns as PendingTask lies in 0 .. N * (Q + 1), although the  *)
(* reader adds up the buffer lengths lane by lane and then the counter     *)
(* while queue goroutines and producers keep running (StatusBounds).       *)
(* Uses CntBounds (TaskLaneCountProof) and the buffer bound Len(buf[i])<=Q.*)
(***************************************************************************)
EXTENDS TaskLaneCountProof

BufBound == \A i \in Lanes : Len(buf[i]) <= Q
SInv == /\ BufBound
        /\ spc \in {"idle", "lens", "cnt", "last"} /\ slane \in Lanes /\ ssum \in Nat
        /\ (spc = "lens" => ssum <= (slane - 1) * Q)
        /\ (spc = "cnt" => ssum <= N * Q)
        /\ (spc = "last" => ssum <= N * Q + N)
        /\ StatusBounds

LEMMA Arith == ASSUME NEW k \in Nat, NEW q \in Nat PROVE (k + 1) * q = k * q + q /\ k * q \in Nat /\ k * (q + 1) = k * q + k
  OBVIOUS

LEMMA SInit == Init => SInv
  BY Assump DEF Init, SInv, BufBound, StatusBounds, Lanes

LEMMA SNext == Inv /\ CInv /\ SInv /\ [Next]_vars => SInv'
<1> SUFFICES ASSUME Inv, CInv, SInv, [Next]_vars PROVE SInv'
  OBVIOUS
<1> USE Assump
<1>c. cnt \in 0..N
  BY CountBound DEF CntBounds
<1>n. N * Q \in Nat /\ N * (Q + 1) = N * Q + N
  BY Arith
<1>t. buf \in [Lanes -> Seq(Tasks)]
  BY DEF Inv, TypeOK
<1>1. ASSUME NEW p \in Prods, PInner(p) PROVE SInv'
  <2>1. BufBound'
    <3>1. CASE buf' = buf
      BY <3>1 DEF SInv, BufBound
    <3>2. CASE buf' # buf
      <4>1. PICK i0 \in Lanes : Len(buf[i0]) < Q /\ buf' = [buf EXCEPT ![i0] = Append(buf[i0], pcur[p])]
        BY <1>1, <3>2, <1>t DEF PInner, DoSend, SendReady, Return, Inv, TypeOK, ProdOK, PPCs, NoTask
      <4>2. Len(buf'[i0]) = Len(buf[i0]) + 1 /\ \A x \in Lanes : x # i0 => buf'[x] = buf[x]
        BY <4>1, <1>t
      <4>3. \A x \in Lanes : Len(buf[x]) \in Nat /\ Len(buf[x]) <= Q
        BY <1>t DEF SInv, BufBound
      <4>4. ASSUME NEW x \in Lanes PROVE Len(buf'[x]) <= Q
        <5>1. CASE x = i0
          BY <5>1, <4>1, <4>2, <4>3
        <5>2. CASE x # i0
          BY <5>2, <4>2, <4>3
        <5> QED BY <5>1, <5>2
      <4> QED BY <4>4 DEF BufBound
    <3> QED BY <3>1, <3>2
  <2>2. UNCHANGED <<spc, ssum, slane, sres>>
    BY <1>1 DEF PInner
  <2> QED BY <2>1, <2>2 DEF SInv, StatusBounds
<1>2. ASSUME NEW i \in Lanes, QTake(i) PROVE SInv'
  <2>1. BufBound'
    <3>1. CASE buf' = buf
      BY <3>1 DEF SInv, BufBound
    <3>2. CASE buf' # buf
      <4>0. buf[i] \in Seq(Tasks) /\ Len(buf[i]) > 0
        BY <1>2, <3>2, <1>t DEF QTake
      <4>1. \/ buf' = [buf EXCEPT ![i] = Tail(buf[i])]
            \/ \E p \in Prods : pcur[p] \in Tasks /\ buf' = [buf EXCEPT ![i] = Append(Tail(buf[i]), pcur[p])]
        BY <1>2, <3>2 DEF QTake, ParkedSenders, Return, Inv, TypeOK, ProdOK, PPCs, NoTask
      <4>2. Len(buf'[i]) <= Len(buf[i]) /\ Len(buf'[i]) \in Nat /\ \A x \in Lanes : x # i => buf'[x] = buf[x]
        <5>1. CASE buf' = [buf EXCEPT ![i] = Tail(buf[i])]
          <6>1. Tail(buf[i]) \in Seq(Tasks) /\ Len(Tail(buf[i])) = Len(buf[i]) - 1
            BY <4>0, TailFacts
          <6> QED BY <5>1, <6>1, <4>0, <1>t
        <5>2. CASE \E p \in Prods : pcur[p] \in Tasks /\ buf' = [buf EXCEPT ![i] = Append(Tail(buf[i]), pcur[p])]
          <6>0. PICK p \in Prods : pcur[p] \in Tasks /\ buf' = [buf EXCEPT ![i] = Append(Tail(buf[i]), pcur[p])]
            BY <5>2
          <6>1. Append(Tail(buf[i]), pcur[p]) \in Seq(Tasks) /\ Len(Append(Tail(buf[i]), pcur[p])) = Len(buf[i])
            BY <4>0, <6>0, AppTailFacts
          <6> QED BY <6>0, <6>1, <4>0, <1>t
        <5> QED BY <4>1, <5>1, <5>2
      <4>3. \A x \in Lanes : Len(buf[x]) \in Nat /\ Len(buf[x]) <= Q
        BY <1>t DEF SInv, BufBound
      <4>4. ASSUME NEW x \in Lanes PROVE Len(buf'[x]) <= Q
        <5>1. CASE x = i
          BY <5>1, <4>2, <4>3
        <5>2. CASE x # i
          BY <5>2, <4>2, <4>3
        <5> QED BY <5>1, <5>2
      <4> QED BY <4>4 DEF BufBound
    <3> QED BY <3>1, <3>2
  <2>2. UNCHANGED <<spc, ssum, slane, sres>>
    BY <1>2 DEF QTake
  <2> QED BY <2>1, <2>2 DEF SInv, StatusBounds
<1>3. CASE SBegin
  BY <1>3, <1>n DEF SBegin, SInv, BufBound, StatusBounds, Lanes
<1>4. CASE SLen
  <2>1. Len(buf[slane]) <= Q /\ Len(buf[slane]) \in Nat
    BY <1>t DEF SInv, BufBound
  <2>2. spc = "lens" /\ ssum <= (slane - 1) * Q /\ slane \in 1..N /\ ssum \in Nat
    BY <1>4 DEF SLen, SInv, Lanes
  <2>3. (slane - 1) * Q + Q = slane * Q /\ (slane - 1) * Q \in Nat
    BY <2>2, Arith
  <2>4. ssum' = ssum + Len(buf[slane]) /\ ssum' <= slane * Q /\ ssum' \in Nat
    BY <1>4, <2>1, <2>2, <2>3 DEF SLen
  <2>5. CASE slane = N
    BY <1>4, <2>4, <2>5 DEF SLen, SInv, BufBound, StatusBounds, Lanes
  <2>6. CASE slane # N
    <3>1. slane' = slane + 1 /\ spc' = "lens" /\ slane' \in Lanes /\ (slane' - 1) * Q = slane * Q
      BY <1>4, <2>6, <2>2 DEF SLen, Lanes
    <3> QED BY <1>4, <2>4, <3>1 DEF SLen, SInv, BufBound, StatusBounds
  <2> QED BY <2>5, <2>6
<1>5. CASE SCnt
  BY <1>5, <1>c, <1>n DEF SCnt, SInv, BufBound, StatusBounds, Lanes
<1>6. CASE SLast
  <2>1. spc = "last" /\ ssum <= N * Q + N /\ ssum \in Nat /\ sres' = sres \cup {<<ssum, lastPanic>>}
    BY <1>6 DEF SLast, SInv
  <2>2. ssum \in 0..(N * (Q + 1))
    BY <2>1, <1>n
  <2> QED BY <1>6, <2>1, <2>2 DEF SLast, SInv, BufBound, StatusBounds, Lanes
<1>7. ASSUME NEW p \in Prods, PCall(p) PROVE SInv'
  BY <1>7 DEF PCall, SInv, BufBound, StatusBounds
<1>8. ASSUME NEW p \in Prods, POuter(p) PROVE SInv'
  BY <1>8 DEF POuter, Return, SInv, BufBound, StatusBounds
<1>9. ASSUME NEW p \in Prods, PTimeout(p) PROVE SInv'
  BY <1>9 DEF PTimeout, Return, SInv, BufBound, StatusBounds
<1>10. ASSUME NEW i \in Lanes, QInc(i) PROVE SInv'
  BY <1>10 DEF QInc, SInv, BufBound, StatusBounds
<1>11. ASSUME NEW i \in Lanes, QDec(i) PROVE SInv'
  BY <1>11 DEF QDec, SInv, BufBound, StatusBounds
<1>12. ASSUME NEW i \in Lanes, QChk(i) PROVE SInv'
  BY <1>12 DEF QChk, SInv, BufBound, StatusBounds
<1>13. ASSUME NEW i \in Lanes, QTryOwn(i) PROVE SInv'
  BY <1>13 DEF QTryOwn, Handover, SInv, BufBound, StatusBounds
<1>14. ASSUME NEW i \in Lanes, QOffer(i) PROVE SInv'
  BY <1>14 DEF QOffer, Handover, SInv, BufBound, StatusBounds
<1>15. ASSUME NEW i \in Lanes, QExit(i) PROVE SInv'
  BY <1>15 DEF QExit, SInv, BufBound, StatusBounds
<1>16. ASSUME NEW j \in Lanes, WChk(j) PROVE SInv'
  BY <1>16 DEF WChk, SInv, BufBound, StatusBounds
<1>17. ASSUME NEW j \in Lanes, WTryOwn(j) PROVE SInv'
  BY <1>17 DEF WTryOwn, Takeover, SInv, BufBound, StatusBounds
<1>18. ASSUME NEW j \in Lanes, WListen(j) PROVE SInv'
  BY <1>18 DEF WListen, Takeover, SInv, BufBound, StatusBounds
<1>19. ASSUME NEW j \in Lanes, WStart(j) PROVE SInv'
  BY <1>19 DEF WStart, SInv, BufBound, StatusBounds
<1>20. ASSUME NEW j \in Lanes, WReturn(j) PROVE SInv'
  BY <1>20 DEF WReturn, SInv, BufBound, StatusBounds
<1>21. ASSUME NEW j \in Lanes, WRecover(j) PROVE SInv'
  BY <1>21 DEF WRecover, SInv, BufBound, StatusBounds
<1>22. ASSUME NEW j \in Lanes, WExit(j) PROVE SInv'
  BY <1>22 DEF WExit, SInv, BufBound, StatusBounds
<1>23. CASE Cancel
  BY <1>23 DEF Cancel, SInv, BufBound, StatusBounds
<1>24. CASE WaitRet
  BY <1>24 DEF WaitRet, SInv, BufBound, StatusBounds
<1>25. CASE UNCHANGED vars
  BY <1>25 DEF vars, SInv, BufBound, StatusBounds
<1> QED BY <1>1, <1>2, <1>3, <1>4, <1>5, <1>6, <1>7, <1>8, <1>9, <1>10, <1>11, <1>12, <1>13, <1>14, <1>15, <1>16, <1>17, <1>18, <1>19, <1>20, <1>21, <1>22, <1>23, <1>24, <1>25 DEF Next, Internal

THEOREM StatusSafety == Spec => [](StatusBounds /\ CntBounds)
<1>1. Init => Inv /\ CInv /\ SInv
  BY InitInv, CInit, SInit
<1>2. (Inv /\ CInv /\ SInv) /\ [Next]_vars => (Inv /\ CInv /\ SInv)'
  BY NextInv, CNext, SNext
<1>3. Inv /\ CInv /\ SInv => StatusBounds /\ CntBounds
  BY CountBound DEF SInv
<1> QED BY <1>1, <1>2, <1>3, PTL DEF Spec
=============================================================================
