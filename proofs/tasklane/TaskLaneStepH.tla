------------------------------ MODULE TaskLaneStepH ------------------------------
(* Part of the inductive step of TaskLaneProof: Inv is preserved by the actions named in the lemmas below. *)
EXTENDS TaskLaneInv

LEMMA Step_Cancel == ASSUME Inv PROVE (Cancel) => Inv'
<1> USE Assump
<1>19. CASE Cancel
  <2>1. TypeOK'
    <3>1. \A p \in Prods : ppc[p] = "innerParked" => pcur[p] \in Tasks
      BY DEF Inv, TypeOK, ProdOK, PPCs, NoTask
    <3>2. pres' \subseteq (Tasks \X Results \X BOOLEAN)
      BY <1>19, <3>1 DEF Cancel, Inv, TypeOK, Results
    <3> QED BY <1>19, <3>2 DEF Cancel, Inv, TypeOK, QPCs, WPCs, PPCs, Results, Lanes, NoTask
  <2>2. ProdOK'
    BY <1>19 DEF Inv, Cancel, TypeOK, ProdOK, QPCs, WPCs, PPCs, Results, Lanes, NoTask
  <2>3. OneResult'
    BY <1>19 DEF Inv, Cancel, TypeOK, ProdOK, OneResult, PPCs, Results, Lanes, NoTask
  <2>4. AcceptedFirst'
    BY <1>19 DEF Inv, Cancel, TypeOK, ProdOK, AcceptedFirst, InSys, InBuf, HeldQ, AtStart, HoldQ, QPCs, WPCs, PPCs, Results, Lanes, NoTask
  <2>5. Unique'
    <3>1. U1'
      BY <1>19 DEF Inv, Cancel, TypeOK, ProdOK, AcceptedFirst, Unique, U1, U2, U3, U4, U5, U6, U7, U8, U9, U10, U11, U12, AtMostOnce, InSys, InBuf, HeldQ, AtStart, HoldQ, QPCs, WPCs, PPCs, Results, Lanes, NoTask
    <3>2. U2'
      BY <1>19 DEF Inv, Cancel, TypeOK, ProdOK, AcceptedFirst, Unique, U1, U2, U3, U4, U5, U6, U7, U8, U9, U10, U11, U12, AtMostOnce, InSys, InBuf, HeldQ, AtStart, HoldQ, QPCs, WPCs, PPCs, Results, Lanes, NoTask
    <3>3. U3'
      BY <1>19 DEF Inv, Cancel, TypeOK, ProdOK, AcceptedFirst, Unique, U1, U2, U3, U4, U5, U6, U7, U8, U9, U10, U11, U12, AtMostOnce, InSys, InBuf, HeldQ, AtStart, HoldQ, QPCs, WPCs, PPCs, Results, Lanes, NoTask
    <3>4. U4'
      BY <1>19 DEF Inv, Cancel, TypeOK, ProdOK, AcceptedFirst, Unique, U1, U2, U3, U4, U5, U6, U7, U8, U9, U10, U11, U12, AtMostOnce, InSys, InBuf, HeldQ, AtStart, HoldQ, QPCs, WPCs, PPCs, Results, Lanes, NoTask
    <3>5. U5'
      BY <1>19 DEF Inv, Cancel, TypeOK, ProdOK, AcceptedFirst, Unique, U1, U2, U3, U4, U5, U6, U7, U8, U9, U10, U11, U12, AtMostOnce, InSys, InBuf, HeldQ, AtStart, HoldQ, QPCs, WPCs, PPCs, Results, Lanes, NoTask
    <3>6. U6'
      BY <1>19 DEF Inv, Cancel, TypeOK, ProdOK, AcceptedFirst, Unique, U1, U2, U3, U4, U5, U6, U7, U8, U9, U10, U11, U12, AtMostOnce, InSys, InBuf, HeldQ, AtStart, HoldQ, QPCs, WPCs, PPCs, Results, Lanes, NoTask
    <3>7. U7'
      BY <1>19 DEF Inv, Cancel, TypeOK, ProdOK, AcceptedFirst, Unique, U1, U2, U3, U4, U5, U6, U7, U8, U9, U10, U11, U12, AtMostOnce, InSys, InBuf, HeldQ, AtStart, HoldQ, QPCs, WPCs, PPCs, Results, Lanes, NoTask
    <3>8. U8'
      BY <1>19 DEF Inv, Cancel, TypeOK, ProdOK, AcceptedFirst, Unique, U1, U2, U3, U4, U5, U6, U7, U8, U9, U10, U11, U12, AtMostOnce, InSys, InBuf, HeldQ, AtStart, HoldQ, QPCs, WPCs, PPCs, Results, Lanes, NoTask
    <3>9. U9'
      BY <1>19 DEF Inv, Cancel, TypeOK, ProdOK, AcceptedFirst, Unique, U1, U2, U3, U4, U5, U6, U7, U8, U9, U10, U11, U12, AtMostOnce, InSys, InBuf, HeldQ, AtStart, HoldQ, QPCs, WPCs, PPCs, Results, Lanes, NoTask
    <3>10. U10'
      BY <1>19 DEF Inv, Cancel, TypeOK, ProdOK, AcceptedFirst, Unique, U1, U2, U3, U4, U5, U6, U7, U8, U9, U10, U11, U12, AtMostOnce, InSys, InBuf, HeldQ, AtStart, HoldQ, QPCs, WPCs, PPCs, Results, Lanes, NoTask
    <3>11. U11'
      BY <1>19 DEF Inv, Cancel, TypeOK, ProdOK, AcceptedFirst, Unique, U1, U2, U3, U4, U5, U6, U7, U8, U9, U10, U11, U12, AtMostOnce, InSys, InBuf, HeldQ, AtStart, HoldQ, QPCs, WPCs, PPCs, Results, Lanes, NoTask
    <3>12. U12'
      BY <1>19 DEF Inv, Cancel, TypeOK, ProdOK, AcceptedFirst, Unique, U1, U2, U3, U4, U5, U6, U7, U8, U9, U10, U11, U12, AtMostOnce, InSys, InBuf, HeldQ, AtStart, HoldQ, QPCs, WPCs, PPCs, Results, Lanes, NoTask
    <3> QED BY <3>1, <3>2, <3>3, <3>4, <3>5, <3>6, <3>7, <3>8, <3>9, <3>10, <3>11, <3>12 DEF Unique
  <2>6. Late'
    BY <1>19 DEF Inv, Cancel, TypeOK, ProdOK, Late, PostCancelReject, PPCs, Results, Lanes, NoTask
  <2>7. Quiet'
    BY <1>19 DEF Inv, Cancel, TypeOK, Quiet, AllGone, QPCs, WPCs, Lanes
  <2> QED BY <2>1, <2>2, <2>3, <2>4, <2>5, <2>6, <2>7 DEF Inv
<1> QED BY <1>19

LEMMA Step_WaitRet == ASSUME Inv PROVE (WaitRet) => Inv'
<1> USE Assump
<1>20. CASE WaitRet
  <2>1. TypeOK'
    BY <1>20 DEF Inv, WaitRet, AllGone, TypeOK, ProdOK, QPCs, WPCs, PPCs, Results, Lanes, NoTask
  <2>2. ProdOK'
    BY <1>20 DEF Inv, WaitRet, AllGone, TypeOK, ProdOK, QPCs, WPCs, PPCs, Results, Lanes, NoTask
  <2>3. OneResult'
    BY <1>20 DEF Inv, WaitRet, AllGone, TypeOK, ProdOK, OneResult, PPCs, Results, Lanes, NoTask
  <2>4. AcceptedFirst'
    BY <1>20 DEF Inv, WaitRet, AllGone, TypeOK, ProdOK, AcceptedFirst, InSys, InBuf, HeldQ, AtStart, HoldQ, QPCs, WPCs, PPCs, Results, Lanes, NoTask
  <2>5. Unique'
    <3>1. U1'
      BY <1>20 DEF Inv, WaitRet, AllGone, TypeOK, ProdOK, AcceptedFirst, Unique, U1, U2, U3, U4, U5, U6, U7, U8, U9, U10, U11, U12, AtMostOnce, InSys, InBuf, HeldQ, AtStart, HoldQ, QPCs, WPCs, PPCs, Results, Lanes, NoTask
    <3>2. U2'
      BY <1>20 DEF Inv, WaitRet, AllGone, TypeOK, ProdOK, AcceptedFirst, Unique, U1, U2, U3, U4, U5, U6, U7, U8, U9, U10, U11, U12, AtMostOnce, InSys, InBuf, HeldQ, AtStart, HoldQ, QPCs, WPCs, PPCs, Results, Lanes, NoTask
    <3>3. U3'
      BY <1>20 DEF Inv, WaitRet, AllGone, TypeOK, ProdOK, AcceptedFirst, Unique, U1, U2, U3, U4, U5, U6, U7, U8, U9, U10, U11, U12, AtMostOnce, InSys, InBuf, HeldQ, AtStart, HoldQ, QPCs, WPCs, PPCs, Results, Lanes, NoTask
    <3>4. U4'
      BY <1>20 DEF Inv, WaitRet, AllGone, TypeOK, ProdOK, AcceptedFirst, Unique, U1, U2, U3, U4, U5, U6, U7, U8, U9, U10, U11, U12, AtMostOnce, InSys, InBuf, HeldQ, AtStart, HoldQ, QPCs, WPCs, PPCs, Results, Lanes, NoTask
    <3>5. U5'
      BY <1>20 DEF Inv, WaitRet, AllGone, TypeOK, ProdOK, AcceptedFirst, Unique, U1, U2, U3, U4, U5, U6, U7, U8, U9, U10, U11, U12, AtMostOnce, InSys, InBuf, HeldQ, AtStart, HoldQ, QPCs, WPCs, PPCs, Results, Lanes, NoTask
    <3>6. U6'
      BY <1>20 DEF Inv, WaitRet, AllGone, TypeOK, ProdOK, AcceptedFirst, Unique, U1, U2, U3, U4, U5, U6, U7, U8, U9, U10, U11, U12, AtMostOnce, InSys, InBuf, HeldQ, AtStart, HoldQ, QPCs, WPCs, PPCs, Results, Lanes, NoTask
    <3>7. U7'
      BY <1>20 DEF Inv, WaitRet, AllGone, TypeOK, ProdOK, AcceptedFirst, Unique, U1, U2, U3, U4, U5, U6, U7, U8, U9, U10, U11, U12, AtMostOnce, InSys, InBuf, HeldQ, AtStart, HoldQ, QPCs, WPCs, PPCs, Results, Lanes, NoTask
    <3>8. U8'
      BY <1>20 DEF Inv, WaitRet, AllGone, TypeOK, ProdOK, AcceptedFirst, Unique, U1, U2, U3, U4, U5, U6, U7, U8, U9, U10, U11, U12, AtMostOnce, InSys, InBuf, HeldQ, AtStart, HoldQ, QPCs, WPCs, PPCs, Results, Lanes, NoTask
    <3>9. U9'
      BY <1>20 DEF Inv, WaitRet, AllGone, TypeOK, ProdOK, AcceptedFirst, Unique, U1, U2, U3, U4, U5, U6, U7, U8, U9, U10, U11, U12, AtMostOnce, InSys, InBuf, HeldQ, AtStart, HoldQ, QPCs, WPCs, PPCs, Results, Lanes, NoTask
    <3>10. U10'
      BY <1>20 DEF Inv, WaitRet, AllGone, TypeOK, ProdOK, AcceptedFirst, Unique, U1, U2, U3, U4, U5, U6, U7, U8, U9, U10, U11, U12, AtMostOnce, InSys, InBuf, HeldQ, AtStart, HoldQ, QPCs, WPCs, PPCs, Results, Lanes, NoTask
    <3>11. U11'
      BY <1>20 DEF Inv, WaitRet, AllGone, TypeOK, ProdOK, AcceptedFirst, Unique, U1, U2, U3, U4, U5, U6, U7, U8, U9, U10, U11, U12, AtMostOnce, InSys, InBuf, HeldQ, AtStart, HoldQ, QPCs, WPCs, PPCs, Results, Lanes, NoTask
    <3>12. U12'
      BY <1>20 DEF Inv, WaitRet, AllGone, TypeOK, ProdOK, AcceptedFirst, Unique, U1, U2, U3, U4, U5, U6, U7, U8, U9, U10, U11, U12, AtMostOnce, InSys, InBuf, HeldQ, AtStart, HoldQ, QPCs, WPCs, PPCs, Results, Lanes, NoTask
    <3> QED BY <3>1, <3>2, <3>3, <3>4, <3>5, <3>6, <3>7, <3>8, <3>9, <3>10, <3>11, <3>12 DEF Unique
  <2>6. Late'
    BY <1>20 DEF Inv, WaitRet, AllGone, TypeOK, ProdOK, Late, PostCancelReject, PPCs, Results, Lanes, NoTask
  <2>7. Quiet'
    BY <1>20 DEF Inv, WaitRet, AllGone, TypeOK, Quiet, AllGone, QPCs, WPCs, Lanes
  <2> QED BY <2>1, <2>2, <2>3, <2>4, <2>5, <2>6, <2>7 DEF Inv
<1> QED BY <1>20

LEMMA Step_SBegin_SLen_SCnt_SLast == ASSUME Inv PROVE (SBegin \/ SLen \/ SCnt \/ SLast) => Inv'
<1> USE Assump
<1>21. CASE SBegin \/ SLen \/ SCnt \/ SLast
  <2>1. TypeOK'
    BY <1>21 DEF Inv, SBegin, SLen, SCnt, SLast, TypeOK, ProdOK, QPCs, WPCs, PPCs, Results, Lanes, NoTask
  <2>2. ProdOK'
    BY <1>21 DEF Inv, SBegin, SLen, SCnt, SLast, TypeOK, ProdOK, QPCs, WPCs, PPCs, Results, Lanes, NoTask
  <2>3. OneResult'
    BY <1>21 DEF Inv, SBegin, SLen, SCnt, SLast, TypeOK, ProdOK, OneResult, PPCs, Results, Lanes, NoTask
  <2>4. AcceptedFirst'
    BY <1>21 DEF Inv, SBegin, SLen, SCnt, SLast, TypeOK, ProdOK, AcceptedFirst, InSys, InBuf, HeldQ, AtStart, HoldQ, QPCs, WPCs, PPCs, Results, Lanes, NoTask
  <2>5. Unique'
    <3>1. U1'
      BY <1>21 DEF Inv, SBegin, SLen, SCnt, SLast, TypeOK, ProdOK, AcceptedFirst, Unique, U1, U2, U3, U4, U5, U6, U7, U8, U9, U10, U11, U12, AtMostOnce, InSys, InBuf, HeldQ, AtStart, HoldQ, QPCs, WPCs, PPCs, Results, Lanes, NoTask
    <3>2. U2'
      BY <1>21 DEF Inv, SBegin, SLen, SCnt, SLast, TypeOK, ProdOK, AcceptedFirst, Unique, U1, U2, U3, U4, U5, U6, U7, U8, U9, U10, U11, U12, AtMostOnce, InSys, InBuf, HeldQ, AtStart, HoldQ, QPCs, WPCs, PPCs, Results, Lanes, NoTask
    <3>3. U3'
      BY <1>21 DEF Inv, SBegin, SLen, SCnt, SLast, TypeOK, ProdOK, AcceptedFirst, Unique, U1, U2, U3, U4, U5, U6, U7, U8, U9, U10, U11, U12, AtMostOnce, InSys, InBuf, HeldQ, AtStart, HoldQ, QPCs, WPCs, PPCs, Results, Lanes, NoTask
    <3>4. U4'
      BY <1>21 DEF Inv, SBegin, SLen, SCnt, SLast, TypeOK, ProdOK, AcceptedFirst, Unique, U1, U2, U3, U4, U5, U6, U7, U8, U9, U10, U11, U12, AtMostOnce, InSys, InBuf, HeldQ, AtStart, HoldQ, QPCs, WPCs, PPCs, Results, Lanes, NoTask
    <3>5. U5'
      BY <1>21 DEF Inv, SBegin, SLen, SCnt, SLast, TypeOK, ProdOK, AcceptedFirst, Unique, U1, U2, U3, U4, U5, U6, U7, U8, U9, U10, U11, U12, AtMostOnce, InSys, InBuf, HeldQ, AtStart, HoldQ, QPCs, WPCs, PPCs, Results, Lanes, NoTask
    <3>6. U6'
      BY <1>21 DEF Inv, SBegin, SLen, SCnt, SLast, TypeOK, ProdOK, AcceptedFirst, Unique, U1, U2, U3, U4, U5, U6, U7, U8, U9, U10, U11, U12, AtMostOnce, InSys, InBuf, HeldQ, AtStart, HoldQ, QPCs, WPCs, PPCs, Results, Lanes, NoTask
    <3>7. U7'
      BY <1>21 DEF Inv, SBegin, SLen, SCnt, SLast, TypeOK, ProdOK, AcceptedFirst, Unique, U1, U2, U3, U4, U5, U6, U7, U8, U9, U10, U11, U12, AtMostOnce, InSys, InBuf, HeldQ, AtStart, HoldQ, QPCs, WPCs, PPCs, Results, Lanes, NoTask
    <3>8. U8'
      BY <1>21 DEF Inv, SBegin, SLen, SCnt, SLast, TypeOK, ProdOK, AcceptedFirst, Unique, U1, U2, U3, U4, U5, U6, U7, U8, U9, U10, U11, U12, AtMostOnce, InSys, InBuf, HeldQ, AtStart, HoldQ, QPCs, WPCs, PPCs, Results, Lanes, NoTask
    <3>9. U9'
      BY <1>21 DEF Inv, SBegin, SLen, SCnt, SLast, TypeOK, ProdOK, AcceptedFirst, Unique, U1, U2, U3, U4, U5, U6, U7, U8, U9, U10, U11, U12, AtMostOnce, InSys, InBuf, HeldQ, AtStart, HoldQ, QPCs, WPCs, PPCs, Results, Lanes, NoTask
    <3>10. U10'
      BY <1>21 DEF Inv, SBegin, SLen, SCnt, SLast, TypeOK, ProdOK, AcceptedFirst, Unique, U1, U2, U3, U4, U5, U6, U7, U8, U9, U10, U11, U12, AtMostOnce, InSys, InBuf, HeldQ, AtStart, HoldQ, QPCs, WPCs, PPCs, Results, Lanes, NoTask
    <3>11. U11'
      BY <1>21 DEF Inv, SBegin, SLen, SCnt, SLast, TypeOK, ProdOK, AcceptedFirst, Unique, U1, U2, U3, U4, U5, U6, U7, U8, U9, U10, U11, U12, AtMostOnce, InSys, InBuf, HeldQ, AtStart, HoldQ, QPCs, WPCs, PPCs, Results, Lanes, NoTask
    <3>12. U12'
      BY <1>21 DEF Inv, SBegin, SLen, SCnt, SLast, TypeOK, ProdOK, AcceptedFirst, Unique, U1, U2, U3, U4, U5, U6, U7, U8, U9, U10, U11, U12, AtMostOnce, InSys, InBuf, HeldQ, AtStart, HoldQ, QPCs, WPCs, PPCs, Results, Lanes, NoTask
    <3> QED BY <3>1, <3>2, <3>3, <3>4, <3>5, <3>6, <3>7, <3>8, <3>9, <3>10, <3>11, <3>12 DEF Unique
  <2>6. Late'
    BY <1>21 DEF Inv, SBegin, SLen, SCnt, SLast, TypeOK, ProdOK, Late, PostCancelReject, PPCs, Results, Lanes, NoTask
  <2>7. Quiet'
    BY <1>21 DEF Inv, SBegin, SLen, SCnt, SLast, TypeOK, Quiet, AllGone, QPCs, WPCs, Lanes
  <2> QED BY <2>1, <2>2, <2>3, <2>4, <2>5, <2>6, <2>7 DEF Inv
<1> QED BY <1>21

LEMMA Step_Stutter == ASSUME Inv PROVE (UNCHANGED vars) => Inv'
<1> USE Assump
<1>22. CASE UNCHANGED vars
  BY <1>22 DEF vars, Inv, TypeOK, ProdOK, OneResult, AcceptedFirst, Unique, U1, U2, U3, U4, U5, U6, U7, U8, U9, U10, U11, U12, Late, Quiet, InSys, InBuf, HeldQ, AtStart, AtMostOnce, PostCancelReject, AllGone
<1> QED BY <1>22

=============================================================================
