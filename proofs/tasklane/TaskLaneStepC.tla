------------------------------ MODULE TaskLaneStepC ------------------------------
(* Part of the inductive step of TaskLaneProof: Inv is preserved by the actions named in the lemmas below. *)
EXTENDS TaskLaneInv

LEMMA Step_QTake == ASSUME Inv PROVE \A i \in Lanes : QTake(i) => Inv'
<1> USE Assump
<1>5. ASSUME NEW i \in Lanes, QTake(i) PROVE Inv'
  <2>a. qpc[i] = "take" /\ wpc' = wpc /\ wtask' = wtask /\ started' = started
    BY <1>5 DEF QTake
  <2>b. \/ /\ buf' = buf /\ qtask' = qtask /\ (qpc' = [qpc EXCEPT ![i] = "exit"] \/ qpc' = [qpc EXCEPT ![i] = "takeParked"])
        \/ /\ Len(buf[i]) > 0 /\ qtask' = [qtask EXCEPT ![i] = Head(buf[i])] /\ qpc' = [qpc EXCEPT ![i] = "inc"]
           /\ buf' = [buf EXCEPT ![i] = Tail(buf[i])]
        \/ /\ Len(buf[i]) > 0 /\ qtask' = [qtask EXCEPT ![i] = Head(buf[i])] /\ qpc' = [qpc EXCEPT ![i] = "inc"]
           /\ \E p \in Prods : ppc[p] = "innerParked" /\ buf' = [buf EXCEPT ![i] = Append(Tail(buf[i]), pcur[p])]
                                /\ <<pcur[p], "nil", plate[p]>> \in pres'
        \/ /\ buf' = buf /\ qpc' = [qpc EXCEPT ![i] = "inc"]
           /\ \E p \in Prods : ppc[p] = "innerParked" /\ qtask' = [qtask EXCEPT ![i] = pcur[p]]
                                /\ <<pcur[p], "nil", plate[p]>> \in pres'
    BY <1>5 DEF QTake, ParkedSenders, Return
  <2>c. ASSUME NEW p \in Prods, ppc[p] = "innerParked"
        PROVE  /\ pcur[p] \in Tasks
               /\ \A i2 \in Lanes : \A a \in 1..Len(buf[i2]) : buf[i2][a] # pcur[p]
               /\ \A i2 \in Lanes : qpc[i2] \in HoldQ => qtask[i2] # pcur[p]
               /\ \A j \in Lanes : wpc[j] = "start" => wtask[j] # pcur[p]
               /\ started[pcur[p]] = 0
    <3>1. pcur[p] \in Tasks /\ \A r \in pres : r[1] # pcur[p]
      BY <2>c DEF Inv, TypeOK, ProdOK, PPCs, NoTask
    <3>2. ~InSys(pcur[p])
      BY <3>1 DEF Inv, AcceptedFirst
    <3>3. started[pcur[p]] \in Nat
      BY <3>1 DEF Inv, TypeOK
    <3> QED BY <3>1, <3>2, <3>3 DEF InSys, InBuf, HeldQ, AtStart
  <2> DEFINE s == buf[i]
  <2>d. s \in Seq(Tasks)
    BY DEF Inv, TypeOK
  <2>g. \/ /\ buf' = buf /\ qtask' = qtask /\ qpc'[i] \in {"exit", "takeParked"} /\ \A i2 \in Lanes : i2 # i => qpc'[i2] = qpc[i2]
        \/ /\ Len(s) > 0 /\ qpc'[i] = "inc" /\ qtask'[i] = s[1] /\ s[1] \in Tasks
           /\ \A i2 \in Lanes : i2 # i => (qpc'[i2] = qpc[i2] /\ qtask'[i2] = qtask[i2] /\ buf'[i2] = buf[i2])
           /\ (\A a \in 1..(Len(s) - 1) : buf'[i][a] = s[a + 1])
           /\ buf'[i] \in Seq(Tasks)
           /\ \/ Len(buf'[i]) = Len(s) - 1
              \/ \E p \in Prods : ppc[p] = "innerParked" /\ Len(buf'[i]) = Len(s) /\ buf'[i][Len(s)] = pcur[p]
                                   /\ <<pcur[p], "nil", plate[p]>> \in pres'
        \/ /\ buf' = buf /\ qpc'[i] = "inc" /\ \A i2 \in Lanes : i2 # i => (qpc'[i2] = qpc[i2] /\ qtask'[i2] = qtask[i2])
           /\ \E p \in Prods : ppc[p] = "innerParked" /\ qtask'[i] = pcur[p] /\ <<pcur[p], "nil", plate[p]>> \in pres'
    <3>1. CASE /\ buf' = buf /\ qtask' = qtask /\ (qpc' = [qpc EXCEPT ![i] = "exit"] \/ qpc' = [qpc EXCEPT ![i] = "takeParked"])
      BY <3>1 DEF Inv, TypeOK
    <3>2. CASE /\ Len(s) > 0 /\ qtask' = [qtask EXCEPT ![i] = Head(s)] /\ qpc' = [qpc EXCEPT ![i] = "inc"]
               /\ buf' = [buf EXCEPT ![i] = Tail(s)]
      BY <3>2, <2>d, TailFacts DEF Inv, TypeOK
    <3>3. CASE /\ Len(s) > 0 /\ qtask' = [qtask EXCEPT ![i] = Head(s)] /\ qpc' = [qpc EXCEPT ![i] = "inc"]
               /\ \E p \in Prods : ppc[p] = "innerParked" /\ buf' = [buf EXCEPT ![i] = Append(Tail(s), pcur[p])]
                                    /\ <<pcur[p], "nil", plate[p]>> \in pres'
      <4>1. PICK p \in Prods : ppc[p] = "innerParked" /\ buf' = [buf EXCEPT ![i] = Append(Tail(s), pcur[p])]
                               /\ <<pcur[p], "nil", plate[p]>> \in pres'
        BY <3>3
      <4>2. pcur[p] \in Tasks
        BY <4>1, <2>c
      <4>3. /\ Append(Tail(s), pcur[p]) \in Seq(Tasks) /\ Len(Append(Tail(s), pcur[p])) = Len(s)
            /\ \A a \in 1..(Len(s) - 1) : Append(Tail(s), pcur[p])[a] = s[a + 1]
            /\ Append(Tail(s), pcur[p])[Len(s)] = pcur[p]
        BY <3>3, <4>2, <2>d, AppTailFacts
      <4>4. Head(s) = s[1] /\ Head(s) \in Tasks
        BY <3>3, <2>d, TailFacts
      <4> QED BY <3>3, <4>1, <4>3, <4>4 DEF Inv, TypeOK
    <3>4. CASE /\ buf' = buf /\ qpc' = [qpc EXCEPT ![i] = "inc"]
               /\ \E p \in Prods : ppc[p] = "innerParked" /\ qtask' = [qtask EXCEPT ![i] = pcur[p]]
                                    /\ <<pcur[p], "nil", plate[p]>> \in pres'
      BY <3>4 DEF Inv, TypeOK
    <3> QED BY <2>b, <3>1, <3>2, <3>3, <3>4
  <2>h. ASSUME NEW x \in Lanes, NEW c \in 1..Len(buf'[x])
        PROVE  \/ \E y \in Lanes : \E d \in 1..Len(buf[y]) : buf'[x][c] = buf[y][d]
               \/ \E p \in Prods : ppc[p] = "innerParked" /\ buf'[x][c] = pcur[p]
    <3>1. CASE buf' = buf
      BY <3>1
    <3>2. CASE /\ Len(s) > 0
               /\ \A i3 \in Lanes : i3 # i => buf'[i3] = buf[i3]
               /\ (\A e \in 1..(Len(s) - 1) : buf'[i][e] = s[e + 1])
               /\ \/ Len(buf'[i]) = Len(s) - 1
                  \/ \E p \in Prods : ppc[p] = "innerParked" /\ Len(buf'[i]) = Len(s) /\ buf'[i][Len(s)] = pcur[p]
      <4>1. Len(s) \in Nat /\ Len(buf'[i]) \in Nat
        BY <2>d, <3>2
      <4>2. CASE x # i
        BY <4>2, <3>2
      <4>3. CASE x = i /\ c \in 1..(Len(s) - 1)
        <5>1. buf'[x][c] = buf[i][c + 1] /\ c + 1 \in 1..Len(buf[i])
          BY <4>3, <3>2, <4>1
        <5> QED BY <5>1
      <4>4. CASE x = i /\ c \notin 1..(Len(s) - 1)
        BY <4>4, <3>2, <4>1
      <4> QED BY <4>2, <4>3, <4>4
    <3> QED BY <2>g, <3>1, <3>2
  <2>1. TypeOK'
    <3>1. buf' \in [Lanes -> Seq(Tasks)] /\ qtask' \in [Lanes -> Tasks \cup {NoTask}] /\ qpc' \in [Lanes -> QPCs]
      BY <1>5, <2>b, <2>c, <2>d, <2>g DEF Inv, TypeOK, QPCs, Lanes, NoTask
    <3>2. pres' \subseteq (Tasks \X Results \X BOOLEAN) /\ ppc' \in [Prods -> PPCs] /\ pcur' \in [Prods -> Tasks \cup {NoTask}] /\ plate' \in [Prods -> BOOLEAN]
      BY <1>5, <2>c DEF Inv, QTake, Return, ParkedSenders, TypeOK, ProdOK, PPCs, Results, NoTask
    <3> QED BY <1>5, <3>1, <3>2 DEF Inv, QTake, TypeOK
  <2>2. ProdOK'
    BY <1>5 DEF Inv, QTake, Return, ParkedSenders, TypeOK, ProdOK, QPCs, WPCs, PPCs, Results, Lanes, NoTask
  <2>3. OneResult'
    BY <1>5 DEF Inv, QTake, Return, ParkedSenders, TypeOK, ProdOK, OneResult, PPCs, Results, Lanes, NoTask
  <2>4. AcceptedFirst'
    <3>2. pres \subseteq pres'
      BY <1>5 DEF QTake, Return
    <3>1. ASSUME NEW t \in Tasks, InSys(t)' PROVE \E r \in pres' : r[1] = t /\ r[2] = "nil"
      <4>1. CASE InSys(t)
        BY <4>1, <3>2 DEF Inv, AcceptedFirst
      <4>2. CASE ~InSys(t)
        <5>0. /\ \A y \in Lanes : \A d \in 1..Len(buf[y]) : buf[y][d] # t
              /\ \A y \in Lanes : qpc[y] \in HoldQ => qtask[y] # t
              /\ \A y \in Lanes : wpc[y] = "start" => wtask[y] # t
              /\ ~(started[t] > 0)
          BY <4>2 DEF InSys, InBuf, HeldQ, AtStart
        <5>a. CASE \E y \in Lanes : \E d \in 1..Len(buf'[y]) : buf'[y][d] = t
          <6>1. PICK y \in Lanes : \E d \in 1..Len(buf'[y]) : buf'[y][d] = t
            BY <5>a
          <6>2. PICK d \in 1..Len(buf'[y]) : buf'[y][d] = t
            BY <6>1
          <6>3. \/ \E y2 \in Lanes : \E d2 \in 1..Len(buf[y2]) : buf'[y][d] = buf[y2][d2]
                \/ \E p \in Prods : ppc[p] = "innerParked" /\ buf'[y][d] = pcur[p]
            BY <2>h
          <6>4. \E p \in Prods : ppc[p] = "innerParked" /\ t = pcur[p]
            BY <6>2, <6>3, <5>0
          <6> QED BY <6>4, <6>2, <2>g, <2>c, <5>0 DEF Inv, TypeOK, Lanes
        <5>b. CASE \E y \in Lanes : qpc'[y] \in HoldQ /\ qtask'[y] = t
          BY <5>b, <5>0, <2>a, <2>d, <2>g, <2>c DEF Inv, TypeOK, HoldQ, Lanes
        <5>c. CASE (\E y \in Lanes : wpc'[y] = "start" /\ wtask'[y] = t) \/ started'[t] > 0
          BY <5>c, <5>0, <2>a
        <5> QED BY <3>1, <5>a, <5>b, <5>c DEF InSys, InBuf, HeldQ, AtStart
      <4> QED BY <4>1, <4>2
    <3> QED BY <3>1 DEF AcceptedFirst
  <2>5. Unique'
    <3>1. U1'
      <4> SUFFICES ASSUME NEW i1 \in Lanes, NEW i2 \in Lanes, NEW a \in 1..Len(buf'[i1]), NEW b \in 1..Len(buf'[i2]),
                          buf'[i1][a] = buf'[i2][b]
                   PROVE  i1 = i2 /\ a = b
        BY DEF U1
      <4>0. \A x, y \in Lanes : \A c \in 1..Len(buf[x]), d \in 1..Len(buf[y]) : buf[x][c] = buf[y][d] => (x = y /\ c = d)
        BY DEF Inv, Unique, U1
      <4>1. CASE buf' = buf
        BY <4>1, <4>0
      <4>2. CASE /\ Len(s) > 0
                 /\ \A i3 \in Lanes : i3 # i => buf'[i3] = buf[i3]
                 /\ (\A c \in 1..(Len(s) - 1) : buf'[i][c] = s[c + 1])
                 /\ \/ Len(buf'[i]) = Len(s) - 1
                    \/ \E p \in Prods : ppc[p] = "innerParked" /\ Len(buf'[i]) = Len(s) /\ buf'[i][Len(s)] = pcur[p]
        <5>1. Len(s) \in Nat /\ Len(buf'[i]) \in Nat
          BY <2>d, <4>2
        <5>2. ASSUME NEW x \in Lanes, NEW c \in 1..Len(buf'[x])
              PROVE  \/ \E y \in Lanes : \E d \in 1..Len(buf[y]) : buf'[x][c] = buf[y][d] /\ (x = y) /\ (x # i => d = c) /\ (x = i => d = c + 1)
                     \/ x = i /\ c = Len(s) /\ \E p \in Prods : ppc[p] = "innerParked" /\ buf'[i][Len(s)] = pcur[p] /\ Len(buf'[i]) = Len(s)
          BY <4>2, <5>1
        <5>3. \A p \in Prods : ppc[p] = "innerParked" => \A y \in Lanes : \A d \in 1..Len(buf[y]) : buf[y][d] # pcur[p]
          BY <2>c
        <5> QED BY <5>1, <5>2, <5>3, <4>0
      <4> QED BY <2>g, <4>1, <4>2
    <3>2. U2'
      <4> SUFFICES ASSUME NEW i1 \in Lanes, NEW i2 \in Lanes, NEW a \in 1..Len(buf'[i1]), qpc'[i2] \in HoldQ
                   PROVE  buf'[i1][a] # qtask'[i2]
        BY DEF U2
      <4>0. /\ \A x, y \in Lanes : \A c \in 1..Len(buf[x]), d \in 1..Len(buf[y]) : buf[x][c] = buf[y][d] => (x = y /\ c = d)
            /\ \A x, y \in Lanes : \A c \in 1..Len(buf[x]) : qpc[y] \in HoldQ => buf[x][c] # qtask[y]
        BY DEF Inv, Unique, U1, U2
      <4>a. \A p \in Prods : ppc[p] = "innerParked" =>
               /\ \A y \in Lanes : \A d \in 1..Len(buf[y]) : buf[y][d] # pcur[p]
               /\ \A y \in Lanes : qpc[y] \in HoldQ => qtask[y] # pcur[p]
        BY <2>c
      <4>b. qpc[i] \notin HoldQ
        BY <2>a DEF HoldQ
      <4>1. CASE /\ buf' = buf /\ qtask' = qtask /\ qpc'[i] \in {"exit", "takeParked"} /\ \A i3 \in Lanes : i3 # i => qpc'[i3] = qpc[i3]
        BY <4>1, <4>0 DEF HoldQ
      <4>2. CASE /\ Len(s) > 0 /\ qpc'[i] = "inc" /\ qtask'[i] = s[1] /\ s[1] \in Tasks
                 /\ \A i3 \in Lanes : i3 # i => (qpc'[i3] = qpc[i3] /\ qtask'[i3] = qtask[i3] /\ buf'[i3] = buf[i3])
                 /\ (\A c \in 1..(Len(s) - 1) : buf'[i][c] = s[c + 1])
                 /\ \/ Len(buf'[i]) = Len(s) - 1
                    \/ \E p \in Prods : ppc[p] = "innerParked" /\ Len(buf'[i]) = Len(s) /\ buf'[i][Len(s)] = pcur[p]
        <5>1. Len(s) \in Nat /\ Len(buf'[i]) \in Nat /\ 1 \in 1..Len(buf[i])
          BY <2>d, <4>2
        <5>2. \/ \E y \in Lanes : \E d \in 1..Len(buf[y]) : buf'[i1][a] = buf[y][d] /\ ~(y = i /\ d = 1)
              \/ \E p \in Prods : ppc[p] = "innerParked" /\ buf'[i1][a] = pcur[p]
          BY <4>2, <5>1
        <5>3. CASE i2 = i
          BY <5>3, <5>2, <5>1, <4>2, <4>0, <4>a
        <5>4. CASE i2 # i
          BY <5>4, <5>2, <4>2, <4>0, <4>a
        <5> QED BY <5>3, <5>4
      <4>3. CASE /\ buf' = buf /\ qpc'[i] = "inc" /\ \A i3 \in Lanes : i3 # i => (qpc'[i3] = qpc[i3] /\ qtask'[i3] = qtask[i3])
                 /\ \E p \in Prods : ppc[p] = "innerParked" /\ qtask'[i] = pcur[p]
        BY <4>3, <4>0, <4>a
      <4> QED BY <2>g, <4>1, <4>2, <4>3
    <3>3. U3'
      <4> SUFFICES ASSUME NEW i1 \in Lanes, NEW j \in Lanes, NEW a \in 1..Len(buf'[i1]), wpc'[j] = "start"
                   PROVE  buf'[i1][a] # wtask'[j]
        BY DEF U3
      <4>1. \A y \in Lanes : \A d \in 1..Len(buf[y]) : buf[y][d] # wtask[j]
        BY <2>a DEF Inv, Unique, U3
      <4>2. \A p \in Prods : ppc[p] = "innerParked" => wtask[j] # pcur[p]
        BY <2>a, <2>c
      <4> QED BY <2>a, <2>h, <4>1, <4>2
    <3>4. U4'
      <4> SUFFICES ASSUME NEW i1 \in Lanes, NEW a \in 1..Len(buf'[i1])
                   PROVE  started'[buf'[i1][a]] = 0
        BY DEF U4
      <4>1. \A y \in Lanes : \A d \in 1..Len(buf[y]) : started[buf[y][d]] = 0
        BY DEF Inv, Unique, U4
      <4>2. \A p \in Prods : ppc[p] = "innerParked" => started[pcur[p]] = 0
        BY <2>c
      <4> QED BY <2>a, <2>h, <4>1, <4>2
    <3>5. U5'
      BY <1>5 DEF Inv, QTake, Return, ParkedSenders, TypeOK, ProdOK, AcceptedFirst, Unique, U1, U2, U3, U4, U5, U6, U7, U8, U9, U10, U11, U12, AtMostOnce, InSys, InBuf, HeldQ, AtStart, HoldQ, QPCs, WPCs, PPCs, Results, Lanes, NoTask
    <3>6. U6'
      BY <1>5 DEF Inv, QTake, Return, ParkedSenders, TypeOK, ProdOK, AcceptedFirst, Unique, U1, U2, U3, U4, U5, U6, U7, U8, U9, U10, U11, U12, AtMostOnce, InSys, InBuf, HeldQ, AtStart, HoldQ, QPCs, WPCs, PPCs, Results, Lanes, NoTask
    <3>7. U7'
      BY <1>5 DEF Inv, QTake, Return, ParkedSenders, TypeOK, ProdOK, AcceptedFirst, Unique, U1, U2, U3, U4, U5, U6, U7, U8, U9, U10, U11, U12, AtMostOnce, InSys, InBuf, HeldQ, AtStart, HoldQ, QPCs, WPCs, PPCs, Results, Lanes, NoTask
    <3>8. U8'
      BY <2>a, <2>c, <2>d, <2>g DEF Inv, Unique, TypeOK, Lanes, U8, U4, U7, HoldQ, QPCs
    <3>9. U9'
      BY <1>5 DEF Inv, QTake, Return, ParkedSenders, TypeOK, ProdOK, AcceptedFirst, Unique, U1, U2, U3, U4, U5, U6, U7, U8, U9, U10, U11, U12, AtMostOnce, InSys, InBuf, HeldQ, AtStart, HoldQ, QPCs, WPCs, PPCs, Results, Lanes, NoTask
    <3>10. U10'
      BY <1>5 DEF Inv, QTake, Return, ParkedSenders, TypeOK, ProdOK, AcceptedFirst, Unique, U1, U2, U3, U4, U5, U6, U7, U8, U9, U10, U11, U12, AtMostOnce, InSys, InBuf, HeldQ, AtStart, HoldQ, QPCs, WPCs, PPCs, Results, Lanes, NoTask
    <3>11. U11'
      BY <1>5 DEF Inv, QTake, Return, ParkedSenders, TypeOK, ProdOK, AcceptedFirst, Unique, U1, U2, U3, U4, U5, U6, U7, U8, U9, U10, U11, U12, AtMostOnce, InSys, InBuf, HeldQ, AtStart, HoldQ, QPCs, WPCs, PPCs, Results, Lanes, NoTask
    <3>12. U12'
      BY <1>5 DEF Inv, QTake, Return, ParkedSenders, TypeOK, ProdOK, AcceptedFirst, Unique, U1, U2, U3, U4, U5, U6, U7, U8, U9, U10, U11, U12, AtMostOnce, InSys, InBuf, HeldQ, AtStart, HoldQ, QPCs, WPCs, PPCs, Results, Lanes, NoTask
    <3> QED BY <3>1, <3>2, <3>3, <3>4, <3>5, <3>6, <3>7, <3>8, <3>9, <3>10, <3>11, <3>12 DEF Unique
  <2>6. Late'
    BY <1>5 DEF Inv, QTake, Return, ParkedSenders, TypeOK, ProdOK, Late, PostCancelReject, PPCs, Results, Lanes, NoTask
  <2>7. Quiet'
    BY <1>5 DEF Inv, QTake, Return, ParkedSenders, TypeOK, Quiet, AllGone, QPCs, WPCs, Lanes
  <2> QED BY <2>1, <2>2, <2>3, <2>4, <2>5, <2>6, <2>7 DEF Inv
<1> QED BY <1>5

=============================================================================
