------------------------------ MODULE TaskLaneInv ------------------------------
(***************************************************************************)
(* Unbounded safety of the tasklane protocol model TaskLane.tla, checked   *)
(* by the TLA+ proof system: for ANY number of lanes N >= 1, ANY queue     *)
(* size Q >= 0, ANY set of tasks, producers, lane assignments, pinned and  *)
(* panicking tasks, with or without cancellation and work sharing:         *)
(*   AtMostOnce, NoRejectedRun, StartedOnlyIfPushed            (C06)       *)
(*   PostCancelReject, WaitOnlyWhenQuiet                       (C07)       *)
(* TLC checks the same formulas (and the liveness ones) exhaustively for   *)
(* 2-3 lanes, Q <= 1 and 3-4 tasks.                                        *)
(* The inductive invariant says where a task can be: with its producer, in *)
(* one slot of one buffer, in the hands of one queue goroutine, with one   *)
(* worker about to start it, or started - in at most one of these places,  *)
(* and only after PushTask has returned nil for it.                        *)
(***************************************************************************)
EXTENDS TaskLane, NaturalsInduction, TLAPS

ASSUME Assump ==
  /\ N \in Nat \ {0} /\ Q \in Nat
  /\ Tasks \subseteq Nat \ {0}
  /\ Lane \in [Tasks -> Lanes]
  /\ Prod \in [Tasks -> {Prod[t] : t \in Tasks}]
  /\ Pinned \subseteq Tasks
  /\ CanCancel \in BOOLEAN /\ Sharing \in BOOLEAN /\ WithStatus \in BOOLEAN
  /\ OuterCheck = TRUE

QPCs == {"take", "takeParked", "inc", "chk", "tryOwn", "offer", "offerParked", "dec", "exit", "gone"}
WPCs == {"chk", "tryOwn", "listen", "listenParked", "start", "running", "recover", "exit", "gone"}
PPCs == {"idle", "outer", "inner", "innerParked"}
HoldQ == {"inc", "chk", "tryOwn", "offer", "offerParked"}      \* the queue goroutine holds qtask, not yet handed over
Results == {"nil", "ctx", "timeout"}

TypeOK ==
  /\ ctx \in {"live", "done"}
  /\ buf \in [Lanes -> Seq(Tasks)]
  /\ qpc \in [Lanes -> QPCs] /\ qtask \in [Lanes -> Tasks \cup {NoTask}]
  /\ wpc \in [Lanes -> WPCs] /\ wtask \in [Lanes -> Tasks \cup {NoTask}]
  /\ ppc \in [Prods -> PPCs] /\ pcur \in [Prods -> Tasks \cup {NoTask}]
  /\ pres \subseteq (Tasks \X Results \X BOOLEAN)
  /\ plate \in [Prods -> BOOLEAN]
  /\ started \in [Tasks -> Nat]
  /\ waitDone \in BOOLEAN

\* a producer and the task it is pushing
ProdOK == \A p \in Prods :
  /\ (ppc[p] = "idle") <=> (pcur[p] = NoTask)
  /\ pcur[p] # NoTask => /\ pcur[p] \in Tasks /\ Prod[pcur[p]] = p
                         /\ \A r \in pres : r[1] # pcur[p]
OneResult == \A r1, r2 \in pres : r1[1] = r2[1] => r1 = r2

InBuf(t) == \E i \in Lanes : \E a \in 1..Len(buf[i]) : buf[i][a] = t
HeldQ(t) == \E i \in Lanes : qpc[i] \in HoldQ /\ qtask[i] = t
AtStart(t) == \E j \in Lanes : wpc[j] = "start" /\ wtask[j] = t
InSys(t) == InBuf(t) \/ HeldQ(t) \/ AtStart(t) \/ started[t] > 0
AcceptedFirst == \A t \in Tasks : InSys(t) => \E r \in pres : r[1] = t /\ r[2] = "nil"

U1 == \A i, i2 \in Lanes : \A a \in 1..Len(buf[i]), b \in 1..Len(buf[i2]) : buf[i][a] = buf[i2][b] => (i = i2 /\ a = b)
U2 == \A i, i2 \in Lanes : \A a \in 1..Len(buf[i]) : qpc[i2] \in HoldQ => buf[i][a] # qtask[i2]
U3 == \A i, j \in Lanes : \A a \in 1..Len(buf[i]) : wpc[j] = "start" => buf[i][a] # wtask[j]
U4 == \A i \in Lanes : \A a \in 1..Len(buf[i]) : started[buf[i][a]] = 0
U5 == \A i, i2 \in Lanes : (i # i2 /\ qpc[i] \in HoldQ /\ qpc[i2] \in HoldQ) => qtask[i] # qtask[i2]
U6 == \A i, j \in Lanes : (qpc[i] \in HoldQ /\ wpc[j] = "start") => qtask[i] # wtask[j]
U7 == \A i \in Lanes : qpc[i] \in HoldQ \cup {"dec"} => qtask[i] \in Tasks
U8 == \A i \in Lanes : qpc[i] \in HoldQ => started[qtask[i]] = 0
U9 == \A j, j2 \in Lanes : (j # j2 /\ wpc[j] = "start" /\ wpc[j2] = "start") => wtask[j] # wtask[j2]
U10 == \A j \in Lanes : wpc[j] \in {"start", "running", "recover"} => wtask[j] \in Tasks
U11 == \A j \in Lanes : wpc[j] = "start" => started[wtask[j]] = 0
U12 == AtMostOnce
Unique == U1 /\ U2 /\ U3 /\ U4 /\ U5 /\ U6 /\ U7 /\ U8 /\ U9 /\ U10 /\ U11 /\ U12

Late == /\ \A p \in Prods : plate[p] => ctx = "done"
        /\ \A p \in Prods : ppc[p] \in {"inner", "innerParked"} => ~plate[p]
        /\ PostCancelReject

Quiet == waitDone => AllGone

Inv == TypeOK /\ ProdOK /\ OneResult /\ AcceptedFirst /\ Unique /\ Late /\ Quiet

LEMMA InitInv == Init => Inv
  BY Assump DEF Init, Inv, TypeOK, ProdOK, OneResult, AcceptedFirst, Unique, U1, U2, U3, U4, U5, U6, U7, U8, U9, U10, U11, U12, Late, Quiet, InSys, InBuf, HeldQ, AtStart, AtMostOnce,
     PostCancelReject, AllGone, QPCs, WPCs, PPCs, HoldQ, Results, Lanes, Prods, NoTask

LEMMA TailFacts == ASSUME NEW S, NEW s \in Seq(S), Len(s) > 0
                   PROVE /\ Tail(s) \in Seq(S) /\ Len(Tail(s)) = Len(s) - 1
                         /\ \A a \in 1..(Len(s) - 1) : Tail(s)[a] = s[a + 1]
                         /\ Head(s) = s[1] /\ Head(s) \in S
  OBVIOUS
LEMMA AppTailFacts == ASSUME NEW S, NEW s \in Seq(S), Len(s) > 0, NEW x \in S
                   PROVE /\ Append(Tail(s), x) \in Seq(S) /\ Len(Append(Tail(s), x)) = Len(s)
                         /\ \A a \in 1..(Len(s) - 1) : Append(Tail(s), x)[a] = s[a + 1]
                         /\ Append(Tail(s), x)[Len(s)] = x
  OBVIOUS
LEMMA AppFacts == ASSUME NEW S, NEW s \in Seq(S), NEW x \in S
                   PROVE /\ Append(s, x) \in Seq(S) /\ Len(Append(s, x)) = Len(s) + 1
                         /\ \A a \in 1..Len(s) : Append(s, x)[a] = s[a]
                         /\ Append(s, x)[Len(s) + 1] = x
  OBVIOUS

LEMMA NextTaskOK == ASSUME NEW p \in Prods, NextTask(p) # NoTask
                    PROVE  NextTask(p) \in Tasks /\ Prod[NextTask(p)] = p /\ NextTask(p) \notin Pushed
<1> DEFINE R == {t \in Tasks : Prod[t] = p /\ t \notin Pushed}
<1>1. R # {}
  BY DEF NextTask, NoTask
<1>2. PICK t0 \in R : TRUE
  BY <1>1
<1> DEFINE P(n) == n \in R
<1>3. \E m \in Nat : P(m) /\ \A k \in 0 .. m-1 : ~P(k)
  <2>1. t0 \in Nat /\ P(t0)
    BY <1>2, Assump
  <2> HIDE DEF P
  <2> QED BY <2>1, SmallestNatural
<1>4. \E t \in R : \A u \in R : t <= u
  <2>1. PICK m \in Nat : P(m) /\ \A k \in 0 .. m-1 : ~P(k)
    BY <1>3
  <2>2. \A u \in R : m <= u
    BY <2>1, Assump
  <2> QED BY <2>1, <2>2
<1>5. NextTask(p) = CHOOSE t \in R : \A u \in R : t <= u
  BY <1>1 DEF NextTask
<1>6. NextTask(p) \in R
  BY <1>4, <1>5
<1> QED BY <1>6
=============================================================================
