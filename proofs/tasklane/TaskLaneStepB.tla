------------------------------ MODULE TaskLaneStepB ------------------------------
(* Part of the inductive step of TaskLaneProof: Inv is preserved by the actions named in the lemmas below. *)
EXTENDS TaskLaneInv

LEMMA Step_PInner == ASSUME Inv PROVE \A p \in Prods : PInner(p) => Inv'
<1> USE Assump
<1>3. ASSUME NEW p \in Prods, PInner(p) PROVE Inv'
  <2> DEFINE t == pcur[p]
  <2>a. /\ ppc[p] = "inner" /\ t \in Tasks /\ Lane[t] \in Lanes
        /\ \A i \in Lanes : \A a \in 1..Len(buf[i]) : buf[i][a] # t
        /\ \A i \in Lanes : qpc[i] \in HoldQ => qtask[i] # t
        /\ \A j \in Lanes : wpc[j] = "start" => wtask[j] # t
        /\ started[t] = 0
    <3>1. ppc[p] = "inner"
      BY <1>3 DEF PInner
    <3>2. t \in Tasks /\ \A r \in pres : r[1] # t
      BY <3>1 DEF Inv, TypeOK, ProdOK, PPCs, NoTask
    <3>3. ~InSys(t)
      BY <3>2 DEF Inv, AcceptedFirst
    <3>4. started[t] \in Nat /\ Lane[t] \in Lanes
      BY <3>2 DEF Inv, TypeOK
    <3> QED BY <3>1, <3>2, <3>3, <3>4 DEF InSys, InBuf, HeldQ, AtStart
  <2>b. \/ (buf' = buf /\ qpc' = qpc /\ qtask' = qtask)
        \/ (buf' = buf /\ qpc[Lane[t]] = "takeParked" /\ qpc' = [qpc EXCEPT ![Lane[t]] = "inc"] /\ qtask' = [qtask EXCEPT ![Lane[t]] = t])
        \/ (buf' = [buf EXCEPT ![Lane[t]] = Append(buf[Lane[t]], t)] /\ qpc' = qpc /\ qtask' = qtask)
    BY <1>3 DEF PInner, DoSend
  <2>c. wpc' = wpc /\ wtask' = wtask /\ started' = started
    BY <1>3 DEF PInner
  <2>d. \/ (buf' = buf /\ qpc' = qpc /\ qtask' = qtask)
        \/ /\ buf' = buf /\ qpc'[Lane[t]] = "inc" /\ qtask'[Lane[t]] = t /\ qpc[Lane[t]] = "takeParked"
           /\ \A i2 \in Lanes : i2 # Lane[t] => (qpc'[i2] = qpc[i2] /\ qtask'[i2] = qtask[i2])
        \/ /\ qpc' = qpc /\ qtask' = qtask
           /\ Len(buf'[Lane[t]]) = Len(buf[Lane[t]]) + 1
           /\ (\A a \in 1..Len(buf[Lane[t]]) : buf'[Lane[t]][a] = buf[Lane[t]][a])
           /\ buf'[Lane[t]][Len(buf[Lane[t]]) + 1] = t
           /\ \A i2 \in Lanes : i2 # Lane[t] => buf'[i2] = buf[i2]
    <3>1. buf[Lane[t]] \in Seq(Tasks)
      BY <2>a DEF Inv, TypeOK
    <3> QED BY <2>a, <2>b, <3>1, AppFacts DEF Inv, TypeOK
  <2>1. TypeOK'
    BY <1>3 DEF Inv, PInner, Return, SendReady, DoSend, TypeOK, ProdOK, QPCs, WPCs, PPCs, Results, Lanes, NoTask
  <2>2. ProdOK'
    BY <1>3 DEF Inv, PInner, Return, SendReady, DoSend, TypeOK, ProdOK, QPCs, WPCs, PPCs, Results, Lanes, NoTask
  <2>3. OneResult'
    BY <1>3 DEF Inv, PInner, Return, SendReady, DoSend, TypeOK, ProdOK, OneResult, PPCs, Results, Lanes, NoTask
  <2>4. AcceptedFirst'
    BY <1>3 DEF Inv, PInner, Return, SendReady, DoSend, TypeOK, ProdOK, AcceptedFirst, InSys, InBuf, HeldQ, AtStart, HoldQ, QPCs, WPCs, PPCs, Results, Lanes, NoTask
  <2>5. Unique'
    <3>1. U1'
      BY <2>a, <2>b, <2>c DEF Inv, Unique, TypeOK, Lanes, U1
    <3>2. U2'
      BY <2>a, <2>c, <2>d DEF Inv, Unique, TypeOK, Lanes, U2, U7, HoldQ, QPCs
    <3>3. U3'
      BY <2>a, <2>b, <2>c DEF Inv, Unique, TypeOK, Lanes, U3
    <3>4. U4'
      BY <2>a, <2>b, <2>c DEF Inv, Unique, TypeOK, Lanes, U4
    <3>5. U5'
      BY <1>3 DEF Inv, PInner, Return, SendReady, DoSend, TypeOK, ProdOK, AcceptedFirst, Unique, U1, U2, U3, U4, U5, U6, U7, U8, U9, U10, U11, U12, AtMostOnce, InSys, InBuf, HeldQ, AtStart, HoldQ, QPCs, WPCs, PPCs, Results, Lanes, NoTask
    <3>6. U6'
      BY <1>3 DEF Inv, PInner, Return, SendReady, DoSend, TypeOK, ProdOK, AcceptedFirst, Unique, U1, U2, U3, U4, U5, U6, U7, U8, U9, U10, U11, U12, AtMostOnce, InSys, InBuf, HeldQ, AtStart, HoldQ, QPCs, WPCs, PPCs, Results, Lanes, NoTask
    <3>7. U7'
      BY <1>3 DEF Inv, PInner, Return, SendReady, DoSend, TypeOK, ProdOK, AcceptedFirst, Unique, U1, U2, U3, U4, U5, U6, U7, U8, U9, U10, U11, U12, AtMostOnce, InSys, InBuf, HeldQ, AtStart, HoldQ, QPCs, WPCs, PPCs, Results, Lanes, NoTask
    <3>8. U8'
      BY <2>a, <2>b, <2>c DEF Inv, Unique, TypeOK, Lanes, U8, U7, HoldQ
    <3>9. U9'
      BY <1>3 DEF Inv, PInner, Return, SendReady, DoSend, TypeOK, ProdOK, AcceptedFirst, Unique, U1, U2, U3, U4, U5, U6, U7, U8, U9, U10, U11, U12, AtMostOnce, InSys, InBuf, HeldQ, AtStart, HoldQ, QPCs, WPCs, PPCs, Results, Lanes, NoTask
    <3>10. U10'
      BY <1>3 DEF Inv, PInner, Return, SendReady, DoSend, TypeOK, ProdOK, AcceptedFirst, Unique, U1, U2, U3, U4, U5, U6, U7, U8, U9, U10, U11, U12, AtMostOnce, InSys, InBuf, HeldQ, AtStart, HoldQ, QPCs, WPCs, PPCs, Results, Lanes, NoTask
    <3>11. U11'
      BY <1>3 DEF Inv, PInner, Return, SendReady, DoSend, TypeOK, ProdOK, AcceptedFirst, Unique, U1, U2, U3, U4, U5, U6, U7, U8, U9, U10, U11, U12, AtMostOnce, InSys, InBuf, HeldQ, AtStart, HoldQ, QPCs, WPCs, PPCs, Results, Lanes, NoTask
    <3>12. U12'
      BY <1>3 DEF Inv, PInner, Return, SendReady, DoSend, TypeOK, ProdOK, AcceptedFirst, Unique, U1, U2, U3, U4, U5, U6, U7, U8, U9, U10, U11, U12, AtMostOnce, InSys, InBuf, HeldQ, AtStart, HoldQ, QPCs, WPCs, PPCs, Results, Lanes, NoTask
    <3> QED BY <3>1, <3>2, <3>3, <3>4, <3>5, <3>6, <3>7, <3>8, <3>9, <3>10, <3>11, <3>12 DEF Unique
  <2>6. Late'
    BY <1>3 DEF Inv, PInner, Return, SendReady, DoSend, TypeOK, ProdOK, Late, PostCancelReject, PPCs, Results, Lanes, NoTask
  <2>7. Quiet'
    BY <1>3 DEF Inv, PInner, Return, SendReady, DoSend, TypeOK, Quiet, AllGone, QPCs, WPCs, Lanes
  <2> QED BY <2>1, <2>2, <2>3, <2>4, <2>5, <2>6, <2>7 DEF Inv
<1> QED BY <1>3

=============================================================================
