--------------------------- MODULE IPv4FilterConcProof ---------------------------
(***************************************************************************)
(* Unbounded proof of the lock discipline of IPv4FilterConc.tla (C12), for *)
(* ANY sets of writers and readers and ANY update programs, with the       *)
(* reader's lock in place (UseLock = TRUE):                                *)
(*   - the write lock and the read locks exclude each other,               *)
(*   - a writer is inside Add / Remove's critical section (body, the       *)
(*     stepwise migration, unlock) exactly while it holds the write lock,  *)
(*   - a migration is in progress only inside such a section, and          *)
(*   - a reader scans the list / the maps only while no writer is inside   *)
(*     its critical section and no migration is in progress: a lookup      *)
(*     never sees the half-migrated filter (ScanSeesStableFilter).         *)
(* With UseLock = FALSE the last two facts are not provable (and TLC finds *)
(* the interval inconsistency).                                            *)
(***************************************************************************)
EXTENDS IPv4FilterConc, TLAPS

ASSUME LockAssump == UseLock = TRUE /\ "none" \notin Writers

WPCs == {"idle", "flag", "lock", "body", "migrate", "unlock", "end"}
RPCs == {"idle", "flag", "rlock", "scan", "end"}
InCS == {"body", "migrate", "unlock"}
LInv == /\ wlock \in Writers \cup {"none"} /\ rlocks \subseteq Readers
        /\ wpc \in [Writers -> WPCs] /\ rpc \in [Readers -> RPCs] /\ mig \in Nat
        /\ MutualExclusion
        /\ \A w \in Writers : wpc[w] \in InCS <=> wlock = w
        /\ \A r \in Readers : r \in rlocks <=> rpc[r] = "scan"
        /\ (mig # 0 => \E w \in Writers : wpc[w] = "migrate")
ScanSeesStableFilter == \A r \in Readers : rpc[r] = "scan" => (wlock = "none" /\ mig = 0)

LEMMA LInit == Init => LInv
  BY LockAssump DEF Init, LInv, MutualExclusion, WPCs, RPCs, InCS

LEMMA LNext == LInv /\ [Next]_vars => LInv'
<1> SUFFICES ASSUME LInv, [Next]_vars PROVE LInv'
  OBVIOUS
<1> USE LockAssump DEF LInv, MutualExclusion, WPCs, RPCs, InCS
<1>1. ASSUME NEW w \in Writers, WBegin(w) PROVE LInv'
  BY <1>1 DEF WBegin
<1>2. ASSUME NEW w \in Writers, WFlag(w) PROVE LInv'
  BY <1>2 DEF WFlag
<1>3. ASSUME NEW w \in Writers, WLock(w) PROVE LInv'
  BY <1>3 DEF WLock
<1>4. ASSUME NEW w \in Writers, WBody(w) PROVE LInv'
  BY <1>4 DEF WBody
<1>5. ASSUME NEW w \in Writers, WMigrate(w) PROVE LInv'
  BY <1>5 DEF WMigrate
<1>6. ASSUME NEW w \in Writers, WUnlock(w) PROVE LInv'
  BY <1>6 DEF WUnlock
<1>7. ASSUME NEW w \in Writers, WEnd(w) PROVE LInv'
  BY <1>7 DEF WEnd
<1>8. ASSUME NEW r \in Readers, NEW ip \in Addrs, RBegin(r, ip) PROVE LInv'
  BY <1>8 DEF RBegin
<1>9. ASSUME NEW r \in Readers, RFlag(r) PROVE LInv'
  BY <1>9 DEF RFlag
<1>10. ASSUME NEW r \in Readers, RLock(r) PROVE LInv'
  BY <1>10 DEF RLock
<1>11. ASSUME NEW r \in Readers, RScan(r) PROVE LInv'
  BY <1>11 DEF RScan
<1>12. ASSUME NEW r \in Readers, REnd(r) PROVE LInv'
  BY <1>12 DEF REnd
<1>13. CASE UNCHANGED vars
  BY <1>13 DEF vars
<1> QED BY <1>1, <1>2, <1>3, <1>4, <1>5, <1>6, <1>7, <1>8, <1>9, <1>10, <1>11, <1>12, <1>13 DEF Next

THEOREM LockSafety == Spec => [](MutualExclusion /\ ScanSeesStableFilter)
<1>1. LInv => MutualExclusion /\ ScanSeesStableFilter
  BY LockAssump DEF LInv, ScanSeesStableFilter, MutualExclusion, InCS
<1> QED BY LInit, LNext, <1>1, PTL DEF Spec
=============================================================================
