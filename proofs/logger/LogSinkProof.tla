------------------------------ MODULE LogSinkProof ------------------------------
(***************************************************************************)
(* Unbounded safety of LogSink.tla (C02), checked by the TLA+ proof        *)
(* system: for ANY set of goroutines, ANY records and ANY set of derived   *)
(* handler nodes, with the design as built (Mutant = "none"):              *)
(*   - no two goroutines are inside out.Write at the same time,            *)
(*   - the payload of every Write is the line of the writer's own record,  *)
(*   - a pooled buffer is never one somebody still formats or writes.      *)
(* TLC checks the same for 3 goroutines x 2 records.                       *)
(***************************************************************************)
EXTENDS LogSink, TLAPS

RecT == [node : Nodes, enabled : BOOLEAN, big : BOOLEAN]
ASSUME Assump == /\ Mutant = "none" /\ "root" \in Nodes /\ "none" \notin Gs
                 /\ Recs \in [Gs -> Seq(RecT)]

PCs == {"gate", "get", "format", "lock", "wbegin", "wend", "unlock", "free"}
Holding == {"format", "lock", "wbegin", "wend", "unlock", "free"}     \* the goroutine owns buffer buf[g]
Filled == {"lock", "wbegin", "wend", "unlock", "free"}                 \* ... and its line is in it
Locked == {"wbegin", "wend", "unlock"}                                 \* ... and it holds the mutex

TypeOK == /\ pc \in [Gs -> PCs] /\ ri \in [Gs -> Nat] /\ buf \in [Gs -> Nat]
          /\ nbuf \in Nat /\ pool \subseteq 1..nbuf /\ inuse \subseteq 1..nbuf
          /\ content \in Seq((Gs \cup {"none"}) \X Nat) /\ Len(content) = nbuf
          /\ holder \in [Nodes -> Gs \cup {"none"}]
          /\ writing \subseteq Gs
          /\ writes \in Seq(Gs \X Nat \X ((Gs \cup {"none"}) \X Nat))

AtMostOneWriting == \A g, h \in writing : g = h
Inv == /\ TypeOK
       /\ \A g \in Gs : pc[g] \in Locked => holder["root"] = g
       /\ \A g \in Gs : g \in writing <=> pc[g] = "wend"
       /\ \A g \in Gs : pc[g] \in Holding => buf[g] \in inuse
       /\ \A g, h \in Gs : (pc[g] \in Holding /\ pc[h] \in Holding /\ g # h) => buf[g] # buf[h]
       /\ \A g \in Gs : pc[g] \in Filled => content[buf[g]] = <<g, ri[g]>>
       /\ \A b \in inuse : \E g \in Gs : pc[g] \in Holding /\ buf[g] = b
       /\ PoolSafe
       /\ OwnLine
       /\ AtMostOneWriting

LEMMA InitInv == Init => Inv
  BY Assump DEF Init, Inv, TypeOK, PCs, Holding, Filled, Locked, PoolSafe, OwnLine, AtMostOneWriting

LEMMA NextInv == Inv /\ [Next]_vars => Inv'
<1> SUFFICES ASSUME Inv, [Next]_vars PROVE Inv'
  OBVIOUS
<1> USE Assump DEF Inv, TypeOK, PCs, Holding, Filled, Locked, PoolSafe, OwnLine, AtMostOneWriting, MuOf, Cur, NextRec, RecT
<1>1. ASSUME NEW g \in Gs, Gate(g) PROVE Inv'
  BY <1>1 DEF Gate
<1>2. ASSUME NEW g \in Gs, Get(g) PROVE Inv'
  BY <1>2 DEF Get
<1>3. ASSUME NEW g \in Gs, Format(g) PROVE Inv'
  BY <1>3 DEF Format
<1>4. ASSUME NEW g \in Gs, Lock(g) PROVE Inv'
  BY <1>4 DEF Lock
<1>5. ASSUME NEW g \in Gs, WBegin(g) PROVE Inv'
  BY <1>5 DEF WBegin
<1>6. ASSUME NEW g \in Gs, WEnd(g) PROVE Inv'
  BY <1>6 DEF WEnd
<1>7. ASSUME NEW g \in Gs, Unlock(g) PROVE Inv'
  BY <1>7 DEF Unlock
<1>8. ASSUME NEW g \in Gs, Free(g) PROVE Inv'
  BY <1>8 DEF Free
<1>9. CASE UNCHANGED vars
  BY <1>9 DEF vars
<1> QED BY <1>1, <1>2, <1>3, <1>4, <1>5, <1>6, <1>7, <1>8, <1>9 DEF Next

THEOREM Safety == Spec => [](AtMostOneWriting /\ OwnLine /\ PoolSafe)
<1>1. Inv => AtMostOneWriting /\ OwnLine /\ PoolSafe
  BY DEF Inv
<1> QED BY InitInv, NextInv, <1>1, PTL DEF Spec
=============================================================================
