----------------------------- MODULE ProgressProof -----------------------------
(***************************************************************************)
(* Unbounded safety of Progress.tla (C19), checked by the TLA+ proof       *)
(* system: for ANY number of writes and ANY byte counts, with the design   *)
(* as built (Mutant = "none"), the values received from Status() are       *)
(* non-decreasing, each is Size() after some completed write, a Write      *)
(* never parks, and once Close() has returned the last value received is   *)
(* the total.  TLC checks the same formulas for MaxWrites, MaxN <= 3.      *)
(***************************************************************************)
EXTENDS Progress, TLAPS

ASSUME ConstAssump == MaxWrites \in Nat /\ MaxN \in Nat /\ Mutant = "none"

PCs == {"idle", "under", "offer", "parkedInSum", "closeParked", "closed"}
TypeOK == /\ wpc \in PCs /\ req \in Nat /\ size \in Nat /\ sums \in Seq(Nat) /\ nwrites \in Nat
          /\ cpc \in {"away", "parked", "done"} /\ recvd \in Seq(Nat) /\ sawClose \in BOOLEAN

AllLeSize == \A a \in 1..Len(recvd) : recvd[a] <= size
Inv == /\ TypeOK /\ SizeIsSum /\ AllLeSize /\ Monotone /\ EachIsASize /\ NeverParksInWrite
       /\ CloseDeliversTotal /\ AfterCloseClosed

LEMMA InitInv == Init => Inv
  BY ConstAssump DEF Init, Inv, TypeOK, PCs, SizeIsSum, AllLeSize, Monotone, EachIsASize, NeverParksInWrite, CloseDeliversTotal, AfterCloseClosed

LEMMA NextInv == Inv /\ [Next]_vars => Inv'
<1> SUFFICES ASSUME Inv, [Next]_vars PROVE Inv'
  OBVIOUS
<1> USE ConstAssump DEF Inv, TypeOK, PCs, SizeIsSum, AllLeSize, Monotone, EachIsASize, NeverParksInWrite, CloseDeliversTotal, AfterCloseClosed
<1>1. ASSUME NEW n \in 0..MaxN, Call(n) PROVE Inv'
  BY <1>1 DEF Call
<1>2. ASSUME NEW k \in 0..MaxN, Under(k) PROVE Inv'
  BY <1>2 DEF Under
<1>3. CASE Offer
  BY <1>3 DEF Offer
<1>4. CASE Close
  BY <1>4 DEF Close
<1>5. CASE Recv
  BY <1>5 DEF Recv
<1>6. CASE WakeClosed
  BY <1>6 DEF WakeClosed
<1>7. CASE UNCHANGED vars
  BY <1>7 DEF vars
<1> QED BY <1>1, <1>2, <1>3, <1>4, <1>5, <1>6, <1>7 DEF Next

THEOREM Safety == Spec => []Inv
  BY InitInv, NextInv, PTL DEF Spec
=============================================================================
