------------------------------ MODULE WaitForCases ------------------------------
(* Judge: one TLC state per recorded child process run. *)
EXTENDS WaitFor, TLC, Json
Cases == ndJsonDeserialize("cases.ndjson")
VARIABLE i
Init == i \in 1..Len(Cases)
Next == UNCHANGED i
ToSet(seq) == {seq[k] : k \in 1..Len(seq)}
JudgeOK == LET c == Cases[i]
               want == Observe(StateAtStart(c.fn), c.sigs, ToSet(c.elsewhere))
           IN (c.ready /\ Len(c.obs) = Len(want) /\ \A k \in 1..Len(want) : ToSet(c.obs[k]) = want[k]) \/ PrintT(<<"BAD", i>>)
=============================================================================
