-------------------------------- MODULE WaitFor --------------------------------
(***************************************************************************)
(* Beyond the listed properties: osutil.WaitFor / WaitForInterrupt /       *)
(* WaitForStop as a machine over the signals a process receives.           *)
(*                                                                         *)
(*   state: listening (the set WaitFor has asked to be told about; empty   *)
(*          before the call and again after it returned - signal.Stop),    *)
(*          returned, alive                                                *)
(*   Deliver(s):                                                           *)
(*     s is handled elsewhere in the program      -> that handler gets it  *)
(*     s in listening, not yet returned           -> WaitFor returns, and  *)
(*                                                   stops listening       *)
(*     (both can apply: a signal goes to everyone who asked for it)        *)
(*     nobody wants s                             -> what the Go runtime   *)
(*          does with it: HUP, INT, TERM end the process, USR1 and USR2    *)
(*          have no effect                                                 *)
(* "blocks until current process receives any of signals": WaitFor returns *)
(* at the FIRST delivered signal of its set and at no other moment; a      *)
(* signal outside the set never wakes it; after the return the process no  *)
(* longer intercepts the set (a second Ctrl-C during clean-up kills it).   *)
(***************************************************************************)
EXTENDS Naturals, Sequences, FiniteSets

Signals == {"HUP", "INT", "TERM", "USR1", "USR2"}
Fatal   == {"HUP", "INT", "TERM"}   \* os/signal: "A SIGHUP, SIGINT, or SIGTERM signal causes the program to exit"
SetOf(fn) == CASE fn = "interrupt" -> {"INT"}
               [] fn = "stop"      -> {"INT", "TERM"}
               [] fn = "usr1"      -> {"USR1"}
               [] fn = "usr1hup"   -> {"USR1", "HUP"}
Fns == {"interrupt", "stop", "usr1", "usr1hup"}

\* elsewhere = the signals some other part of the program has its own Notify for
StateAtStart(fn) == [listening |-> SetOf(fn), returned |-> FALSE, alive |-> TRUE]

\* what one delivered signal does: it is handed to EVERY part of the program that asked for it
Step(st, s, elsewhere) ==
  LET wakes == s \in st.listening /\ ~st.returned
      seen  == (IF wakes THEN {"returned"} ELSE {}) \cup (IF s \in elsewhere THEN {"got"} ELSE {})
  IN  IF ~st.alive THEN [st |-> st, obs |-> {"dead"}]
      ELSE IF seen # {} THEN [st |-> IF wakes THEN [st EXCEPT !.returned = TRUE, !.listening = {}] ELSE st, obs |-> seen]
      ELSE IF s \in Fatal THEN [st |-> [st EXCEPT !.alive = FALSE], obs |-> {"died"}]
      ELSE [st |-> st, obs |-> {}]

RECURSIVE Observe(_, _, _)
Observe(st, sigs, elsewhere) ==
  IF sigs = <<>> THEN <<>>
  ELSE LET r == Step(st, Head(sigs), elsewhere)
       IN  IF r.obs = {"dead"} THEN <<>> ELSE <<r.obs>> \o Observe(r.st, Tail(sigs), elsewhere)
=============================================================================
