------------------------------- MODULE WaitForMC -------------------------------
(* All behaviours of the WaitFor machine for up to MaxSigs delivered signals. *)
EXTENDS WaitFor, TLC
CONSTANT MaxSigs
VARIABLES fn, elsewhere, st, delivered, obs
vars == <<fn, elsewhere, st, delivered, obs>>

Init == /\ fn \in Fns /\ elsewhere \in SUBSET Signals
        /\ st = StateAtStart(fn) /\ delivered = <<>> /\ obs = <<>>
Deliver(s) == /\ Len(delivered) < MaxSigs /\ st.alive
              /\ LET r == Step(st, s, elsewhere) IN st' = r.st /\ obs' = Append(obs, r.obs)
              /\ delivered' = Append(delivered, s) /\ UNCHANGED <<fn, elsewhere>>
Next == \E s \in Signals : Deliver(s)
Spec == Init /\ [][Next]_vars

InSet(k) == delivered[k] \in SetOf(fn)
\* returns at the first signal of its set, and only then
ReturnsAtFirst == \A k \in 1..Len(obs) : ("returned" \in obs[k]) <=> (InSet(k) /\ \A j \in 1..(k-1) : ~InSet(j))
ReturnedIff == st.returned <=> \E k \in 1..Len(delivered) : InSet(k)
\* a signal outside the set never wakes WaitFor and never changes what it listens to
OthersInert == \A k \in 1..Len(obs) : ~InSet(k) => "returned" \notin obs[k]
ElsewhereAlways == \A k \in 1..Len(obs) : ("got" \in obs[k]) <=> (delivered[k] \in elsewhere)
StopsListening == st.returned => st.listening = {}
\* the step-by-step machine and the fold used to judge recorded runs agree
FoldAgrees == Observe(StateAtStart(fn), delivered, elsewhere) = obs
\* the process dies exactly when nobody wants the signal
DiesIffUnwanted == \A k \in 1..Len(obs) : (obs[k] = {"died"}) <=>
   (delivered[k] \in Fatal /\ delivered[k] \notin elsewhere /\ (~InSet(k) \/ \E j \in 1..(k-1) : InSet(j)))
Facts == ReturnsAtFirst /\ ElsewhereAlways /\ ReturnedIff /\ OthersInert /\ StopsListening /\ FoldAgrees /\ DiesIffUnwanted
\* vacuity mutants of the statement, checked to fail
NeverDies == st.alive
=============================================================================
