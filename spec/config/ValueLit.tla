-------------------------------- MODULE ValueLit --------------------------------
(***************************************************************************)
(* Beyond the listed properties: the value layer of the config parser and  *)
(* the usage text.                                                         *)
(*                                                                         *)
(* Value texts (from the command line, the environment, or the default in  *)
(* the struct tag):                                                        *)
(*   - the empty text is the zero value of every type, never an error;     *)
(*   - int / int64 / uint / uint64 read an optional sign (signed types     *)
(*     only) followed by a Go integer literal (The Go Programming Language *)
(*     Specification, "Integer literals"):                                 *)
(*        decimal "0" | 1-9 {[_] digit}     binary 0b [_] bits             *)
(*        octal   0 [o] [_] octal digits    hex    0x [_] hex digits       *)
(*     with "_" only between digits or after the base prefix;              *)
(*   - bool reads exactly 1 t T TRUE true True 0 f F FALSE false False.    *)
(* Byte strings are tuples of ints.  Only short texts are judged, so       *)
(* values stay far from the range limits (range is numeric, outside TLA+). *)
(*                                                                         *)
(* Usage text: one line per flag in definition order (help, config first): *)
(*   "  -" name pad " " type pad " " usage [" [" ENV "]"] [" (default " d ")"] LF *)
(* names padded to the longest name (at most 64), types to 8; continuation *)
(* lines of a multi-line usage are indented to the usage column; the       *)
(* default is shown unless it is the type's zero text, quoted for strings. *)
(***************************************************************************)
EXTENDS GoLit, TLC, Json

TrueTexts  == { <<49>>, <<116>>, <<84>>, <<84, 82, 85, 69>>, <<116, 114, 117, 101>>, <<84, 114, 117, 101>> }
FalseTexts == { <<48>>, <<102>>, <<70>>, <<70, 65, 76, 83, 69>>, <<102, 97, 108, 115, 101>>, <<70, 97, 108, 115, 101>> }
BoolLit(s) == IF s = <<>> \/ s \in FalseTexts THEN [ok |-> TRUE, v |-> 0]
              ELSE IF s \in TrueTexts THEN [ok |-> TRUE, v |-> 1] ELSE LitErr

Lit(ty, s) == CASE ty = "bool" -> BoolLit(s)
                [] ty \in {"int", "int64"} -> IntLit(s, TRUE)
                [] ty \in {"uint", "uint64"} -> IntLit(s, FALSE)

-----------------------------------------------------------------------------
(* Usage text *)
RECURSIVE Spaces(_)
Spaces(n) == IF n <= 0 THEN <<>> ELSE <<32>> \o Spaces(n - 1)
Min(a, b) == IF a < b THEN a ELSE b
RECURSIVE Indent(_, _, _)
Indent(u, i, n) == IF i > Len(u) THEN <<>> ELSE (IF u[i] = 10 THEN <<10>> \o Spaces(n) ELSE <<u[i]>>) \o Indent(u, i + 1, n)
ZeroText(ty) == CASE ty = "bool" -> <<102, 97, 108, 115, 101>>          \* false
                  [] ty \in {"int", "int64", "uint", "uint64", "float64"} -> <<48>>
                  [] ty = "duration" -> <<48, 115>>                         \* 0s
                  [] OTHER -> <<>>                                          \* string, bytes
\* f: [name, ty (bytes), tyname (string), usage, env, def (as shown: quoted already for strings), defraw]
UsageLine(f, maxlen) ==
  LET nameLen == Min(64, maxlen) IN
  <<32, 32, 45>> \o f.name \o Spaces(nameLen - Len(f.name)) \o <<32>>
  \o f.ty \o Spaces(8 - Len(f.ty)) \o <<32>>
  \o Indent(f.usage, 1, 3 + nameLen + 1 + 8 + 1)
  \o (IF f.env = <<>> THEN <<>> ELSE <<32, 91>> \o f.env \o <<93>>)
  \o (IF f.defraw = ZeroText(f.tyname) THEN <<>> ELSE <<32, 40, 100, 101, 102, 97, 117, 108, 116, 32>> \o f.def \o <<41>>)
  \o <<10>>
RECURSIVE MaxName(_, _)
MaxName(fs, i) == IF i > Len(fs) THEN 0 ELSE LET r == MaxName(fs, i + 1) IN IF Len(fs[i].name) > r THEN Len(fs[i].name) ELSE r
RECURSIVE UsageFrom(_, _, _)
UsageFrom(fs, i, m) == IF i > Len(fs) THEN <<>> ELSE UsageLine(fs[i], m) \o UsageFrom(fs, i + 1, m)
Usage(fs) == UsageFrom(fs, 1, MaxName(fs, 1))

-----------------------------------------------------------------------------
Cases == ndJsonDeserialize("cases.ndjson")
VARIABLE i
Init == i \in 1..Len(Cases)
Next == UNCHANGED i
\* kind "lit": ty, s, and per route (arg / env / def) whether it was accepted and the value stored
\* kind "usage": flags, out (the bytes PrintUsage wrote), writes (one Write per flag)
JudgeOK == LET c == Cases[i] IN
   (IF c.kind = "lit" THEN
       LET w == Lit(c.ty, c.s) IN
       /\ c.argok = w.ok /\ c.envok = w.ok /\ c.defok = w.ok
       /\ (w.ok => c.argv = w.v /\ c.envv = w.v /\ c.defv = w.v)
    ELSE c.out = Usage(c.flags) /\ c.writes = Len(c.flags)
   ) \/ PrintT(<<"BAD", i>>)
=============================================================================
