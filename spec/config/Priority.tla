------------------------------- MODULE Priority -------------------------------
(***************************************************************************)
(* C09 - source priority of config.FlagSet.Parse:                          *)
(*        command line > environment > JSON (file, else B64) > tag default *)
(*                                                                         *)
(* A scenario fixes, for every field, what each source says about it:      *)
(*   "absent"  - the source does not mention the field                     *)
(*   "zero"    - the source gives the empty text (cli/env/tag) or, for     *)
(*               JSON, an explicit zero value: the type's zero value       *)
(*   a token   - a value; every source uses its own token "<src>_<field>", *)
(*               so the final value tells which source won                 *)
(* plus which JSON carriers exist (file named by -config, CFG_CONFIG_B64). *)
(* A decoy is always present: the environment variable CFG_CONFIG names a  *)
(* third document, which must never be read (the path comes from the cli). *)
(*                                                                         *)
(* Statement layer: Final[f] = FirstPresent(cli, env, json, default).      *)
(* Implementation-shaped layer: the steps of NewFlagSet + Parse, in order. *)
(***************************************************************************)
EXTENDS Naturals, Sequences, FiniteSets, TLC, Json

CONSTANTS Fields,     \* model fields, e.g. {"f1", "f2"}
          Rich,       \* fields whose sources range over {absent, zero, token}; the others over {absent, token}
          Mutant      \* "none", or the name of a deliberately wrong implementation (non-vacuity)

Absent == "absent"
Zero   == "zero"
Nil    == "nil"
Tok(src, f) == src \o "_" \o f
Choices(src, f) == IF f \in Rich THEN {Absent, Zero, Tok(src, f)} ELSE {Absent, Tok(src, f)}
AllVals == {Absent, Zero} \cup {Tok(s, f) : s \in {"def", "cli", "env", "file", "b64", "decoy"}, f \in Fields}
Fn(src) == {g \in [Fields -> AllVals] : \A f \in Fields : g[f] \in Choices(src, f)}
None == [f \in Fields |-> Absent]
Decoy == [f \in Fields |-> Tok("decoy", f)]

ScenarioSet ==
  { [def |-> d, cli |-> c, env |-> e, file |-> fl, b64 |-> b, hasFile |-> hf, hasB64 |-> hb] :
      d \in Fn("def"), c \in Fn("cli"), e \in Fn("env"),
      fl \in Fn("file"), b \in Fn("b64"), hf \in BOOLEAN, hb \in BOOLEAN }

VARIABLES scen, pc, val, argv, envv, cfgpath
vars == <<scen, pc, val, argv, envv, cfgpath>>

Init ==
  /\ scen \in ScenarioSet
  /\ (~scen.hasFile => scen.file = None)            \* a carrier that does not exist says nothing
  /\ (~scen.hasB64 => scen.b64 = None)
  /\ pc = "new"
  /\ val = [f \in Fields |-> "unset"]
  /\ argv = [f \in Fields |-> Nil] /\ envv = [f \in Fields |-> Nil]
  /\ cfgpath = ""

\* NewFlagSet: every flag value is Set() to the tag default; an empty default text is the zero value
New == /\ pc = "new" /\ pc' = "argparse"
       /\ val' = [f \in Fields |-> IF scen.def[f] = Absent THEN Zero ELSE scen.def[f]]
       /\ UNCHANGED <<scen, argv, envv, cfgpath>>
\* argParse: remembers the text of each flag given on the command line (nothing is applied yet)
ArgParse == /\ pc = "argparse" /\ pc' = "envparse"
            /\ argv' = [f \in Fields |-> IF scen.cli[f] = Absent THEN Nil ELSE scen.cli[f]]
            /\ UNCHANGED <<scen, val, envv, cfgpath>>
\* envParse: remembers the text of each CFG_* variable that is set (possibly to the empty string)
EnvParse == /\ pc = "envparse" /\ pc' = "cfgpath"
            /\ envv' = [f \in Fields |-> IF scen.env[f] = Absent THEN Nil ELSE scen.env[f]]
            /\ UNCHANGED <<scen, val, argv, cfgpath>>
\* the built-in config flag is applied from the command line only
ConfigPath == /\ pc = "cfgpath" /\ pc' = "json"
              /\ cfgpath' = IF scen.hasFile THEN "file"
                            ELSE IF Mutant = "ConfigFromEnv" THEN "decoy" ELSE ""
              /\ UNCHANGED <<scen, val, argv, envv>>
\* parseConfigJson: file if a path is set, else CFG_CONFIG_B64 if set; unmarshal over the defaults
Doc == IF cfgpath = "file" THEN scen.file
       ELSE IF cfgpath = "decoy" THEN Decoy
       ELSE IF scen.hasB64 THEN scen.b64 ELSE None
LoadJson == /\ pc = "json" /\ pc' = "apply"
            /\ val' = [f \in Fields |-> IF Doc[f] # Absent THEN Doc[f] ELSE val[f]]
            /\ UNCHANGED <<scen, argv, envv, cfgpath>>
\* final loop: command-line text, else environment text, is Set() on the flag value
Apply == /\ pc = "apply" /\ pc' = "done"
         /\ val' = [f \in Fields |->
              CASE Mutant = "EnvOverCli" ->
                     IF envv[f] # Nil THEN envv[f] ELSE IF argv[f] # Nil THEN argv[f] ELSE val[f]
                [] Mutant = "EmptyEnvIgnored" ->
                     IF argv[f] # Nil THEN argv[f] ELSE IF envv[f] \notin {Nil, Zero} THEN envv[f] ELSE val[f]
                [] Mutant = "SkipIfDefault" ->       \* "the default was applied already": forgets the JSON in between
                     IF argv[f] # Nil /\ argv[f] # (IF scen.def[f] = Absent THEN Zero ELSE scen.def[f]) THEN argv[f]
                     ELSE IF argv[f] = Nil /\ envv[f] # Nil THEN envv[f] ELSE val[f]
                [] OTHER ->
                     IF argv[f] # Nil THEN argv[f] ELSE IF envv[f] # Nil THEN envv[f] ELSE val[f]]
         /\ UNCHANGED <<scen, argv, envv, cfgpath>>
Next == New \/ ArgParse \/ EnvParse \/ ConfigPath \/ LoadJson \/ Apply
Spec == Init /\ [][Next]_vars

-----------------------------------------------------------------------------
(* Statement layer.                                                        *)
JsonOf(s) == IF s.hasFile THEN s.file ELSE IF s.hasB64 THEN s.b64 ELSE None
FirstPresent(s, f) ==
  IF s.cli[f] # Absent THEN s.cli[f]
  ELSE IF s.env[f] # Absent THEN s.env[f]
  ELSE IF JsonOf(s)[f] # Absent THEN JsonOf(s)[f]
  ELSE IF s.def[f] # Absent THEN s.def[f] ELSE Zero
PriorityHolds == pc = "done" => \A f \in Fields : val[f] = FirstPresent(scen, f)
\* a field's outcome never depends on what the sources say about another field
Independent == pc = "done" => \A f \in Fields : val[f] \in {Zero} \cup {Tok(s, f) : s \in {"def", "cli", "env", "file", "b64"}}

\* generation: print every finished scenario with the predicted final values
Export == pc = "done" => PrintT(ToJson([scen |-> scen, final |-> val]))
=============================================================================
