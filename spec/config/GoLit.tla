---------------------------------- MODULE GoLit ----------------------------------
(***************************************************************************)
(* Integer value texts of the config parser: an optional sign (signed      *)
(* types only) followed by a Go integer literal (The Go Programming        *)
(* Language Specification, "Integer literals"):                            *)
(*     decimal "0" | 1-9 {[_] digit}     binary 0b [_] bits                *)
(*     octal   0 [o] [_] octal digits    hex    0x [_] hex digits          *)
(* with "_" only between digits or after the base prefix.  The empty text  *)
(* is the zero value.  Byte strings are tuples of ints; only short texts   *)
(* are evaluated, so values stay far from the range limits.                *)
(* Used by ValueLit (extras X07) and by ArgParse (C10).                    *)
(***************************************************************************)
EXTENDS Integers, Sequences

Lower(c) == IF c \in 65..90 THEN c + 32 ELSE c
DigitVal(c) == LET l == Lower(c) IN IF c \in 48..57 THEN c - 48 ELSE IF l \in 97..122 THEN l - 87 ELSE 0 - 1
US == 95
LitErr == [ok |-> FALSE, v |-> 0]

\* digit {[_] digit} from position i; lead = an underscore may come first (after a base prefix or the octal 0)
RECURSIVE DigitsFrom(_, _, _, _, _, _)
DigitsFrom(s, i, base, acc, prev, any) ==     \* prev: "d" digit (or prefix), "u" underscore, "n" nothing yet and no underscore allowed
  IF i > Len(s) THEN (IF any /\ prev = "d" THEN [ok |-> TRUE, v |-> acc] ELSE LitErr)
  ELSE IF s[i] = US THEN (IF prev = "d" THEN DigitsFrom(s, i + 1, base, acc, "u", any) ELSE LitErr)
  ELSE LET d == DigitVal(s[i]) IN
       IF d < 0 \/ d >= base THEN LitErr ELSE DigitsFrom(s, i + 1, base, acc * base + d, "d", TRUE)

IntBody(b) ==
  IF b = <<>> THEN LitErr
  ELSE IF b = <<48>> THEN [ok |-> TRUE, v |-> 0]
  ELSE IF b[1] = 48 THEN
       LET p == Lower(b[2]) IN
       IF p = 98 THEN DigitsFrom(b, 3, 2, 0, "d", FALSE)
       ELSE IF p = 111 THEN DigitsFrom(b, 3, 8, 0, "d", FALSE)
       ELSE IF p = 120 THEN DigitsFrom(b, 3, 16, 0, "d", FALSE)
       ELSE DigitsFrom(b, 2, 8, 0, "d", FALSE)
  ELSE IF b[1] \in 49..57 THEN DigitsFrom(b, 1, 10, 0, "n", FALSE)
  ELSE LitErr

LitFrom(s, i) == IF i > Len(s) THEN <<>> ELSE SubSeq(s, i, Len(s))
IntLit(s, signed) ==
  IF s = <<>> THEN [ok |-> TRUE, v |-> 0]
  ELSE IF s[1] \in {43, 45} THEN
       (IF ~signed THEN LitErr
        ELSE LET r == IntBody(LitFrom(s, 2)) IN IF r.ok /\ s[1] = 45 THEN [ok |-> TRUE, v |-> 0 - r.v] ELSE r)
  ELSE IntBody(s)
=============================================================================
