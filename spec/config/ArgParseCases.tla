----------------------------- MODULE ArgParseCases -----------------------------
(* Judge of recorded runs of the real config.FlagSet.Parse:
   {v: argument vector, err, panic, b, t, s, i, help, rest}. *)
EXTENDS ArgParse, Json
Cases == ndJsonDeserialize("cases.ndjson")
ExistingConfig == ndJsonDeserialize("cfgpath.ndjson")[1]
VARIABLE i
Init == i \in 1..Len(Cases)
Next == UNCHANGED i
Agrees(c) == LET o == Outcome(c.v, ExistingConfig) IN
    /\ ~c.panic
    /\ (o.err = "yes" => c.err)
    /\ (o.err = "no" => ~c.err)
    /\ (~c.err /\ o.err # "yes") =>
          /\ c.b = o.b /\ c.t = o.t /\ c.help = o.help /\ c.s = o.s /\ c.rest = o.rest
          /\ (o.iknown => c.i = o.i)
JudgeOK == Agrees(Cases[i]) \/ PrintT(<<"BAD", i>>)
=============================================================================
