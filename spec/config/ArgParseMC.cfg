SPECIFICATION Spec
CONSTANTS
  MaxLen = 3
INVARIANT Refines
INVARIANT BoolSwallows
PROPERTY Facts
CHECK_DEADLOCK FALSE
