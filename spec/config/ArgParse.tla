------------------------------- MODULE ArgParse -------------------------------
(***************************************************************************)
(* C10 - command-line grammar of config.FlagSet.Parse.                     *)
(*                                                                         *)
(* Tokens and values are byte strings (tuples of ints).  Two layers:       *)
(*   Grammar(args)  - statement layer: the documented grammar, token by    *)
(*                    token (-name=value, -name value, one or two dashes,  *)
(*                    bare boolean flags, "--" terminator, first non-flag  *)
(*                    stops parsing, last occurrence wins);                *)
(*   Machine(args)  - implementation-shaped: the index-scanning loop of    *)
(*                    argParse() as the code performs it.                  *)
(* Outcome(args) adds what Parse does with the collected texts: built-in   *)
(* -help / -config, and errors for unparsable effective values.            *)
(***************************************************************************)
EXTENDS GoLit, FiniteSets, TLC

DASH == 45
EQ   == 61

\* the flag set used by the model and by the harness (kinds as in config/value.go)
NameT == <<116>>    NameB == <<98>>    NameS == <<115>>    NameI == <<105>>    NameHelp == <<104, 101, 108, 112>>    NameConfig == <<99, 111, 110, 102, 105, 103>>
FlagKinds == (NameB :> "bool") @@ (NameT :> "bool") @@ (NameS :> "string") @@ (NameI :> "int")
             @@ (NameHelp :> "bool") @@ (NameConfig :> "string")
Kind(name) == IF name \in DOMAIN FlagKinds THEN FlagKinds[name] ELSE "undefined"
TrueText == <<116, 114, 117, 101>>

\* defaults of the harness struct: B=false, T=true (a boolean flag that is on unless switched off), S="d", I=3
NoAssign == [n \in DOMAIN FlagKinds |-> <<"unset">>]
SetText(asg, name, text) == [asg EXCEPT ![name] = <<"set", text>>]
Ok(asg, rest, stopped) == [err |-> FALSE, why |-> "", asg |-> asg, rest |-> rest, stopped |-> stopped]
Err(why)      == [err |-> TRUE, why |-> why, asg |-> NoAssign, rest |-> <<>>, stopped |-> TRUE]

From(args, i) == SubSeq(args, i, Len(args))

-----------------------------------------------------------------------------
(* Statement layer: the documented grammar.                                *)
IsFlagLike(tok) == Len(tok) >= 2 /\ tok[1] = DASH
Terminator == <<DASH, DASH>>
Body(tok) == IF tok[2] = DASH THEN SubSeq(tok, 3, Len(tok)) ELSE SubSeq(tok, 2, Len(tok))
\* position (>= 2) of the first '=' in the body, 0 if none: a name is never empty
FirstEq(body) == LET P == {k \in 2..Len(body) : body[k] = EQ}
                 IN IF P = {} THEN 0 ELSE CHOOSE k \in P : \A j \in P : k <= j

RECURSIVE G(_, _, _)
G(args, i, asg) ==
  IF i > Len(args) THEN Ok(asg, <<>>, FALSE)
  ELSE LET tok == args[i] IN
    IF ~IsFlagLike(tok) THEN Ok(asg, From(args, i), TRUE)                \* first non-flag: stop, keep it
    ELSE IF tok = Terminator THEN Ok(asg, From(args, i + 1), TRUE)       \* "--": stop, drop it
    ELSE LET body == Body(tok) IN
      IF body = <<>> \/ body[1] \in {DASH, EQ} THEN Err("syntax")  \* "---x", "-=", "--=v"
      ELSE LET e    == FirstEq(body)
               name == IF e = 0 THEN body ELSE SubSeq(body, 1, e - 1)
           IN
        IF Kind(name) = "undefined" THEN Err("undefined")
        ELSE IF e > 0 THEN G(args, i + 1, SetText(asg, name, SubSeq(body, e + 1, Len(body))))
        ELSE IF Kind(name) = "bool" THEN G(args, i + 1, SetText(asg, name, TrueText))
        ELSE IF i + 1 <= Len(args) THEN G(args, i + 2, SetText(asg, name, args[i + 1]))
        ELSE Err("missing")
Grammar(args) == G(args, 1, NoAssign)

-----------------------------------------------------------------------------
(* Implementation-shaped layer: argParse() with its slices and indices.    *)
(* f = remaining args (f.args), exactly the statements of the Go loop.     *)
RECURSIVE ScanEq(_, _)
ScanEq(name, k) == IF k > Len(name) THEN 0 ELSE IF name[k] = EQ THEN k ELSE ScanEq(name, k + 1)

RECURSIVE M(_, _)
M(f, asg) ==
  IF Len(f) = 0 THEN Ok(asg, f, FALSE)
  ELSE LET name0 == f[1] IN
    IF Len(name0) < 2 \/ name0[1] # DASH THEN Ok(asg, f, TRUE)
    ELSE LET name1 == SubSeq(name0, 2, Len(name0)) IN            \* name = name[1:]
      IF name1[1] = DASH /\ Len(name1) = 1 THEN Ok(asg, From(f, 2), TRUE)
      ELSE LET name2 == IF name1[1] = DASH THEN SubSeq(name1, 2, Len(name1)) ELSE name1 IN
        IF Len(name2) = 0 \/ name2[1] = DASH \/ name2[1] = EQ THEN Err("syntax")
        ELSE LET f1 == From(f, 2)                                  \* f.args = f.args[1:]
                 k  == ScanEq(name2, 2)                            \* for i := 1; i < len(name); i++
                 nm == IF k = 0 THEN name2 ELSE SubSeq(name2, 1, k - 1)
                 hasValue == k # 0
                 val == IF k = 0 THEN <<>> ELSE SubSeq(name2, k + 1, Len(name2))
             IN
          IF nm \notin DOMAIN FlagKinds THEN Err("undefined")
          ELSE IF hasValue THEN M(f1, SetText(asg, nm, val))
          ELSE IF FlagKinds[nm] = "bool" THEN M(f1, SetText(asg, nm, TrueText))
          ELSE IF Len(f1) > 0 THEN M(From(f1, 2), SetText(asg, nm, f1[1]))
          ELSE Err("missing")
Machine(args) == M(args, NoAssign)

-----------------------------------------------------------------------------
(* What Parse does with the collected texts.                               *)
TrueTexts  == { <<49>>, <<116>>, <<84>>, <<84, 82, 85, 69>>, <<116, 114, 117, 101>>, <<84, 114, 117, 101>> }
FalseTexts == { <<48>>, <<102>>, <<70>>, <<70, 65, 76, 83, 69>>, <<102, 97, 108, 115, 101>>, <<70, 97, 108, 115, 101>> }
BoolClass(t) == IF t \in TrueTexts THEN "true" ELSE IF t \in FalseTexts \/ t = <<>> THEN "false" ELSE "invalid"

Digit(c) == c \in 48..57
\* Integer texts: short ones (<= 7 bytes, far from any range limit) are read exactly by the Go integer
\* literal grammar of GoLit (base prefixes, leading-zero octal, underscores); longer ones are understood
\* when they are plain decimals of at most 9 digits, and left to strconv otherwise.
RECURSIVE DecVal(_, _, _)
DecVal(t, k, acc) == IF k > Len(t) THEN acc ELSE DecVal(t, k + 1, acc * 10 + (t[k] - 48))
IntClass(t) ==
  IF t = <<>> THEN [c |-> "valid", v |-> 0]
  ELSE IF Len(t) <= 7 THEN
       LET r == IntLit(t, TRUE) IN IF r.ok THEN [c |-> "valid", v |-> r.v] ELSE [c |-> "invalid", v |-> 0]
  ELSE LET neg == t[1] = 45
           sgn == t[1] \in {43, 45}
           d   == IF sgn THEN SubSeq(t, 2, Len(t)) ELSE t
       IN IF d = <<>> THEN [c |-> "invalid", v |-> 0]
          ELSE IF \A k \in 1..Len(d) : Digit(d[k]) THEN
               IF Len(d) <= 9 /\ (d[1] # 48 \/ Len(d) = 1)
               THEN [c |-> "valid", v |-> IF neg THEN 0 - DecVal(d, 1, 0) ELSE DecVal(d, 1, 0)]
               ELSE [c |-> "unknown", v |-> 0]                    \* long octal / overflow: strconv's business
          ELSE IF \E k \in 1..Len(d) : ~(Digit(d[k]) \/ d[k] \in {95, 120, 88, 111, 79, 98, 66}
                                          \/ d[k] \in 97..102 \/ d[k] \in 65..70)
               THEN [c |-> "invalid", v |-> 0]                    \* a byte no integer literal can contain
          ELSE [c |-> "unknown", v |-> 0]                         \* long 0x.., 1_000_000, ...: trusted to strconv

\* ExistingConfig: the one config path that exists (holds "{}"); any other non-empty path fails
Outcome(args, ExistingConfig) ==
  LET g == Grammar(args) IN
  IF g.err THEN [err |-> "yes", b |-> FALSE, t |-> FALSE, s |-> <<>>, i |-> 0, iknown |-> FALSE, help |-> FALSE, rest |-> <<>>]
  ELSE LET A == g.asg
           bt == IF A[NameB][1] = "set" THEN BoolClass(A[NameB][2]) ELSE "false"
           tt == IF A[NameT][1] = "set" THEN BoolClass(A[NameT][2]) ELSE "true"
           ht == IF A[NameHelp][1] = "set" THEN BoolClass(A[NameHelp][2]) ELSE "false"
           ic == IF A[NameI][1] = "set" THEN IntClass(A[NameI][2]) ELSE [c |-> "valid", v |-> 3]
           cfgBad == A[NameConfig][1] = "set" /\ A[NameConfig][2] # <<>> /\ A[NameConfig][2] # ExistingConfig
           bad == bt = "invalid" \/ tt = "invalid" \/ ht = "invalid" \/ ic.c = "invalid" \/ cfgBad
       IN [err |-> IF bad THEN "yes" ELSE IF ic.c = "unknown" THEN "unknown" ELSE "no",
           b |-> bt = "true", t |-> tt = "true", help |-> ht = "true",
           s |-> IF A[NameS][1] = "set" THEN A[NameS][2] ELSE <<100>>,
           i |-> ic.v, iknown |-> ic.c = "valid", rest |-> g.rest]

-----------------------------------------------------------------------------
(* Statement-level facts about the grammar (checked by TLC on every vector). *)
IsSuffix(r, a) == Len(r) <= Len(a) /\ r = SubSeq(a, Len(a) - Len(r) + 1, Len(a))
RestIsSuffix(args) == LET g == Grammar(args) IN ~g.err => IsSuffix(g.rest, args)

\* Facts about extending a vector by one token w (checked as an action property on the tree
\* of all vectors): once parsing has stopped nothing further is interpreted; a non-flag token
\* or "--" stops it; a bare boolean flag never takes the next token as its value; a repeated
\* flag overrides earlier occurrences.
ExtensionFacts(v, w) ==
  LET g == Grammar(v)  h == Grammar(Append(v, w)) IN
  /\ (~g.err /\ g.stopped) => (h = [g EXCEPT !.rest = Append(g.rest, w)])
  /\ (~g.err /\ ~g.stopped /\ ~IsFlagLike(w)) => (h = [g EXCEPT !.rest = <<w>>, !.stopped = TRUE])
  /\ (~g.err /\ ~g.stopped /\ w = Terminator) => (h = [g EXCEPT !.stopped = TRUE])
  /\ (~g.err /\ ~g.stopped /\ IsFlagLike(w) /\ w # Terminator /\ Body(w) # <<>> /\ Body(w)[1] \notin {DASH, EQ}) =>
       LET e == FirstEq(Body(w))
           n == IF e = 0 THEN Body(w) ELSE SubSeq(Body(w), 1, e - 1) IN
       /\ (Kind(n) = "undefined" => h.err)
       /\ (Kind(n) = "bool" /\ e = 0 => h = [g EXCEPT !.asg[n] = <<"set", TrueText>>])
       /\ (Kind(n) # "undefined" /\ e > 0 => h = [g EXCEPT !.asg[n] = <<"set", SubSeq(Body(w), e + 1, Len(Body(w)))>>])
       /\ (Kind(n) \in {"string", "int"} /\ e = 0 => h.err /\ h.why = "missing")
  /\ (g.err /\ g.why # "missing") => h.err                          \* a malformed vector stays malformed
=============================================================================
