------------------------------ MODULE ArgParseMC ------------------------------
(* Exhaustive check over all argument vectors of length <= MaxLen over the token
   alphabet in tokens.ndjson (one JSON array of byte values per line): the
   implementation-shaped Machine agrees with the documented Grammar, and the grammar
   has the stated extension facts. *)
EXTENDS ArgParse, Json
CONSTANTS MaxLen
Tokens == LET T == ndJsonDeserialize("tokens.ndjson") IN {T[k] : k \in 1..Len(T)}
VARIABLE v
Init == v = <<>>
Next == Len(v) < MaxLen /\ \E w \in Tokens : v' = Append(v, w)
Spec == Init /\ [][Next]_v
Refines == Machine(v) = Grammar(v) /\ RestIsSuffix(v)
Facts == [][\A w \in Tokens : v' = Append(v, w) => ExtensionFacts(v, w)]_v
\* non-vacuity mutants of the machine: a boolean flag that swallows a following "true"/"false"
BoolSwallows == LET g == Grammar(v) IN
   ~(Len(v) >= 2 /\ v[1] \in {<<45, 98>>, <<45, 45, 98>>} /\ ~IsFlagLike(v[2]) /\ ~g.err /\ g.rest = <<>>)
=============================================================================
