------------------------------- MODULE CmdLine -------------------------------
(***************************************************************************)
(* Beyond the listed properties: config.FromCommandLine, the entry point a *)
(* program calls first thing in main, observed in child processes and      *)
(* judged with the command-line grammar of ArgParse.tla (C10):             *)
(*   the vector is malformed / a value is invalid -> an error is returned  *)
(*   -help is on                      -> the usage text goes to stderr,    *)
(*                                       the process ends with status 0    *)
(*                                       and the caller never continues    *)
(*   otherwise                        -> the fields are set and the        *)
(*                                       non-flag arguments are returned   *)
(* The vector is os.Args[1:] of the child process.                         *)
(***************************************************************************)
EXTENDS ArgParse, Json
Cases == ndJsonDeserialize("cases.ndjson")
ExistingConfig == ndJsonDeserialize("cfgpath.ndjson")[1]
VARIABLE i
Init == i \in 1..Len(Cases)
Next == UNCHANGED i

Expect(v) == LET o == Outcome(v, ExistingConfig) IN
  IF o.err = "yes" THEN [kind |-> "error"]
  ELSE IF o.err = "unknown" THEN [kind |-> "any"]
  ELSE IF o.help THEN [kind |-> "usage"]
  ELSE [kind |-> "args", o |-> o]

Agrees(c) == LET w == Expect(c.v) IN
  CASE w.kind = "any" -> TRUE
    [] w.kind = "error" -> c.kind = "error" /\ c.exit = 3
    [] w.kind = "usage" -> c.kind = "usage" /\ c.exit = 0 /\ c.usage /\ ~c.continued
    [] w.kind = "args"  -> /\ c.kind = "args" /\ c.exit = 0 /\ ~c.usage /\ c.continued
                           /\ c.rest = w.o.rest /\ c.b = w.o.b /\ c.t = w.o.t /\ c.s = w.o.s /\ (w.o.iknown => c.i = w.o.i)
JudgeOK == Agrees(Cases[i]) \/ PrintT(<<"BAD", i>>)
=============================================================================
