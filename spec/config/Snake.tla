--------------------------------- MODULE Snake ---------------------------------
(***************************************************************************)
(* The environment variable name of a config field:                        *)
(*   EnvName(path) = Underscore("CFG_" + P1 + "_" + ... + Pn, upper)       *)
(* where path = <<P1, .., Pn>> are the Go field names from the outermost   *)
(* struct field down to the field itself.  Underscore is transcribed as    *)
(* the character-class machine of strutil.Underscore (upper / lower /      *)
(* digit / other, one byte of look-ahead).  Byte strings are int tuples.   *)
(***************************************************************************)
EXTENDS Integers, Sequences, TLC, Json

IsLower(c) == c \in 97..122
IsUpper(c) == c \in 65..90
IsDigit(c) == c \in 48..57
ToUpper(c) == IF IsLower(c) THEN c - 32 ELSE c
US == 95

RECURSIVE U(_, _, _, _)
U(s, k, last, buf) ==
  IF k > Len(s) THEN buf
  ELSE LET c == s[k]
           nextLower == k + 1 <= Len(s) /\ IsLower(s[k + 1])
           started == Len(buf) > 0
       IN
    IF IsLower(c) THEN
         U(s, k + 1, "lower", IF started /\ last = "other" THEN buf \o <<US, ToUpper(c)>> ELSE Append(buf, ToUpper(c)))
    ELSE IF IsUpper(c) THEN
         U(s, k + 1, "upper",
           IF started /\ (last \in {"lower", "other"} \/ nextLower) THEN buf \o <<US, c>> ELSE Append(buf, c))
    ELSE IF IsDigit(c) THEN
         U(s, k + 1, "initial", IF started /\ last = "other" THEN buf \o <<US, c>> ELSE Append(buf, c))
    ELSE U(s, k + 1, "other", buf)
UpperSnake(s) == U(s, 1, "initial", <<>>)

RECURSIVE JoinPath(_, _)
JoinPath(path, k) == IF k > Len(path) THEN <<>>
                     ELSE path[k] \o (IF k < Len(path) THEN <<US>> ELSE <<>>) \o JoinPath(path, k + 1)
EnvName(path) == UpperSnake(<<67, 70, 71, US>> \o JoinPath(path, 1))      \* "CFG_"

\* shape facts of every produced name
WellShaped(n) == /\ \A k \in 1..Len(n) : IsUpper(n[k]) \/ IsDigit(n[k]) \/ n[k] = US
                 /\ Len(n) > 0 => n[1] # US /\ n[Len(n)] # US
                 /\ \A k \in 1..(Len(n) - 1) : ~(n[k] = US /\ n[k + 1] = US)

\* generation: one state per path in paths.ndjson; prints the derived name
Paths == ndJsonDeserialize("paths.ndjson")
VARIABLE i
Init == i \in 1..Len(Paths)
Next == UNCHANGED i
Derive == /\ WellShaped(EnvName(Paths[i]))
          /\ PrintT(ToJson([i |-> i, name |-> EnvName(Paths[i])]))
=============================================================================
