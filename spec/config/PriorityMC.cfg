SPECIFICATION Spec
CONSTANTS
  Fields = {"f1", "f2"}
  Rich = {"f1"}
  Mutant = "none"
INVARIANT PriorityHolds
INVARIANT Independent
CHECK_DEADLOCK FALSE
