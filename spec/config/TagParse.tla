-------------------------------- MODULE TagParse --------------------------------
(***************************************************************************)
(* Beyond the listed properties: how a struct field's `flag:"..."` tag is  *)
(* read (documented on the config package):                                *)
(*     `flag:"name,value,usage"`      `flag:"|name|value|usage"`           *)
(* "Extra separators will be treated as usage content."  An empty name     *)
(* means the lower-cased field name.  Byte strings are tuples of ints.     *)
(*                                                                         *)
(* Statement: with sep = '|' if the tag starts with '|' (that byte is then *)
(* dropped) and ',' otherwise, the body splits at its FIRST TWO separators *)
(* into name, default text and usage; fewer separators leave the later     *)
(* parts empty; gluing the parts back with the separators gives the body   *)
(* (Rejoin).                                                               *)
(***************************************************************************)
EXTENDS Integers, Sequences, TLC, Json

BAR == 124  COMMA == 44
SepOf(tag) == IF tag # <<>> /\ tag[1] = BAR THEN BAR ELSE COMMA
Body(tag) == IF tag # <<>> /\ tag[1] = BAR THEN SubSeq(tag, 2, Len(tag)) ELSE tag
\* index of the first occurrence of c in s at or after i, 0 if none
RECURSIVE Find(_, _, _)
Find(s, c, i) == IF i > Len(s) THEN 0 ELSE IF s[i] = c THEN i ELSE Find(s, c, i + 1)
Lower(s) == [k \in 1..Len(s) |-> IF s[k] \in 65..90 THEN s[k] + 32 ELSE s[k]]

Parse(tag, field) ==
  LET sep == SepOf(tag)
      b == Body(tag)
      k1 == Find(b, sep, 1)
      name0 == IF k1 = 0 THEN b ELSE SubSeq(b, 1, k1 - 1)
      rest == IF k1 = 0 THEN <<>> ELSE SubSeq(b, k1 + 1, Len(b))
      k2 == Find(rest, sep, 1)
      value == IF k2 = 0 THEN rest ELSE SubSeq(rest, 1, k2 - 1)
      usage == IF k2 = 0 THEN <<>> ELSE SubSeq(rest, k2 + 1, Len(rest))
  IN [name |-> IF name0 = <<>> THEN Lower(field) ELSE name0, name0 |-> name0, value |-> value, usage |-> usage,
      nsep |-> (IF k1 = 0 THEN 0 ELSE IF k2 = 0 THEN 1 ELSE 2)]

Rejoin(tag, field) ==
  LET p == Parse(tag, field)  sep == SepOf(tag) IN
  Body(tag) = p.name0 \o (IF p.nsep >= 1 THEN <<sep>> \o p.value ELSE <<>>) \o (IF p.nsep = 2 THEN <<sep>> \o p.usage ELSE <<>>)

Cases == ndJsonDeserialize("cases.ndjson")
VARIABLE i
Init == i \in 1..Len(Cases)
Next == UNCHANGED i
\* a case: tag, field, and what the real FlagSet holds: rejected (NewFlagSet error), found, name, def, usage
JudgeOK == LET c == Cases[i]  p == Parse(c.tag, c.field) IN
   ( /\ Rejoin(c.tag, c.field)
     /\ (c.rejected => (p.name # <<>> /\ (p.name[1] = 45 \/ Find(p.name, 61, 1) # 0)) \/ p.name \in {<<104, 101, 108, 112>>, <<99, 111, 110, 102, 105, 103>>})
     /\ (~c.rejected => c.found /\ c.name = p.name /\ c.def = p.value /\ c.usage = p.usage)
   ) \/ PrintT(<<"BAD", i>>)
=============================================================================
