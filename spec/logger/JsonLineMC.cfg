SPECIFICATION Spec
CONSTANTS
  MaxChain = 2
  SiteDepth = 1
  Pinned = FALSE
  DoExport = FALSE
INVARIANT LineSays
CHECK_DEADLOCK FALSE
