--------------------------------- MODULE Relay ---------------------------------
(***************************************************************************)
(* C15 - Logger.Relay contains handler panics and logs each request once,  *)
(* truthfully.                                                             *)
(*                                                                         *)
(* A request runs: REQ_BEG record -> handler script -> (deferred) recover: *)
(* on a panic an Error record and, if no status was recorded yet, a 500 -> *)
(* (deferred) REQ_END record with the recorded status (200 if none).       *)
(* Handler script: optionally WriteHeader(code) once, optionally Write,    *)
(* optionally Flush, and a panic at one of the positions in between.       *)
(* The wire sees the FIRST header written (implicit 200 on the first body  *)
(* write, on Flush, or when the handler returns having written nothing).   *)
(* Several requests interleave; records pair up by request id.             *)
(***************************************************************************)
EXTENDS Naturals, Sequences, FiniteSets, TLC, Json

CONSTANTS Reqs,          \* request ids
          FlushRecords,  \* TRUE: Flush() records the implicit 200 in Status; FALSE: it does not
          WithFlush      \* whether scripts may contain Flush

Codes == {201, 404, 503}
PanicVals == {"string", "error", "int", "nil", "struct", "wrappedAbort", "nilStringer", "badStringer", "nilError"}
\* script: wh = 0 (no WriteHeader) or a code; write, flush: BOOLEAN; panicAt: 0 none, 1 first,
\* 2 after WriteHeader, 3 after Write, 4 after Flush (the actions run in the order WriteHeader, Write, Flush)
Scripts == [wh : {0} \cup Codes, write : BOOLEAN, flush : BOOLEAN, panicAt : 0..4, pv : PanicVals]
Valid(s) == /\ (s.panicAt = 0 => s.pv = "string")          \* pv irrelevant without a panic
            /\ (~WithFlush => ~s.flush)
            /\ (s.panicAt = 4 => s.flush)
            /\ (s.panicAt = 3 => s.write)
            /\ (s.panicAt = 2 => s.wh # 0)

VARIABLES script, pc, status, wire, recs, panicked
vars == <<script, pc, status, wire, recs, panicked>>
\* status[r]: ResponseWriter.Status; wire[r]: status line the client receives (0 = none yet)
\* recs: the log, a sequence of [tag, id, code]

Init == /\ script \in [Reqs -> {s \in Scripts : Valid(s)}]
        /\ pc = [r \in Reqs |-> "beg"] /\ status = [r \in Reqs |-> 0] /\ wire = [r \in Reqs |-> 0]
        /\ recs = <<>> /\ panicked = [r \in Reqs |-> FALSE]

Log(tag, r, code) == recs' = Append(recs, [tag |-> tag, id |-> r, code |-> code])
Goto(r, l) == pc' = [pc EXCEPT ![r] = l]
\* the handler panics at position p: control goes to the deferred recover
MaybePanic(r, p, next) == IF script[r].panicAt = p THEN Goto(r, "recover") /\ panicked' = [panicked EXCEPT ![r] = TRUE]
                          ELSE Goto(r, next) /\ UNCHANGED panicked

Beg(r) == /\ pc[r] = "beg" /\ Log("REQ_BEG", r, 0) /\ MaybePanic(r, 1, "wh") /\ UNCHANGED <<script, status, wire>>
WH(r) ==  /\ pc[r] = "wh"
          /\ IF script[r].wh # 0
             THEN /\ status' = [status EXCEPT ![r] = script[r].wh]
                  /\ wire' = [wire EXCEPT ![r] = IF @ = 0 THEN script[r].wh ELSE @]
                  /\ MaybePanic(r, 2, "write")
             ELSE UNCHANGED <<status, wire, panicked>> /\ Goto(r, "write")
          /\ UNCHANGED <<script, recs>>
Write(r) == /\ pc[r] = "write"
            /\ IF script[r].write
               THEN /\ status' = [status EXCEPT ![r] = IF @ = 0 THEN 200 ELSE @]      \* Write: implicit WriteHeader(200)
                    /\ wire' = [wire EXCEPT ![r] = IF @ = 0 THEN 200 ELSE @]
                    /\ MaybePanic(r, 3, "flush")
               ELSE UNCHANGED <<status, wire, panicked>> /\ Goto(r, "flush")
            /\ UNCHANGED <<script, recs>>
Flush(r) == /\ pc[r] = "flush"
            /\ IF script[r].flush
               THEN /\ wire' = [wire EXCEPT ![r] = IF @ = 0 THEN 200 ELSE @]          \* net/http sends the header now
                    /\ status' = [status EXCEPT ![r] = IF @ = 0 /\ FlushRecords THEN 200 ELSE @]
                    /\ MaybePanic(r, 4, "end")
               ELSE UNCHANGED <<status, wire, panicked>> /\ Goto(r, "end")
            /\ UNCHANGED <<script, recs>>
\* deferred recover: Error record; 500 only if no status was recorded
Recover(r) == /\ pc[r] = "recover"
              /\ Log("ERROR", r, 0)
              /\ IF status[r] = 0
                 THEN /\ status' = [status EXCEPT ![r] = 500]
                      /\ wire' = [wire EXCEPT ![r] = IF @ = 0 THEN 500 ELSE @]
                 ELSE UNCHANGED <<status, wire>>
              /\ Goto(r, "end") /\ UNCHANGED <<script, panicked>>
\* deferred REQ_END: Status == 0 is reported as 200 (what net/http sends when the handler wrote nothing)
End(r) == /\ pc[r] = "end"
          /\ Log("REQ_END", r, IF status[r] = 0 THEN 200 ELSE status[r])
          /\ wire' = [wire EXCEPT ![r] = IF @ = 0 THEN 200 ELSE @]
          /\ Goto(r, "done") /\ UNCHANGED <<script, status, panicked>>
Next == \E r \in Reqs : Beg(r) \/ WH(r) \/ Write(r) \/ Flush(r) \/ Recover(r) \/ End(r)
Spec == Init /\ [][Next]_vars

-----------------------------------------------------------------------------
(* Statement.                                                              *)
Count(tag, r) == Cardinality({k \in 1..Len(recs) : recs[k].tag = tag /\ recs[k].id = r})
EndCode(r) == LET K == {k \in 1..Len(recs) : recs[k].tag = "REQ_END" /\ recs[k].id = r} IN recs[CHOOSE k \in K : TRUE].code
\* a status was written before the panic (header, body, or flush)
WrittenBeforePanic(s) == \/ (s.panicAt >= 2 /\ s.wh # 0) \/ (s.panicAt >= 3 /\ s.write) \/ (s.panicAt >= 4 /\ s.flush)
ExpectedWire(s) == IF s.panicAt > 0 /\ ~WrittenBeforePanic(s) THEN 500
                   ELSE IF s.wh # 0 /\ (s.panicAt = 0 \/ s.panicAt >= 2) THEN s.wh ELSE 200
Truthful == \A r \in Reqs : pc[r] = "done" =>
   /\ Count("REQ_BEG", r) = 1 /\ Count("REQ_END", r) = 1
   /\ Count("ERROR", r) = (IF script[r].panicAt > 0 THEN 1 ELSE 0)
   /\ wire[r] = ExpectedWire(script[r])                        \* 500 iff panicked before any status was written
   /\ EndCode(r) = wire[r]                                     \* REQ_END carries the status the client received
OneBegOneEnd == \A r \in Reqs : Count("REQ_BEG", r) <= 1 /\ Count("REQ_END", r) <= 1 /\ Count("ERROR", r) <= 1

\* generation (single request): the script with what the statement prescribes
Export == (\A r \in Reqs : pc[r] = "done") =>
   PrintT(ToJson([r \in Reqs |-> [script |-> script[r], wire |-> ExpectedWire(script[r]),
                                   nerr |-> IF script[r].panicAt > 0 THEN 1 ELSE 0]]))
=============================================================================
