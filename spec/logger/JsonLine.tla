-------------------------------- MODULE JsonLine --------------------------------
(***************************************************************************)
(* C01 (structure) - every record the JSON handler writes is one valid     *)
(* JSON object whose ordered content is the record.                        *)
(*                                                                         *)
(* Attribute forests: a node is a leaf [t, k, x] or a group [t, k, c]      *)
(* (k = "" : inline group; c = <<>> : empty group - which a deferred       *)
(* LogValuer can produce anywhere).  A derivation chain is a sequence of   *)
(* [op |-> "with", f |-> forest] and [op |-> "group", name |-> n].         *)
(*                                                                         *)
(* A line is a token sequence: punctuation tokens [t |-> "{" | "}" | "[" | *)
(* "]" | "," | ":"] and literals [t |-> "s" | "n", x |-> text].            *)
(*                                                                         *)
(* Statement layer : Decode(tokens) (strict JSON grammar, ordered members, *)
(*   duplicates kept) and Expected(chain, site) - time, level, msg, then   *)
(*   the attributes in order nested under the open groups, inline groups   *)
(*   spliced; both compared after Prune (a keyed group that is recursively *)
(*   empty may be shown as {} or omitted - the statement does not say).    *)
(* Implementation-shaped layer: Emit as the handler does it (preformatted  *)
(*   tokens, addSep, nOpenGroups, appendJsonAttr reporting whether it      *)
(*   wrote anything).  EmitPinned is the pinned design (separator first).  *)
(***************************************************************************)
EXTENDS Naturals, Sequences, FiniteSets, TLC

P(t) == [t |-> t, x |-> ""]
Str(x) == [t |-> "s", x |-> x]
Lit(x) == [t |-> "n", x |-> x]
Leaf(k, x) == [t |-> "leaf", k |-> k, x |-> x, c |-> <<>>]
Group(k, c) == [t |-> "group", k |-> k, x |-> "", c |-> c]

-----------------------------------------------------------------------------
(* Statement layer: decoding.                                              *)
Scalar(tok) == [t |-> tok.t, x |-> tok.x, m |-> <<>>]
Obj(m) == [t |-> "o", x |-> "", m |-> m]                 \* m: sequence of [k, v]
Arr(e) == [t |-> "a", x |-> "", m |-> e]                 \* m: sequence of values
Fail == [ok |-> FALSE, v |-> Lit("invalid"), n |-> 0]
Succ(v, n) == [ok |-> TRUE, v |-> v, n |-> n]

RECURSIVE ParseVal(_, _), ParseMembers(_, _, _), ParseElems(_, _, _)
ParseVal(T, i) ==
  IF i > Len(T) THEN Fail
  ELSE IF T[i].t \in {"s", "n"} THEN Succ(Scalar(T[i]), i + 1)
  ELSE IF T[i].t = "{" THEN
       (IF i + 1 <= Len(T) /\ T[i + 1].t = "}" THEN Succ(Obj(<<>>), i + 2) ELSE ParseMembers(T, i + 1, <<>>))
  ELSE IF T[i].t = "[" THEN
       (IF i + 1 <= Len(T) /\ T[i + 1].t = "]" THEN Succ(Arr(<<>>), i + 2) ELSE ParseElems(T, i + 1, <<>>))
  ELSE Fail
ParseMembers(T, i, acc) ==
  IF i + 2 > Len(T) \/ T[i].t # "s" \/ T[i + 1].t # ":" THEN Fail
  ELSE LET r == ParseVal(T, i + 2) IN
    IF ~r.ok \/ r.n > Len(T) THEN Fail
    ELSE LET acc2 == Append(acc, [k |-> T[i].x, v |-> r.v]) IN
         IF T[r.n].t = "}" THEN Succ(Obj(acc2), r.n + 1)
         ELSE IF T[r.n].t = "," THEN ParseMembers(T, r.n + 1, acc2)
         ELSE Fail
ParseElems(T, i, acc) ==
  LET r == ParseVal(T, i) IN
  IF ~r.ok \/ r.n > Len(T) THEN Fail
  ELSE IF T[r.n].t = "]" THEN Succ(Arr(Append(acc, r.v)), r.n + 1)
  ELSE IF T[r.n].t = "," THEN ParseElems(T, r.n + 1, Append(acc, r.v))
  ELSE Fail

\* the whole token sequence is exactly one JSON object
WellFormed(T) == LET r == ParseVal(T, 1) IN r.ok /\ r.n = Len(T) + 1 /\ r.v.t = "o"
Decode(T) == ParseVal(T, 1).v

\* a keyed member whose value is a recursively empty object carries no information
RECURSIVE Prune(_), PruneMembers(_, _)
PruneMembers(m, i) ==
  IF i > Len(m) THEN <<>>
  ELSE LET v == Prune(m[i].v) IN
       (IF v.t = "o" /\ v.m = <<>> THEN <<>> ELSE <<[k |-> m[i].k, v |-> v]>>) \o PruneMembers(m, i + 1)
Prune(v) == IF v.t = "o" THEN Obj(PruneMembers(v.m, 1)) ELSE v

-----------------------------------------------------------------------------
(* Statement layer: what the line must say.                                *)
RECURSIVE ExpForest(_, _)
ExpForest(f, i) ==
  IF i > Len(f) THEN <<>>
  ELSE LET a == f[i] IN
    (IF a.t = "leaf" THEN <<[k |-> a.k, v |-> [t |-> "s", x |-> a.x, m |-> <<>>]]>>
     ELSE IF a.k = "" THEN ExpForest(a.c, 1)                                     \* inline group: spliced
     ELSE <<[k |-> a.k, v |-> Obj(ExpForest(a.c, 1))]>>) \o ExpForest(f, i + 1)

RECURSIVE ExpChain(_, _, _)
ExpChain(chain, i, site) ==
  IF i > Len(chain) THEN ExpForest(site, 1)
  ELSE IF chain[i].op = "with" THEN ExpForest(chain[i].f, 1) \o ExpChain(chain, i + 1, site)
  ELSE <<[k |-> chain[i].name, v |-> Obj(ExpChain(chain, i + 1, site))]>>

Head3 == << [k |-> "time", v |-> [t |-> "s", x |-> "T", m |-> <<>>]],
            [k |-> "level", v |-> [t |-> "s", x |-> "INFO", m |-> <<>>]],
            [k |-> "msg", v |-> [t |-> "s", x |-> "m", m |-> <<>>]] >>
Expected(chain, site) == Obj(Head3 \o ExpChain(chain, 1, site))

Says(T, chain, site) == WellFormed(T) /\ Prune(Decode(T)) = Prune(Expected(chain, site))

-----------------------------------------------------------------------------
(* Implementation-shaped layer.                                            *)
Comma == P(",")
Colon == P(":")
Sep(addSep) == IF addSep THEN <<Comma>> ELSE <<>>

RECURSIVE AttrToks(_, _, _), FoldAttrs(_, _, _, _)
\* returns [toks, written]; pinned = the design that writes the separator before looking at the attribute
AttrToks(a, addSep, pinned) ==
  IF a.t = "leaf" THEN [toks |-> Sep(addSep) \o <<Str(a.k), Colon, Str(a.x)>>, written |-> TRUE]
  ELSE IF pinned THEN
       LET inner == FoldAttrs(a.c, 1, FALSE, TRUE) IN
       [toks |-> Sep(addSep) \o (IF a.k # "" THEN <<Str(a.k), Colon, P("{")>> ELSE <<>>) \o inner.toks
                 \o (IF a.k # "" THEN <<P("}")>> ELSE <<>>), written |-> TRUE]
  ELSE IF a.k # "" THEN
       LET inner == FoldAttrs(a.c, 1, FALSE, FALSE) IN
       [toks |-> Sep(addSep) \o <<Str(a.k), Colon, P("{")>> \o inner.toks \o <<P("}")>>, written |-> TRUE]
  ELSE LET inner == FoldAttrs(a.c, 1, addSep, FALSE) IN
       [toks |-> inner.toks, written |-> inner.any]
\* the attribute loop: returns [toks, addSep (afterwards), any (something was written)]
FoldAttrs(f, i, addSep, pinned) ==
  IF i > Len(f) THEN [toks |-> <<>>, addSep |-> addSep, any |-> FALSE]
  ELSE LET r == AttrToks(f[i], addSep, pinned)
           rest == FoldAttrs(f, i + 1, IF pinned THEN TRUE ELSE (addSep \/ r.written), pinned)
       IN [toks |-> r.toks \o rest.toks, addSep |-> rest.addSep, any |-> r.written \/ rest.any]

RootHandler == [pre |-> <<>>, nOpen |-> 0, addSep |-> TRUE]
WithAttrs(h, f, pinned) ==
  IF f = <<>> THEN h
  ELSE LET r == FoldAttrs(f, 1, h.addSep, pinned) IN [h EXCEPT !.pre = @ \o r.toks, !.addSep = r.addSep]
WithGroup(h, name) ==
  [pre |-> h.pre \o Sep(h.addSep) \o <<Str(name), Colon, P("{")>>, nOpen |-> h.nOpen + 1, addSep |-> FALSE]
RECURSIVE Closers(_)
Closers(n) == IF n = 0 THEN <<>> ELSE <<P("}")>> \o Closers(n - 1)
Handle(h, site, pinned) ==
  << P("{"), Str("time"), Colon, Str("T"), Comma, Str("level"), Colon, Str("INFO"), Comma, Str("msg"), Colon, Str("m") >>
  \o h.pre \o FoldAttrs(site, 1, h.addSep, pinned).toks \o Closers(h.nOpen) \o <<P("}")>>

RECURSIVE Derive(_, _, _, _)
Derive(h, chain, i, pinned) ==
  IF i > Len(chain) THEN h
  ELSE Derive(IF chain[i].op = "with" THEN WithAttrs(h, chain[i].f, pinned) ELSE WithGroup(h, chain[i].name), chain, i + 1, pinned)
Emit(chain, site) == Handle(Derive(RootHandler, chain, 1, FALSE), site, FALSE)
EmitPinned(chain, site) == Handle(Derive(RootHandler, chain, 1, TRUE), site, TRUE)

-----------------------------------------------------------------------------
(* The scenario space: keys are position paths, so order and nesting are observable. *)
Idx == <<"1", "2", "3">>
RECURSIVE Trees(_, _), Forests(_, _, _)
Trees(p, d) ==
  {Leaf(p, "v" \o p), Group(p, <<>>), Group("", <<>>)}
  \cup (IF d = 0 THEN {} ELSE {Group(p, c) : c \in Forests(p, d - 1, 2) \ {<<>>}} \cup {Group("", c) : c \in Forests(p \o "i", d - 1, 2) \ {<<>>}})
Forests(p, d, n) ==
  {<<>>} \cup {<<a>> : a \in Trees(p \o "1", d)}
  \cup (IF n >= 2 THEN {<<a, b>> : a \in Trees(p \o "1", d), b \in Trees(p \o "2", d)} ELSE {})
=============================================================================
