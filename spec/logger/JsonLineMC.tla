------------------------------- MODULE JsonLineMC -------------------------------
(* Exhaustive: every derivation chain of up to MaxChain items (With of a forest / WithGroup) and
   every call-site forest: the emitted token line says exactly what the statement prescribes. *)
EXTENDS JsonLine, Json
CONSTANTS MaxChain, SiteDepth, Pinned, DoExport
VARIABLES chain, site
vars == <<chain, site>>
Unset == <<[t |-> "unset", k |-> "", x |-> "", c |-> <<>>]>>
Init == chain = <<>> /\ site = Unset
WithForests(p) == Forests(p, 1, 1) \ {<<>>}
AddWith == /\ site = Unset /\ Len(chain) < MaxChain
           /\ \E f \in WithForests("w" \o Idx[Len(chain) + 1]) : chain' = Append(chain, [op |-> "with", f |-> f, name |-> ""])
           /\ UNCHANGED site
AddGroup == /\ site = Unset /\ Len(chain) < MaxChain
            /\ chain' = Append(chain, [op |-> "group", f |-> <<>>, name |-> "G" \o Idx[Len(chain) + 1]])
            /\ UNCHANGED site
Log == /\ site = Unset
       /\ \E f \in Forests("c", IF Len(chain) = MaxChain /\ MaxChain >= 2 THEN 0 ELSE SiteDepth, 2) : site' = f
       /\ UNCHANGED chain
Next == AddWith \/ AddGroup \/ Log
Spec == Init /\ [][Next]_vars

LineSays == site # Unset => Says(IF Pinned THEN EmitPinned(chain, site) ELSE Emit(chain, site), chain, site)
Export == (DoExport /\ site # Unset) => PrintT(ToJson([chain |-> chain, site |-> site]))
=============================================================================
