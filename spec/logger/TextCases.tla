-------------------------------- MODULE TextCases --------------------------------
(***************************************************************************)
(* Judge of lines recorded from the real Text handler (harness/cmd/textline).  Each case carries
   tail = the bytes of the written line after the constant "time=<RFC3339> level=<L> " head (whose
   shape the harness confirms in `head`), onewrite = the record was exactly one Write, and
     mode "struct"  : chain, site (scenario exported by TLC, with key / value / name bytes)
     mode "values"  : kind, where, source
     mode "strings" : in (input bytes), pos (msg | key | value | with | group | group2 | sgroup | gkey)
   Verdict: Tokenize(tail) - the independent tokenizer of TextLine.tla - yields exactly the tokens the
   statement prescribes, every part unquoted to the original bytes. *)
(***************************************************************************)
EXTENDS TextLine, Json
Cases == ndJsonDeserialize("cases.ndjson")
VARIABLE i
Init == i \in 1..Len(Cases)
Next == UNCHANGED i

B(s) == s
MsgM == << <<109, 115, 103>>, <<109>> >>                \* msg=m
K1 == <<107>>  V1 == <<118>>  Z1 == << <<122>>, <<49>> >>    \* k, v, z=1
ExpectBytes(kind) ==
  CASE
       kind = "int64min" -> <<45, 57, 50, 50, 51, 51, 55, 50, 48, 51, 54, 56, 53, 52, 55, 55, 53, 56, 48, 56>>
    [] kind = "uint64max" -> <<49, 56, 52, 52, 54, 55, 52, 52, 48, 55, 51, 55, 48, 57, 53, 53, 49, 54, 49, 53>>
    [] kind = "float" -> <<48, 46, 49>>
    [] kind = "nan" -> <<78, 97, 78>>
    [] kind = "posinf" -> <<43, 73, 110, 102>>
    [] kind = "booltrue" -> <<116, 114, 117, 101>>
    [] kind = "dur" -> <<49, 46, 53, 115>>
    [] kind = "time" -> <<50, 48, 50, 49, 45, 48, 51, 45, 48, 52, 84, 48, 53, 58, 48, 54, 58, 48, 55, 90>>
    [] kind = "err" -> <<69, 33, 32, 97, 61, 98>>
    [] kind = "ansi" -> <<65, 32, 86>>
    [] kind = "nil" -> <<60, 110, 105, 108, 62>>
    [] kind = "bytes" -> <<1, 2, 61>>
    [] kind = "map" -> <<109, 97, 112, 91, 97, 58, 49, 93>>
    [] kind = "struct" -> <<123, 49, 32, 120, 32, 121, 125>>
    [] kind = "tmOK" -> <<84, 77, 32, 111, 107, 61, 49>>
    [] kind = "tmFail" -> <<84, 77, 70, 33, 32, 120, 61, 121>>
    [] kind = "valuerStr" -> <<76, 32, 86>>
    [] kind = "valuerErr" -> <<69, 33, 32, 97, 61, 98>>
    [] kind \in {"nilErrPtr", "valuerNilErrPtr"} -> <<60, 110, 105, 108, 62>>          \* <nil>
    [] kind = "panicErr" -> <<33, 80, 65, 78, 73, 67, 58, 32, 69, 114, 114, 111, 114, 40, 41, 32, 112, 97, 110, 105, 99, 115>>    \* "!PANIC: Error() panics"
    [] kind = "newline" -> <<116, 119, 111, 10, 108, 105, 110, 101, 115>>
    [] kind = "fakefield" -> <<120, 32, 108, 101, 118, 101, 108, 61, 69, 82, 82, 79, 82, 32, 109, 115, 103, 61, 102, 111, 114, 103, 101, 100>>
    [] kind = "quote" -> <<115, 97, 121, 32, 34, 104, 105, 34>>
    [] kind = "empty" -> <<>>

\* the source token (file:line) has to be there, its content is not prescribed
DropSource(toks, has) == IF has /\ toks # BadLine /\ Len(toks) >= 1 /\ toks[1][1] = <<115, 111, 117, 114, 99, 101>> THEN Tail(toks) ELSE toks

StructOK(c) == Tokenize(c.tail) = <<MsgM>> \o ExpChain(c.chain, 1, c.site, <<>>)
ValuesOK(c) ==
  LET toks == DropSource(Tokenize(c.tail), c.source)
      vkey == IF c.where = "group" THEN <<103, 46, 104, 46, 118>> ELSE V1             \* g.h.v
      zkey == IF c.where = "group" THEN <<103, 46, 122>> ELSE <<122>>
      vtoks == IF c.kind = "valuerEmptyGroup" THEN <<>>
               ELSE IF c.kind = "valuerGroup" THEN << <<vkey \o <<46, 97>>, <<49>>>> >>
               ELSE << <<vkey, ExpectBytes(c.kind)>> >>
  IN (c.source => Tokenize(c.tail) # toks) /\ toks = <<MsgM>> \o vtoks \o << <<zkey, <<49>>>> >>
StringsOK(c) ==
  Tokenize(c.tail) =
    CASE c.pos = "msg"   -> << <<<<109, 115, 103>>, c.in>> >>
      [] c.pos = "key"   -> <<MsgM, <<c.in, V1>>>>
      [] c.pos \in {"group", "sgroup"} -> <<MsgM, <<c.in \o <<46>> \o K1, V1>>>>
      [] c.pos = "group2" -> <<MsgM, <<c.in \o <<46, 122, 46>> \o K1, V1>>>>          \* <in>.z.k
      [] c.pos = "gkey"  -> <<MsgM, <<<<122, 46>> \o c.in, V1>>>>                      \* z.<in>
      [] OTHER           -> <<MsgM, <<K1, c.in>>>>

\* the time token gives back the record's own time (c.in = its RFC 3339 text, formatted by the harness)
TimeOK(c) == LET toks == Tokenize(c.tail) IN
  toks # BadLine /\ Len(toks) >= 1 /\ toks[1] = <<<<116, 105, 109, 101>>, c.in>>
\* with source on: the first token after the level is source=<last directory>/<file>:<line> of the CALLER (c.in; the call
\* sites are in harness/internal/sites and textline/weird_source.go, one per output method of Logger), and the rest of the
\* line is as without it
SourceOK(c) == LET all == Tokenize(c.tail)
                   toks == DropSource(all, TRUE)
                   kv == IF c.kv THEN << <<K1, V1>> >> ELSE <<>>
                   gkv == IF c.kv THEN << <<<<103, 46>> \o K1, V1>> >> ELSE <<>> IN
  /\ all # toks /\ all[1] = <<<<115, 111, 117, 114, 99, 101>>, c.in>>
  /\ toks = (IF c.pos = "plain" THEN <<MsgM>> \o kv ELSE <<MsgM, <<<<119>>, <<49>>>> >> \o gkv)

JudgeOK == LET c == Cases[i] IN
   (c.onewrite /\ c.head /\ CASE c.mode = "struct" -> StructOK(c) [] c.mode = "values" -> ValuesOK(c) [] c.mode = "time" -> TimeOK(c)
                               [] c.mode = "source" -> SourceOK(c) [] OTHER -> StringsOK(c))
   \/ PrintT(<<"BAD", i>>)
=============================================================================
