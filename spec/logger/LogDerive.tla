------------------------------- MODULE LogDerive -------------------------------
(***************************************************************************)
(* C03 - derived loggers are isolated: a logger's output depends only on   *)
(* its own derivation chain.                                               *)
(*                                                                         *)
(* Implementation-shaped: every handler node owns a Go slice `preformatted`*)
(* = (array, len, cap) over a shared heap of arrays.  clone() copies the   *)
(* slice header - with slices.Clip the capacity is cut to the length -,    *)
(* With / WithGroup append one item: in place when len < cap, otherwise    *)
(* into a new array of ANY capacity >= len+1 (covers every growth policy). *)
(* Statement: for every node, at any time,                                 *)
(*     View(node) = the node's own chain of derivation items               *)
(* (what a logger built alone from a fresh root by replaying the chain     *)
(* would hold), whatever was derived or logged in between.                 *)
(***************************************************************************)
EXTENDS Naturals, Sequences, FiniteSets, TLC, Json

CONSTANTS MaxNodes,      \* nodes besides the root
          MaxOps,        \* history length (generation)
          Clip,          \* TRUE: clone() clips the capacity (the code); FALSE: mutant
          Spare,         \* possible extra capacities of a freshly grown array, e.g. {0, 1, 2}
          RecordHist

VARIABLES node,          \* id -> [arr, len, cap, chain, parent]
          heap,          \* array id -> sequence of cells (its length is the capacity)
          hist
vars == <<node, heap, hist>>
Ids == DOMAIN node

Root == [arr |-> 0, len |-> 0, cap |-> 0, chain |-> <<>>, parent |-> 0]    \* nil slice
Init == node = (0 :> Root) /\ heap = <<>> /\ hist = <<>>

View(n) == IF node[n].len = 0 THEN <<>> ELSE SubSeq(heap[node[n].arr], 1, node[n].len)

\* derive child c from parent p by appending item it (an attribute list or a group opening)
Derive(p, it, kind) ==
  /\ Cardinality(Ids) <= MaxNodes
  /\ LET c   == Cardinality(Ids)                   \* next id
         src == node[p]
         cap0 == IF Clip THEN src.len ELSE src.cap  \* clone(): slices.Clip(preformatted) or not
     IN
     IF src.len < cap0
     THEN \* append in place: writes into the array the parent (and its other children) still use
          /\ heap' = [heap EXCEPT ![src.arr][src.len + 1] = it]
          /\ node' = (c :> [arr |-> src.arr, len |-> src.len + 1, cap |-> cap0, chain |-> Append(src.chain, it), parent |-> p]) @@ node
     ELSE \E extra \in Spare :
          LET a == Len(heap) + 1
              cells == [k \in 1..(src.len + 1 + extra) |->
                          IF k <= src.len THEN heap[src.arr][k] ELSE IF k = src.len + 1 THEN it ELSE "junk"]
          IN /\ heap' = Append(heap, cells)
             /\ node' = (c :> [arr |-> a, len |-> src.len + 1, cap |-> src.len + 1 + extra, chain |-> Append(src.chain, it), parent |-> p]) @@ node
  /\ hist' = IF RecordHist THEN Append(hist, [op |-> kind, parent |-> p, node |-> Cardinality(Ids), item |-> it, chain |-> <<>>]) ELSE hist

Log(n) ==
  /\ RecordHist /\ UNCHANGED <<node, heap>>
  /\ hist' = Append(hist, [op |-> "log", parent |-> 0, node |-> n, item |-> "", chain |-> node[n].chain])

Items == {"A1", "A2", "G1"}       \* two attribute lists and one group name (instantiated by the harness)
Next == /\ (RecordHist => Len(hist) < MaxOps)
        /\ \/ \E p \in Ids, it \in Items : Derive(p, it, IF it = "G1" THEN "group" ELSE "with")
           \/ \E n \in Ids : Log(n)
Spec == Init /\ [][Next]_vars

Isolated == \A n \in Ids : View(n) = node[n].chain
Export == (RecordHist /\ Len(hist) = MaxOps) => PrintT(ToJson(hist))
=============================================================================
