------------------------------- MODULE LogSinkMC -------------------------------
EXTENDS LogSink
R(node, en, big) == [node |-> node, enabled |-> en, big |-> big]
Recs3 == [g \in {"g1", "g2", "g3"} |->
   IF g = "g1" THEN << R("root", TRUE, FALSE), R("d1", TRUE, TRUE) >>
   ELSE IF g = "g2" THEN << R("d1", TRUE, FALSE), R("root", FALSE, FALSE) >>
   ELSE << R("d2", TRUE, FALSE), R("d2", TRUE, FALSE) >>]
=============================================================================
