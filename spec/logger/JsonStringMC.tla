------------------------------ MODULE JsonStringMC ------------------------------
(* all byte strings of length <= MaxLen over class representatives: Escape is Faithful *)
EXTENDS JsonString
CONSTANT MaxLen
Alphabet == {0, 9, 10, 31, 32, 34, 92, 97, 127, 128, 191, 194, 224, 160, 226, 168, 237, 240, 144, 244, 143, 255}
VARIABLE s
Init == s = <<>>
Next == Len(s) < MaxLen /\ \E b \in Alphabet : s' = Append(s, b)
Spec == Init /\ [][Next]_s
EscapeFaithful == Faithful(s, Escape(s))
MutRawInvalid == Faithful(s, EscRawInvalid(s, 1))
=============================================================================
