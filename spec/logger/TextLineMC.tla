------------------------------- MODULE TextLineMC -------------------------------
(* Design check of the quoting scheme: for every string of up to MaxLen units over code-point /
   byte classes, what appendTextString writes for it as a value (and as a key) tokenizes back
   to exactly the original bytes. A unit is a scalar value or the invalid byte 255. *)
EXTENDS TextLine
CONSTANT MaxLen
INVALID == 0 - 255            \* the invalid byte 0xff as a unit
\* representatives: control, tab, LF, space, '"', '=', '\', letter, DEL, e-acute, NBSP, ZWSP, U+2028, CJK, U+FFFD, emoji, invalid byte
Units == {1, 9, 10, 32, 34, 61, 92, 97, 127, 233, 160, 8203, 8232, 19990, 65533, 128512, INVALID}
ClassOf(u) == IF u \in {97, 34, 61, 92, 233, 19990, 65533, 128512} THEN "print"
              ELSE IF u = 32 THEN "print"                  \* strconv.IsPrint(' ') is true
              ELSE IF u \in {9, 10, 160, 8232} THEN "space"
              ELSE "other"
IsSpaceU(u) == u \in {9, 10, 32, 160, 8232}
VARIABLE s
Init == s = <<>>
Next == Len(s) < MaxLen /\ \E u \in Units : s' = Append(s, u)
Spec == Init /\ [][Next]_s

RECURSIVE Bytes(_, _)
Bytes(us, i) == IF i > Len(us) THEN <<>> ELSE (IF us[i] = INVALID THEN <<255>> ELSE Encode(us[i])) \o Bytes(us, i + 1)

\* appendTextString: quote iff empty, or some ASCII byte is ' ', '=' or outside the safe set (except '\'),
\* or some rune is RuneError / space / not printable
NeedsQuote(us) == \/ us = <<>>
                  \/ \E i \in 1..Len(us) :
                       LET u == us[i] IN
                       IF u = INVALID THEN TRUE
                       ELSE IF u < 128 THEN u # 92 /\ (u = 32 \/ u = 61 \/ u < 32 \/ u = 34)
                       ELSE u = 65533 \/ IsSpaceU(u) \/ ClassOf(u) # "print"
RECURSIVE QuoteBody(_, _)
QuoteBody(us, i) == IF i > Len(us) THEN <<>>
                    ELSE (IF us[i] = INVALID THEN <<BSL, 120>> \o Hex2(255) ELSE QuoteRune(us[i], ClassOf(us[i]))) \o QuoteBody(us, i + 1)
TextString(us) == IF NeedsQuote(us) THEN <<DQ>> \o QuoteBody(us, 1) \o <<DQ>> ELSE Bytes(us, 1)
\* mutant: only ASCII space is tested, Unicode spaces stay bare
NeedsQuoteM(us) == \/ us = <<>>
                   \/ \E i \in 1..Len(us) : LET u == us[i] IN
                        IF u = INVALID THEN TRUE ELSE IF u < 128 THEN u # 92 /\ (u = 32 \/ u = 61 \/ u < 32 \/ u = 34)
                        ELSE u = 65533 \/ ClassOf(u) = "other"
TextStringM(us) == IF NeedsQuoteM(us) THEN <<DQ>> \o QuoteBody(us, 1) \o <<DQ>> ELSE Bytes(us, 1)

Line(keyPart, valPart) == <<109, 115, 103, EQ, 109, SP>> \o keyPart \o <<EQ>> \o valPart \o <<LF>>     \* "msg=m k=v\n"
RoundTrip == LET b == Bytes(s, 1) IN
   /\ Tokenize(Line(<<107>>, TextString(s))) = << <<<<109, 115, 103>>, <<109>>>>, <<<<107>>, b>> >>
   /\ Tokenize(Line(TextString(s), <<118>>)) = << <<<<109, 115, 103>>, <<109>>>>, <<b, <<118>>>> >>
MutantRoundTrip == LET b == Bytes(s, 1) IN
   Tokenize(Line(<<107>>, TextStringM(s))) = << <<<<109, 115, 103>>, <<109>>>>, <<<<107>>, b>> >>
=============================================================================
