-------------------------------- MODULE JsonCases --------------------------------
(***************************************************************************)
(* Judge of lines recorded from the real JSON handler (harness/cmd/jsonline).
   A case carries `mode`:
     "struct"  : chain, site (the scenario exported by TLC) and toks (the written line cut into
                 tokens); verdict: exactly one line, StrictLine(toks), Says(toks, chain, site)
     "values"  : kind, where, source, level, toks, roundtrip; verdict: one strict line whose member
                 "v" has the class / text ExpectV(kind) prescribes, with the neighbours intact
     "strings" : in (input bytes), lit (the literal the handler wrote for it), shape / want (token
                 shape of the line); verdict: Faithful(in, lit), shape = want, one line
   Every token carries b = its raw bytes, so string literals and bare literals are checked against
   the JSON grammar byte by byte. *)
(***************************************************************************)
EXTENDS JsonLine, JsonString, Json
Cases == ndJsonDeserialize("cases.ndjson")
VARIABLE i
Init == i \in 1..Len(Cases)
Next == UNCHANGED i

\* JSON number grammar  -?(0|[1-9][0-9]*)(\.[0-9]+)?([eE][+-]?[0-9]+)?  on bytes
Dig(c) == c \in 48..57
RECURSIVE Digits(_, _)
Digits(b, k) == IF k <= Len(b) /\ Dig(b[k]) THEN Digits(b, k + 1) ELSE k       \* first index after the run
NumberOK(b) ==
  LET s0 == IF Len(b) >= 1 /\ b[1] = 45 THEN 2 ELSE 1
      intEnd == IF s0 <= Len(b) /\ b[s0] = 48 THEN s0 + 1 ELSE Digits(b, s0)
      intOK == intEnd > s0
      fracEnd == IF intEnd <= Len(b) /\ b[intEnd] = 46 THEN Digits(b, intEnd + 1) ELSE intEnd
      fracOK == fracEnd = intEnd \/ fracEnd > intEnd + 1
      e0 == IF fracEnd <= Len(b) /\ b[fracEnd] \in {101, 69}
            THEN (IF fracEnd + 1 <= Len(b) /\ b[fracEnd + 1] \in {43, 45} THEN fracEnd + 2 ELSE fracEnd + 1) ELSE 0
      expEnd == IF e0 = 0 THEN fracEnd ELSE Digits(b, e0)
      expOK == e0 = 0 \/ expEnd > e0
  IN intOK /\ fracOK /\ expOK /\ expEnd = Len(b) + 1
LitOK(tok) == tok.x \in {"true", "false", "null"} \/ NumberOK(tok.b)

StrictLine(T) == /\ WellFormed(T)
                 /\ \A k \in 1..Len(T) : /\ (T[k].t = "s" => JsonUnescape(T[k].b)[1] = "ok")
                                         /\ (T[k].t = "n" => LitOK(T[k]))

-----------------------------------------------------------------------------
Num(x) == [t |-> "n", x |-> x, m |-> <<>>]
S(x) == [t |-> "s", x |-> x, m |-> <<>>]
Member(o, key) == LET K == {k \in 1..Len(o.m) : o.m[k].k = key} IN
                  IF o.t # "o" \/ K = {} THEN [t |-> "absent", x |-> "", m |-> <<>>] ELSE o.m[CHOOSE k \in K : TRUE].v
IsStr(v) == v.t = "s"
ExpectV(kind, v, rt) ==
  CASE kind = "int64min"  -> v = Num("-9223372036854775808")
    [] kind = "int64max"  -> v = Num("9223372036854775807")
    [] kind = "uint64max" -> v = Num("18446744073709551615")
    [] kind = "intneg"    -> v = Num("-7")
    [] kind \in {"float", "floatbig", "floatsmall"} -> v.t = "n" /\ rt
    [] kind \in {"nan", "posinf", "neginf", "valuerNaN"} -> IsStr(v)          \* an error string, never a bare NaN
    [] kind = "booltrue"  -> v = Num("true")
    [] kind = "boolfalse" -> v = Num("false")
    [] kind = "dur"       -> v = Num("1500000000")
    [] kind \in {"time", "timeZ"} -> IsStr(v) /\ rt      \* rt: the literal (and for timeZ the record's own time) parses back to the same instant
    [] kind \in {"rawPretty", "rawTrailingNL", "valuerRawPretty"} -> v = Obj(<<[k |-> "a", v |-> Num("1")]>>)
    [] kind = "rawInMap"  -> v = Obj(<<[k |-> "a", v |-> Num("1")]>>)
    [] kind = "rawGarbage" -> IsStr(v)
    [] kind \in {"err", "valuerErr"} -> v = S("E!")
    [] kind \in {"nilErrPtr", "valuerNilErrPtr"} -> v = S("<nil>")       \* an error whose Error method cannot be called is still a string
    [] kind = "panicErr" -> IsStr(v)
    [] kind = "ansi"      -> v = S("AV")
    [] kind \in {"nil", "strptrnil"} -> v = Num("null")
    [] kind = "bytes"     -> v = S("AQID")
    [] kind = "map"       -> v = Obj(<<[k |-> "a", v |-> Num("1")]>>)
    [] kind = "struct"    -> v = Obj(<<[k |-> "a", v |-> Num("1")], [k |-> "b", v |-> S("x")]>>)
    [] kind = "slice"     -> v = Arr(<<Num("1"), Num("2")>>)
    [] kind = "marshalOK" -> v = Obj(<<[k |-> "ok", v |-> Num("true")], [k |-> "n", v |-> Arr(<<Num("1"), Num("2")>>)]>>)
    [] kind \in {"marshalFail", "valuerMarshalFail"} -> v = S("MF!")
    [] kind \in {"marshalGarbage", "chan", "func"} -> IsStr(v)                \* shows up as an error string
    [] kind \in {"marshalFailCtl", "valuerMarshalFailCtl", "errCtl", "ansiCtl"} -> IsStr(v)   \* text with control / invalid bytes: still one strict string
    [] kind = "mapCtl" -> v.t = "o"
    [] kind = "marshalMultiline" -> v = Obj(<<[k |-> "a", v |-> Num("1")]>>)
    [] kind = "valuerStr" -> v = S("LV")
    [] kind = "valuerInt" -> v = Num("5")
    [] kind = "valuerGroup" -> v = Obj(<<[k |-> "a", v |-> Num("1")]>>)
    [] kind = "valuerEmptyGroup" -> v.t = "absent" \/ v = Obj(<<>>)
    [] kind = "jsonnumber" -> v = Num("12")
    [] kind = "big"       -> v = S("<20000 x>")            \* a record above the pooled-buffer limit is still one line
    [] kind = "bigbytes"  -> v = S("<20000 A>")
    [] OTHER -> FALSE

ValuesOK(c) ==
  /\ c.oneline /\ StrictLine(c.toks)
  /\ LET o == Decode(c.toks)
         holder == IF c.where = "group" THEN Member(Member(o, "g"), "h") ELSE o
         zholder == IF c.where = "group" THEN Member(o, "g") ELSE o
     IN /\ o.m[1].k = "time" /\ o.m[2] = [k |-> "level", v |-> S(c.level)]
        /\ (IF c.source THEN /\ o.m[3].k = "source" /\ Member(o.m[3].v, "file").t = "s" /\ Member(o.m[3].v, "line").t = "n"
                             /\ o.m[4] = [k |-> "msg", v |-> S("m")]
                        ELSE o.m[3] = [k |-> "msg", v |-> S("m")])
        /\ ExpectV(c.kind, Member(holder, "v"), c.roundtrip)
        /\ Member(zholder, "z") = Num("1")

\* every output method of Logger, called from a site whose file and line are known (harness/internal/sites): the source
\* member names the caller - not a frame inside the logger package - as <last directory>/<file> and line
CallSiteOK(c) ==
  /\ c.oneline /\ StrictLine(c.toks)
  /\ LET o == Decode(c.toks)
     IN /\ o.m[1].k = "time" /\ o.m[2] = [k |-> "level", v |-> S(c.level)]
        /\ o.m[3].k = "source" /\ Member(o.m[3].v, "file") = S(c.file) /\ Member(o.m[3].v, "line") = Num(c.line)
        /\ o.m[4] = [k |-> "msg", v |-> S("m")]

StructOK(c) == c.oneline /\ StrictLine(c.toks) /\ Says(c.toks, c.chain, c.site)
StringsOK(c) == c.oneline /\ c.shape = c.want /\ Faithful(c.in, c.lit)

JudgeOK == LET c == Cases[i] IN
   (CASE c.mode = "struct" -> StructOK(c) [] c.mode = "values" -> ValuesOK(c) [] c.mode = "callsite" -> CallSiteOK(c) [] OTHER -> StringsOK(c)) \/ PrintT(<<"BAD", i>>)
=============================================================================
