------------------------------ MODULE LogSinkCases ------------------------------
(* Judge of traces recorded at the destination writer of a real glb logger
   (harness/cmd/logsink).  Events in global sequence order:
     lb(g, r, en) / le(g, r) : goroutine g calls / has returned from Logger.Log for record r
     wb(g, r, same, nl, last) / we(g) : a Write call on the destination begins / ends; r is the
        record id found in the payload, same = payload equals the line of record r logged alone
   Statement (LogSink.tla): NoOverlap, OwnLine, ExactlyOnce. *)
EXTENDS Naturals, Sequences, FiniteSets, TLC, Json
Cases == ndJsonDeserialize("cases.ndjson")
VARIABLE i
Init == i \in 1..Len(Cases)
Next == UNCHANGED i

RECURSIVE Fold(_, _, _, _, _, _)
\* open: goroutines inside Write; cur: function g -> [r, en, n] of the Log call in progress; done: records written
Fold(evs, k, open, cur, written, pending) ==
  IF k > Len(evs) THEN (IF pending = {} THEN <<0, "">> ELSE <<Len(evs), "an enabled record caused no Write at all">>)
  ELSE LET e == evs[k] IN
  CASE e.e = "lb" -> Fold(evs, k + 1, open, (e.g :> [r |-> e.r, en |-> e.en, n |-> 0]) @@ cur, written,
                          IF e.en THEN pending \cup {e.r} ELSE pending)
    [] e.e = "wb" ->
         IF open # {} THEN <<k, "two Write calls on the destination overlap">>
         ELSE IF e.g \notin DOMAIN cur THEN <<k, "a Write call outside any Log call">>
         ELSE IF ~cur[e.g].en THEN <<k, "a record below the threshold caused a Write">>
         ELSE IF cur[e.g].n >= 1 THEN <<k, "one record caused more than one Write call">>
         ELSE IF e.r # cur[e.g].r THEN <<k, "the payload of a Write is not the line of the record being logged by that goroutine">>
         ELSE IF ~(e.nl = 1 /\ e.last) THEN <<k, "the payload is not exactly one newline-terminated line">>
         ELSE IF ~e.same THEN <<k, "the payload differs from the line the record gives when logged alone">>
         ELSE IF e.r \in written THEN <<k, "a record appears twice on the destination">>
         ELSE Fold(evs, k + 1, open \cup {e.g}, [cur EXCEPT ![e.g].n = @ + 1], written \cup {e.r}, pending \ {e.r})
    [] e.e = "hbad" -> <<k, "hammer phase: a payload differs from every line the records give when logged alone, or Write calls overlap">>
    [] e.e = "hsum" -> IF e.r # e.n THEN <<k, "hammer phase: the number of Write calls differs from the number of enabled records">>
                       ELSE Fold(evs, k + 1, open, cur, written, pending)
    [] e.e = "wchanged" -> <<k, "the payload changed while the destination was still reading it (buffer reused before Write returned)">>
    [] e.e = "we" -> Fold(evs, k + 1, open \ {e.g}, cur, written, pending)
    [] e.e = "le" ->
         IF cur[e.g].en /\ cur[e.g].n # 1 THEN <<k, "an enabled record did not cause exactly one Write before Log returned">>
         ELSE Fold(evs, k + 1, open, cur, written, pending)
    [] OTHER -> Fold(evs, k + 1, open, cur, written, pending)

JudgeOK == LET r == Fold(Cases[i].evs, 1, {}, <<>>, {}, {}) IN r[1] = 0 \/ PrintT(<<"BAD", i, r[1], r[2]>>)
=============================================================================
