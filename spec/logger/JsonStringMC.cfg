SPECIFICATION Spec
CONSTANT MaxLen = 3
INVARIANT EscapeFaithful
CHECK_DEADLOCK FALSE
