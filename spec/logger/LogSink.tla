-------------------------------- MODULE LogSink --------------------------------
(***************************************************************************)
(* C02 - logging is atomic per record: one Write, one whole line, never    *)
(* interleaved.                                                            *)
(*                                                                         *)
(* Goroutines log records through handler nodes (the root and handlers     *)
(* derived from it).  Implementation-shaped steps of Handle():             *)
(*   level gate -> newBuffer() from the pool -> format (private) ->        *)
(*   outMu.Lock -> out.Write(buf) begins -> ends -> Unlock ->              *)
(*   freeBuffer (reset; back to the pool only if cap <= 16 KiB).           *)
(* clone() copies the POINTER to the root's mutex, so all nodes share it.  *)
(* Mutants: NewMutexInClone, FreeBeforeWrite, NoLock, OversizePooled.      *)
(* Statement: at most one Write in progress on the destination; the        *)
(* payload of each Write is the complete line of exactly the record of the *)
(* goroutine that issues it; an enabled record causes exactly one Write, a *)
(* record below the threshold none.                                        *)
(***************************************************************************)
EXTENDS Naturals, Sequences, FiniteSets, TLC

CONSTANTS Gs,          \* goroutines
          Recs,        \* Recs[g] = sequence of [node, enabled, big]
          Nodes,       \* handler nodes, "root" among them
          Mutant

VARIABLES pc, ri, buf, pool, nbuf, content, holder, writing, writes, inuse
vars == <<pc, ri, buf, pool, nbuf, content, holder, writing, writes, inuse>>
\* pc[g], ri[g]: program counter and index of the current record; buf[g]: buffer held
\* pool: free buffers; content[b]: <<g, k>> whose line the buffer holds; holder[m]: goroutine holding mutex m
\* writing: goroutines inside out.Write; writes: log of <<writer g, record index, payload content>>
\* inuse: buffers some goroutine is formatting into or writing from

MuOf(node) == IF Mutant = "NewMutexInClone" THEN node ELSE "root"
Cur(g) == Recs[g][ri[g]]

Init == /\ pc = [g \in Gs |-> "gate"] /\ ri = [g \in Gs |-> 1] /\ buf = [g \in Gs |-> 0]
        /\ pool = {} /\ nbuf = 0 /\ content = <<>> /\ holder = [n \in Nodes |-> "none"]
        /\ writing = {} /\ writes = <<>> /\ inuse = {}

NextRec(g) == /\ ri' = [ri EXCEPT ![g] = @ + 1]
              /\ pc' = [pc EXCEPT ![g] = "gate"]

Gate(g) == /\ pc[g] = "gate" /\ ri[g] <= Len(Recs[g])
           /\ IF Cur(g).enabled THEN pc' = [pc EXCEPT ![g] = "get"] /\ UNCHANGED ri ELSE NextRec(g)
           /\ UNCHANGED <<buf, pool, nbuf, content, holder, writing, writes, inuse>>
Get(g) ==  /\ pc[g] = "get"
           /\ \/ \E b \in pool : /\ buf' = [buf EXCEPT ![g] = b] /\ pool' = pool \ {b} /\ UNCHANGED <<nbuf, content>>
                                 /\ inuse' = inuse \cup {b}
              \/ /\ buf' = [buf EXCEPT ![g] = nbuf + 1] /\ nbuf' = nbuf + 1 /\ content' = Append(content, <<"none", 0>>)
                 /\ inuse' = inuse \cup {nbuf + 1} /\ UNCHANGED pool
           /\ pc' = [pc EXCEPT ![g] = "format"]
           /\ UNCHANGED <<ri, holder, writing, writes>>
Format(g) == /\ pc[g] = "format"
             /\ content' = [content EXCEPT ![buf[g]] = <<g, ri[g]>>]
             /\ pc' = [pc EXCEPT ![g] = IF Mutant = "FreeBeforeWrite" THEN "free" ELSE IF Mutant = "NoLock" THEN "wbegin" ELSE "lock"]
             /\ UNCHANGED <<ri, buf, pool, nbuf, holder, writing, writes, inuse>>
Lock(g) == /\ pc[g] = "lock" /\ holder[MuOf(Cur(g).node)] = "none"
           /\ holder' = [holder EXCEPT ![MuOf(Cur(g).node)] = g]
           /\ pc' = [pc EXCEPT ![g] = "wbegin"]
           /\ UNCHANGED <<ri, buf, pool, nbuf, content, writing, writes, inuse>>
WBegin(g) == /\ pc[g] = "wbegin"
             /\ writing' = writing \cup {g}
             /\ writes' = Append(writes, <<g, ri[g], content[buf[g]]>>)
             /\ pc' = [pc EXCEPT ![g] = "wend"]
             /\ UNCHANGED <<ri, buf, pool, nbuf, content, holder, inuse>>
WEnd(g) == /\ pc[g] = "wend" /\ writing' = writing \ {g}
           /\ pc' = [pc EXCEPT ![g] = IF Mutant = "NoLock" THEN "free" ELSE "unlock"]
           /\ UNCHANGED <<ri, buf, pool, nbuf, content, holder, writes, inuse>>
Unlock(g) == /\ pc[g] = "unlock"
             /\ holder' = [holder EXCEPT ![MuOf(Cur(g).node)] = "none"]
             /\ (IF Mutant = "FreeBeforeWrite" THEN NextRec(g) ELSE pc' = [pc EXCEPT ![g] = "free"] /\ UNCHANGED ri)
             /\ UNCHANGED <<buf, pool, nbuf, content, writing, writes, inuse>>
Free(g) == /\ pc[g] = "free"
           /\ pool' = IF Cur(g).big /\ Mutant # "OversizePooled" THEN pool ELSE pool \cup {buf[g]}
           /\ inuse' = IF Mutant = "FreeBeforeWrite" THEN inuse ELSE inuse \ {buf[g]}
           /\ (IF Mutant = "FreeBeforeWrite" THEN pc' = [pc EXCEPT ![g] = "lock"] /\ UNCHANGED ri ELSE NextRec(g))
           /\ UNCHANGED <<buf, nbuf, content, holder, writing, writes>>
Next == \E g \in Gs : Gate(g) \/ Get(g) \/ Format(g) \/ Lock(g) \/ WBegin(g) \/ WEnd(g) \/ Unlock(g) \/ Free(g)
Spec == Init /\ [][Next]_vars

-----------------------------------------------------------------------------
NoOverlap == Cardinality(writing) <= 1
OwnLine == \A k \in 1..Len(writes) : writes[k][3] = <<writes[k][1], writes[k][2]>>
Done(g) == ri[g] > Len(Recs[g])
Count(g, k) == Cardinality({j \in 1..Len(writes) : writes[j][1] = g /\ writes[j][2] = k})
ExactlyOnce == \A g \in Gs : \A k \in 1..Len(Recs[g]) :
                  /\ Count(g, k) <= (IF Recs[g][k].enabled THEN 1 ELSE 0)
                  /\ (k < ri[g] => Count(g, k) = (IF Recs[g][k].enabled THEN 1 ELSE 0))
\* a buffer in the pool is never one somebody still formats into or writes from
PoolSafe == pool \cap inuse = {}
=============================================================================
