--------------------------------- MODULE Colour ---------------------------------
(***************************************************************************)
(* Beyond the listed properties (C01 and C13 are stated "with colour off"):*)
(* what switching colour ON changes.                                       *)
(*                                                                         *)
(* For all three handlers, the colourful line is the plain line with SGR   *)
(* sequences inserted - nothing else moves:                                *)
(*     Strip(colourful) = plain                                            *)
(* where Strip removes every ESC [ digits m.  The sequences are well       *)
(* bracketed: a colour (ESC [ 3x m) is always closed by a reset (ESC [ 0 m)*)
(* before the next colour and before the end of the line, so colour never  *)
(* leaks into the following text or the next record; and there are exactly *)
(* 1 + (number of AnsiString values with a non-empty prefix) coloured      *)
(* spans: the level label and those values.  With colour off no ESC byte   *)
(* is written at all (values in the scenarios contain none).               *)
(***************************************************************************)
EXTENDS Integers, Sequences, TLC, Json

ESC == 27
\* end (exclusive) of an SGR sequence starting at i, 0 if there is none
RECURSIVE DigitsEnd(_, _)
DigitsEnd(s, i) == IF i <= Len(s) /\ s[i] \in 48..57 THEN DigitsEnd(s, i + 1) ELSE i
SgrEnd(s, i) ==
  IF i + 2 <= Len(s) /\ s[i] = ESC /\ s[i + 1] = 91 THEN
     LET e == DigitsEnd(s, i + 2) IN IF e > i + 2 /\ e <= Len(s) /\ s[e] = 109 THEN e + 1 ELSE 0
  ELSE 0
IsReset(s, i) == SgrEnd(s, i) = i + 4 /\ s[i + 2] = 48

RECURSIVE Strip(_, _)
Strip(s, i) == IF i > Len(s) THEN <<>>
               ELSE LET e == SgrEnd(s, i) IN IF e # 0 THEN Strip(s, e) ELSE <<s[i]>> \o Strip(s, i + 1)

\* number of coloured spans if well bracketed, -1 otherwise
RECURSIVE Spans(_, _, _, _)
Spans(s, i, open, n) ==
  IF i > Len(s) THEN (IF open THEN 0 - 1 ELSE n)
  ELSE LET e == SgrEnd(s, i) IN
    IF e = 0 THEN (IF s[i] = ESC THEN 0 - 1 ELSE Spans(s, i + 1, open, n))      \* a stray ESC is not ours
    ELSE IF IsReset(s, i) THEN (IF open THEN Spans(s, e, FALSE, n + 1) ELSE 0 - 1)
    ELSE (IF open THEN 0 - 1 ELSE Spans(s, e, TRUE, n))
NoEsc(s) == \A k \in 1..Len(s) : s[k] # ESC

Cases == ndJsonDeserialize("cases.ndjson")
VARIABLE i
Init == i \in 1..Len(Cases)
Next == UNCHANGED i
\* plain / colour: the two lines of the same record (time masked by the harness); nansi: AnsiString values with a prefix
JudgeOK == LET c == Cases[i] IN
   ( /\ NoEsc(c.plain)
     /\ Strip(c.colour, 1) = c.plain
     /\ Spans(c.colour, 1, FALSE, 0) = 1 + c.nansi
     /\ c.colour[Len(c.colour)] = 10
   ) \/ PrintT(<<"BAD", i>>)
=============================================================================
