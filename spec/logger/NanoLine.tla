-------------------------------- MODULE NanoLine --------------------------------
(***************************************************************************)
(* Beyond the listed properties: the Nano handler's line format.           *)
(*   DATE SP TIME SP [L] (SP msg)? (SP value)* LF                          *)
(* Attribute keys and group names are dropped, values appear in order -    *)
(* those accumulated through With first, then the call's own -, groups     *)
(* (keyed, inline, empty, behind LogValuers) are flattened, an empty       *)
(* message is omitted.  Values are written raw (no quoting).               *)
(* Scenarios are the chains x forests of JsonLineMC; nodes carry xb.       *)
(***************************************************************************)
EXTENDS Integers, Sequences, TLC, Json
SP == 32  LF == 10
RECURSIVE Vals(_, _)
Vals(f, i) == IF i > Len(f) THEN <<>>
              ELSE (IF f[i].t = "leaf" THEN <<SP>> \o f[i].xb ELSE Vals(f[i].c, 1)) \o Vals(f, i + 1)
RECURSIVE ChainVals(_, _)
ChainVals(chain, i) == IF i > Len(chain) THEN <<>>
                       ELSE (IF chain[i].op = "with" THEN Vals(chain[i].f, 1) ELSE <<>>) \o ChainVals(chain, i + 1)
\* the line after "DATE TIME [I]"
ExpectedTail(chain, site, msg) == (IF msg = <<>> THEN <<>> ELSE <<SP>> \o msg) \o ChainVals(chain, 1) \o Vals(site, 1) \o <<LF>>

Cases == ndJsonDeserialize("cases.ndjson")
VARIABLE i
Init == i \in 1..Len(Cases)
Next == UNCHANGED i
JudgeOK == LET c == Cases[i] IN (c.onewrite /\ c.head /\ c.tail = ExpectedTail(c.chain, c.site, c.msg)) \/ PrintT(<<"BAD", i>>)
=============================================================================
