-------------------------------- MODULE TextLine --------------------------------
(***************************************************************************)
(* C13 - every record the Text handler writes parses back unambiguously.   *)
(*                                                                         *)
(* Statement layer: an independent tokenizer for the line grammar          *)
(*     line  = token (SP token)* LF                                        *)
(*     token = part "=" part                                               *)
(*     part  = bare | goquoted                                             *)
(*     bare  = non-empty run of well-formed UTF-8 characters containing no *)
(*             Unicode White_Space, no "=" and no '"'                      *)
(*     goquoted = a Go interpreted string literal ("..." with \a \b \f \n  *)
(*             \r \t \v \\ \" \xHH \uXXXX \UXXXXXXXX; no raw newline; a raw *)
(*             invalid byte reads as U+FFFD, as strconv.Unquote does)      *)
(* Tokenize(line) = sequence of <<key bytes, value bytes>> (quoted parts   *)
(* unquoted to the BYTES they denote) or "bad".                            *)
(* Expected(chain, site) = one token per leaf, in order, keyed by the      *)
(* dotted path of the open and enclosing keyed groups.                     *)
(* Implementation-shaped layer: the quoting decision of appendTextString   *)
(* and strconv.Quote, over code-point classes given by ClassOf.            *)
(***************************************************************************)
EXTENDS Utf8, FiniteSets, TLC

SP == 32  LF == 10  EQ == 61  DQ == 34  BSL == 92  DOT == 46

\* Unicode White_Space (PropList.txt)
WhiteSpace(cp) == \/ cp \in 9..13 \/ cp = 32 \/ cp = 133 \/ cp = 160 \/ cp = 5760 \/ cp \in 8192..8202
                  \/ cp \in {8232, 8233, 8239, 8287, 12288}

HexV(c) == IF c \in 48..57 THEN c - 48 ELSE IF c \in 97..102 THEN c - 87 ELSE IF c \in 65..70 THEN c - 55 ELSE 0 - 1
RECURSIVE HexN(_, _, _, _)
HexN(s, i, n, acc) == IF n = 0 THEN acc
                      ELSE IF i > Len(s) \/ HexV(s[i]) < 0 THEN 0 - 1
                      ELSE HexN(s, i + 1, n - 1, acc * 16 + HexV(s[i]))

\* GoUnquote of the text between the quotes: <<"ok", bytes>> or <<"bad", reason>>
RECURSIVE UnqFrom(_, _, _)
UnqFrom(s, i, acc) ==
  IF i > Len(s) THEN <<"ok", acc>>
  ELSE LET c == s[i] IN
    IF c = DQ THEN <<"bad", "unescaped quote">>
    ELSE IF c = LF THEN <<"bad", "raw newline in quoted part">>
    ELSE IF c = BSL THEN
       IF i + 1 > Len(s) THEN <<"bad", "dangling backslash">>
       ELSE LET e == s[i + 1] IN
         CASE e = 97  -> UnqFrom(s, i + 2, Append(acc, 7))
           [] e = 98  -> UnqFrom(s, i + 2, Append(acc, 8))
           [] e = 102 -> UnqFrom(s, i + 2, Append(acc, 12))
           [] e = 110 -> UnqFrom(s, i + 2, Append(acc, 10))
           [] e = 114 -> UnqFrom(s, i + 2, Append(acc, 13))
           [] e = 116 -> UnqFrom(s, i + 2, Append(acc, 9))
           [] e = 118 -> UnqFrom(s, i + 2, Append(acc, 11))
           [] e = BSL -> UnqFrom(s, i + 2, Append(acc, BSL))
           [] e = DQ  -> UnqFrom(s, i + 2, Append(acc, DQ))
           [] e = 120 -> LET v == HexN(s, i + 2, 2, 0) IN
                         IF v < 0 THEN <<"bad", "malformed \\x">> ELSE UnqFrom(s, i + 4, Append(acc, v))
           [] e = 117 -> LET v == HexN(s, i + 2, 4, 0) IN
                         IF v < 0 \/ ~IsScalar(v) THEN <<"bad", "malformed \\u">> ELSE UnqFrom(s, i + 6, acc \o Encode(v))
           [] e = 85  -> LET v == HexN(s, i + 2, 8, 0) IN
                         IF v < 0 \/ ~IsScalar(v) THEN <<"bad", "malformed \\U">> ELSE UnqFrom(s, i + 10, acc \o Encode(v))
           [] OTHER -> <<"bad", "unknown escape">>
    ELSE IF c >= 128 THEN
       LET n == Seq1(s, i) IN
       IF n = 0 THEN UnqFrom(s, i + 1, acc \o Encode(RuneError))      \* as strconv.Unquote: U+FFFD
       ELSE UnqFrom(s, i + n, acc \o SubSeq(s, i, i + n - 1))
    ELSE UnqFrom(s, i + 1, Append(acc, c))

\* a bare part: non-empty, well-formed UTF-8, no White_Space, no '=' and no '"'
RECURSIVE BareOK(_, _)
BareOK(s, i) == IF i > Len(s) THEN TRUE
                ELSE LET n == Seq1(s, i) IN
                     n # 0 /\ ~WhiteSpace(Scalar(s, i, n)) /\ Scalar(s, i, n) \notin {EQ, DQ} /\ BareOK(s, i + n)

\* end index (exclusive) of the quoted part starting at the quote s[i]; 0 if unterminated
RECURSIVE QuoteEnd(_, _)
QuoteEnd(s, j) == IF j > Len(s) THEN 0
                  ELSE IF s[j] = BSL THEN QuoteEnd(s, j + 2)
                  ELSE IF s[j] = DQ THEN j + 1 ELSE QuoteEnd(s, j + 1)
RECURSIVE BareEnd(_, _)
BareEnd(s, j) == IF j > Len(s) \/ s[j] \in {SP, EQ, LF} THEN j ELSE BareEnd(s, j + 1)

\* one part starting at i: [ok, bytes, next]
Part(s, i) ==
  IF i > Len(s) THEN [ok |-> FALSE, b |-> <<>>, n |-> 0]
  ELSE IF s[i] = DQ THEN
       LET e == QuoteEnd(s, i + 1) IN
       IF e = 0 THEN [ok |-> FALSE, b |-> <<>>, n |-> 0]
       ELSE LET u == UnqFrom(SubSeq(s, i + 1, e - 2), 1, <<>>) IN
            IF u[1] = "ok" THEN [ok |-> TRUE, b |-> u[2], n |-> e] ELSE [ok |-> FALSE, b |-> <<>>, n |-> 0]
  ELSE LET e == BareEnd(s, i) IN
       IF e = i \/ ~BareOK(SubSeq(s, i, e - 1), 1) THEN [ok |-> FALSE, b |-> <<>>, n |-> 0]
       ELSE [ok |-> TRUE, b |-> SubSeq(s, i, e - 1), n |-> e]

\* a line that does not follow the grammar: one impossible token (comparable with token lists)
BadLine == << << <<0 - 1>>, <<>> >> >>
RECURSIVE TokFrom(_, _, _)
TokFrom(s, i, acc) ==
  LET k == Part(s, i) IN
  IF ~k.ok \/ k.n > Len(s) \/ s[k.n] # EQ THEN BadLine
  ELSE LET v == Part(s, k.n + 1) IN
       IF ~v.ok \/ v.n > Len(s) THEN BadLine
       ELSE IF s[v.n] = LF THEN (IF v.n = Len(s) THEN Append(acc, <<k.b, v.b>>) ELSE BadLine)
       ELSE IF s[v.n] = SP THEN TokFrom(s, v.n + 1, Append(acc, <<k.b, v.b>>))
       ELSE BadLine
Tokenize(line) == TokFrom(line, 1, <<>>)

-----------------------------------------------------------------------------
(* Expected tokens of the attribute part: nodes carry kb / xb (key and value bytes). *)
JoinKey(prefix, kb) == IF prefix = <<>> THEN kb ELSE prefix \o <<DOT>> \o kb
RECURSIVE ExpForest(_, _, _)
ExpForest(f, i, prefix) ==
  IF i > Len(f) THEN <<>>
  ELSE LET a == f[i] IN
    (IF a.t = "leaf" THEN << <<JoinKey(prefix, a.kb), a.xb>> >>
     ELSE ExpForest(a.c, 1, IF a.kb = <<>> THEN prefix ELSE JoinKey(prefix, a.kb))) \o ExpForest(f, i + 1, prefix)
RECURSIVE ExpChain(_, _, _, _)
ExpChain(chain, i, site, prefix) ==
  IF i > Len(chain) THEN ExpForest(site, 1, prefix)
  ELSE IF chain[i].op = "with" THEN ExpForest(chain[i].f, 1, prefix) \o ExpChain(chain, i + 1, site, prefix)
  ELSE ExpChain(chain, i + 1, site, JoinKey(prefix, chain[i].nb))

-----------------------------------------------------------------------------
(* Implementation-shaped layer: appendTextString over code-point classes.  *)
(* ClassOf(cp) \in {"print", "space", "other"} must be supplied for the    *)
(* code points the model uses (unicode.IsPrint / IsSpace are tables).      *)
Hex2(v) == LET h(d) == IF d < 10 THEN 48 + d ELSE 87 + d IN <<h(v \div 16), h(v % 16)>>
Hex4(v) == Hex2(v \div 256) \o Hex2(v % 256)
\* strconv.Quote of one scalar / one invalid byte
QuoteRune(cp, class) ==
  IF cp = DQ \/ cp = BSL THEN <<BSL, cp>>
  ELSE IF class = "print" THEN Encode(cp)
  ELSE CASE cp = 7 -> <<BSL, 97>> [] cp = 8 -> <<BSL, 98>> [] cp = 12 -> <<BSL, 102>> [] cp = 10 -> <<BSL, 110>>
         [] cp = 13 -> <<BSL, 114>> [] cp = 9 -> <<BSL, 116>> [] cp = 11 -> <<BSL, 118>>
         [] OTHER -> IF cp < 32 \/ cp = 127 THEN <<BSL, 120>> \o Hex2(cp)
                     ELSE IF cp < 65536 THEN <<BSL, 117>> \o Hex4(cp)
                     ELSE <<BSL, 85>> \o Hex4(cp \div 65536) \o Hex4(cp % 65536)
=============================================================================
