SPECIFICATION Spec
CONSTANTS
  Gs = {"g1", "g2", "g3"}
  Recs <- Recs3
  Nodes = {"root", "d1", "d2"}
  Mutant = "none"
INVARIANTS NoOverlap OwnLine ExactlyOnce PoolSafe
CHECK_DEADLOCK FALSE
