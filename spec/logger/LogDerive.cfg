SPECIFICATION Spec
CONSTANTS
  MaxNodes = 4
  MaxOps = 0
  Clip = TRUE
  Spare = {0, 1, 2}
  RecordHist = FALSE
INVARIANT Isolated
CHECK_DEADLOCK FALSE
