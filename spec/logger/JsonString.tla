------------------------------- MODULE JsonString -------------------------------
(***************************************************************************)
(* C01 (string fidelity) - JSON string literals, RFC 8259 section 7.       *)
(*   JsonUnescape(lit)  statement layer: what a conforming decoder makes   *)
(*                      of the bytes between the quotes: <<"ok", code      *)
(*                      points>> or <<"bad", reason>>.  Raw bytes must be  *)
(*                      >= 0x20, not '"' or '\', and well-formed UTF-8;    *)
(*                      escapes \" \\ \/ \b \f \n \r \t \uXXXX with        *)
(*                      surrogate pairs; lone surrogates are rejected.     *)
(*   Escape(s)          implementation-shaped: appendJsonString of the     *)
(*                      code (safe set, short escapes, \u00XX, � for  *)
(*                      each invalid byte,   /  ).               *)
(* Statement:  JsonUnescape(written literal) = <<"ok", Sanitize(input)>>.  *)
(* It is phrased on the decoder side on purpose: any other valid escaping  *)
(* of the same text is equally acceptable.                                 *)
(***************************************************************************)
EXTENDS Utf8

HexVal(c) == IF c \in 48..57 THEN c - 48 ELSE IF c \in 97..102 THEN c - 87 ELSE IF c \in 65..70 THEN c - 55 ELSE 0 - 1
Hex4(s, i) ==   \* value of the four hex digits s[i..i+3], -1 if malformed
  IF i + 3 > Len(s) THEN 0 - 1
  ELSE LET a == HexVal(s[i]) b == HexVal(s[i + 1]) c == HexVal(s[i + 2]) d == HexVal(s[i + 3]) IN
       IF a < 0 \/ b < 0 \/ c < 0 \/ d < 0 THEN 0 - 1 ELSE a * 4096 + b * 256 + c * 16 + d

RECURSIVE Unesc(_, _, _)
Unesc(s, i, acc) ==
  IF i > Len(s) THEN <<"ok", acc>>
  ELSE LET c == s[i] IN
    IF c < 32 THEN <<"bad", "raw control character">>
    ELSE IF c = 34 THEN <<"bad", "unescaped quote">>
    ELSE IF c = 92 THEN
       IF i + 1 > Len(s) THEN <<"bad", "dangling backslash">>
       ELSE LET e == s[i + 1] IN
         CASE e = 34  -> Unesc(s, i + 2, Append(acc, 34))
           [] e = 92  -> Unesc(s, i + 2, Append(acc, 92))
           [] e = 47  -> Unesc(s, i + 2, Append(acc, 47))
           [] e = 98  -> Unesc(s, i + 2, Append(acc, 8))
           [] e = 102 -> Unesc(s, i + 2, Append(acc, 12))
           [] e = 110 -> Unesc(s, i + 2, Append(acc, 10))
           [] e = 114 -> Unesc(s, i + 2, Append(acc, 13))
           [] e = 116 -> Unesc(s, i + 2, Append(acc, 9))
           [] e = 117 ->
                LET u == Hex4(s, i + 2) IN
                IF u < 0 THEN <<"bad", "malformed \\u escape">>
                ELSE IF u \in 55296..56319 THEN      \* high surrogate: needs a low one
                     IF i + 7 <= Len(s) /\ s[i + 6] = 92 /\ s[i + 7] = 117 /\ Hex4(s, i + 8) \in 56320..57343
                     THEN Unesc(s, i + 12, Append(acc, 65536 + (u - 55296) * 1024 + (Hex4(s, i + 8) - 56320)))
                     ELSE <<"bad", "lone surrogate">>
                ELSE IF u \in 56320..57343 THEN <<"bad", "lone surrogate">>
                ELSE Unesc(s, i + 6, Append(acc, u))
           [] OTHER -> <<"bad", "unknown escape">>
    ELSE IF c >= 128 THEN
       LET n == Seq1(s, i) IN
       IF n = 0 THEN <<"bad", "invalid UTF-8 in literal">> ELSE Unesc(s, i + n, Append(acc, Scalar(s, i, n)))
    ELSE Unesc(s, i + 1, Append(acc, c))
JsonUnescape(lit) == Unesc(lit, 1, <<>>)

Faithful(input, lit) == JsonUnescape(lit) = <<"ok", Sanitize(input)>>

-----------------------------------------------------------------------------
(* Implementation-shaped: appendJsonString.                                *)
HexDigit(v) == IF v < 10 THEN 48 + v ELSE 87 + v
SafeAscii(b) == b >= 32 /\ b # 34 /\ b # 92           \* the code's safeSet (DEL included)
RECURSIVE Esc(_, _)
Esc(s, i) ==
  IF i > Len(s) THEN <<>>
  ELSE LET b == s[i] IN
    IF b < 128 THEN
       (IF SafeAscii(b) THEN <<b>>
        ELSE IF b \in {92, 34} THEN <<92, b>>
        ELSE IF b = 10 THEN <<92, 110>> ELSE IF b = 13 THEN <<92, 114>> ELSE IF b = 9 THEN <<92, 116>>
        ELSE <<92, 117, 48, 48, HexDigit(b \div 16), HexDigit(b % 16)>>) \o Esc(s, i + 1)
    ELSE LET n == Seq1(s, i) IN
       IF n = 0 THEN <<92, 117, 102, 102, 102, 100>> \o Esc(s, i + 1)
       ELSE IF n = 3 /\ Scalar(s, i, 3) \in {8232, 8233}
            THEN <<92, 117, 50, 48, 50, HexDigit((Scalar(s, i, 3)) % 16)>> \o Esc(s, i + 3)
       ELSE SubSeq(s, i, i + n - 1) \o Esc(s, i + n)
Escape(s) == Esc(s, 1)

\* non-vacuity mutants
RECURSIVE EscRawInvalid(_, _)
EscRawInvalid(s, i) == IF i > Len(s) THEN <<>>       \* copies invalid bytes raw
  ELSE IF s[i] >= 128 /\ Seq1(s, i) = 0 THEN <<s[i]>> \o EscRawInvalid(s, i + 1)
  ELSE Esc(<<s[i]>>, 1) \o EscRawInvalid(s, i + 1)
=============================================================================
