-------------------------------- MODULE LogFront --------------------------------
(***************************************************************************)
(* Beyond the listed properties: the Logger front end.                     *)
(*                                                                         *)
(*  - the level gate: a call at level L reaches the destination iff        *)
(*    L >= the handler's level; the label printed is the one of L          *)
(*    (full label for Text/JSON, short label for Nano);                    *)
(*  - the argument pairing machine of With / Debug..Error / Log            *)
(*    (documented on argsToAttrs): an Attr is used as is; a string that is *)
(*    not the last argument takes the next argument as its value; a        *)
(*    trailing string or any other value is filed under "!BADKEY";         *)
(*  - the ..f variants format the message and produce no attributes;       *)
(*  - Panic / Panicf log at ERROR and then panic with the message, whether *)
(*    or not the record passed the gate; Fatal / Fatalf log at FATAL and   *)
(*    end the process with status 1.                                       *)
(*                                                                         *)
(* An argument is [t |-> "s" | "a" | "o", k, x]: a string x, an Attr k=x,  *)
(* or another value (an int with decimal text x).                          *)
(***************************************************************************)
EXTENDS Integers, Sequences, TLC, Json

Levels == {0, 4, 8, 12, 16}
ValidLevel(l) == l \in Levels
FullLabel(l) == CASE l = 0 -> "DEBUG" [] l = 4 -> "INFO" [] l = 8 -> "WARN" [] l = 12 -> "ERROR" [] l = 16 -> "FATAL"
ShortLabel(l) == CASE l = 0 -> "[D]" [] l = 4 -> "[I]" [] l = 8 -> "[W]" [] l = 12 -> "[E]" [] l = 16 -> "[F]"

MethodLevel(m, l) ==
  CASE m \in {"Debug", "Debugf"} -> 0 [] m \in {"Info", "Infof"} -> 4 [] m \in {"Warn", "Warnf"} -> 8
    [] m \in {"Error", "Errorf", "Panic", "Panicf"} -> 12 [] m \in {"Fatal", "Fatalf"} -> 16
    [] m \in {"Log", "Logf", "LogAttrs"} -> l
Formatted(m) == m \in {"Debugf", "Infof", "Warnf", "Errorf", "Panicf", "Fatalf", "Logf"}
Panics(m) == m \in {"Panic", "Panicf"}
Exits(m) == m \in {"Fatal", "Fatalf"}

Passes(level, min) == level >= min

\* value an argument contributes when it follows a string key: [v, vt]; vt = "s" string, "n" number, "x" not compared
ValOf(a) == IF a.t = "s" THEN [v |-> a.x, vt |-> "s"] ELSE IF a.t = "o" THEN [v |-> a.x, vt |-> "n"] ELSE [v |-> "", vt |-> "x"]

RECURSIVE Pair(_, _)
Pair(args, i) ==
  IF i > Len(args) THEN <<>>
  ELSE LET a == args[i] IN
    IF a.t = "s" THEN
      (IF i + 1 <= Len(args) THEN <<[k |-> a.x] @@ ValOf(args[i + 1])>> \o Pair(args, i + 2)
       ELSE <<[k |-> "!BADKEY", v |-> a.x, vt |-> "s"]>>)
    ELSE IF a.t = "a" THEN <<[k |-> a.k, v |-> a.x, vt |-> "s"]>> \o Pair(args, i + 1)
    ELSE <<[k |-> "!BADKEY", v |-> a.x, vt |-> "n"]>> \o Pair(args, i + 1)

\* facts of the pairing machine: every argument is used exactly once (as key, value or attribute),
\* so the number of attributes is Len(args) minus the number of strings that found a value
RECURSIVE Keyed(_, _)
Keyed(args, i) == IF i > Len(args) THEN 0
                  ELSE IF args[i].t = "s" /\ i + 1 <= Len(args) THEN 1 + Keyed(args, i + 2) ELSE Keyed(args, i + 1)
UsedOnce(args) == Len(Pair(args, 1)) = Len(args) - Keyed(args, 1)

Cases == ndJsonDeserialize("cases.ndjson")
VARIABLE i
Init == i \in 1..Len(Cases)
Next == UNCHANGED i

SameAttrs(got, want) ==
  /\ Len(got) = Len(want)
  /\ \A j \in 1..Len(want) : got[j].k = want[j].k /\ got[j].vt = want[j].vt /\ (want[j].vt # "x" => got[j].v = want[j].v)

\* a case: m, l (for Log*), min, with (arguments given to With), args, and what the real logger did:
\*   writes (number of Write calls), jlabel / nlabel, attrs (top-level members after msg), msg, panicked, pmsg, exit
JudgeOK == LET c == Cases[i]
               lvl == MethodLevel(c.m, c.l)
               want == Pair(c.with, 1) \o (IF Formatted(c.m) THEN <<>> ELSE Pair(c.args, 1))
           IN
   ( /\ ValidLevel(lvl) /\ ValidLevel(c.min) /\ UsedOnce(c.args) /\ UsedOnce(c.with)
     /\ c.writes = (IF Passes(lvl, c.min) THEN 1 ELSE 0)
     /\ (Passes(lvl, c.min) => /\ c.jlabel = FullLabel(lvl) /\ c.nlabel = ShortLabel(lvl)
                               /\ SameAttrs(c.attrs, want)
                               /\ c.msg = c.wantmsg)
     /\ c.panicked = Panics(c.m) /\ (Panics(c.m) => c.pmsg = c.wantmsg)
     /\ c.exit = (IF Exits(c.m) THEN 1 ELSE 0 - 1)
   ) \/ PrintT(<<"BAD", i>>)
=============================================================================
