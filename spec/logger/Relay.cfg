SPECIFICATION Spec
CONSTANTS
  Reqs = {1, 2}
  FlushRecords = TRUE
  WithFlush = FALSE
INVARIANTS Truthful OneBegOneEnd
CHECK_DEADLOCK FALSE
