----------------------------- MODULE UrlPathCases -----------------------------
(* Judge of recorded real-code results: each case is {b: base bytes, p: url path
   bytes, r: bytes returned by the real fsutil.ResolveUrlPath}.  One TLC state per
   case; a case failing the statement is printed, a case merely differing from the
   implementation-shaped Resolve is printed as DRIFT. *)
EXTENDS UrlPath, Json, TLC
Cases == ndJsonDeserialize("cases.ndjson")
VARIABLE i
Init == i \in 1..Len(Cases)
Next == UNCHANGED i
JudgeOK == LET c == Cases[i] IN
    /\ (Holds(c.b, c.p, c.r) \/ PrintT(<<"BAD", i>>))
    /\ (c.r = Resolve(c.b, c.p) \/ PrintT(<<"DRIFT", i>>))
=============================================================================
