------------------------------ MODULE ProgressCases ------------------------------
(* Judge of traces of the real ioutil.ProgressWriter (harness/cmd/progress), statement of Progress.tla:
     u(n)       the wrapped writer reported n bytes            -> total += n, a new admissible status value
     size(n)    Size() read after a call returned              -> must equal total
     r(v, ok)   value received from Status()                   -> non-decreasing, v is one of the totals so far;
                                                                  after Close returned: the last value is the total
                                                                  and the channel is closed
     stalled    the writer is parked inside Write in a stable state *)
EXTENDS Naturals, Sequences, FiniteSets, TLC, Json
Cases == ndJsonDeserialize("cases.ndjson")
VARIABLE i
Init == i \in 1..Len(Cases)
Next == UNCHANGED i

RECURSIVE Fold(_, _, _)
Fold(evs, k, s) ==
  IF k > Len(evs) THEN
       (IF s.closed /\ ~s.sawclose THEN <<Len(evs), "after Close the channel was not observed closed">>
        ELSE IF s.closed /\ s.last # s.total THEN <<Len(evs), "the last value received is not the final total">> ELSE <<0, "">>)
  ELSE LET e == evs[k] IN
  CASE e.e = "u" -> Fold(evs, k + 1, [s EXCEPT !.total = @ + e.n, !.sums = @ \cup {s.total + e.n}, !.lastu = e.n, !.lasterr = e.err])
    [] e.e = "size" -> IF e.n # s.total THEN <<k, "Size() differs from the sum of the byte counts the wrapped writer reported">>
                       ELSE Fold(evs, k + 1, s)
    [] e.e = "ce" -> Fold(evs, k + 1, [s EXCEPT !.closed = TRUE])
    [] e.e = "r" ->
         IF ~e.ok THEN (IF ~s.closeBegun THEN <<k, "the channel was closed before Close()">> ELSE Fold(evs, k + 1, [s EXCEPT !.sawclose = TRUE]))
         ELSE IF e.n < s.last THEN <<k, "values received from Status() decreased">>
         ELSE IF e.n \notin s.sums THEN <<k, "a value received from Status() is not Size() after any write">>
         ELSE Fold(evs, k + 1, [s EXCEPT !.last = e.n])
    [] e.e = "cb" -> Fold(evs, k + 1, [s EXCEPT !.closeBegun = TRUE])
    [] e.e = "stalled" -> <<k, "the writer is blocked inside Write although it must never wait for a receiver">>
    [] e.e = "consumer-stuck" -> <<k, "after Close() the consumer never saw the channel closed">>
    [] OTHER -> Fold(evs, k + 1, s)
S0 == [total |-> 0, sums |-> {0}, lastu |-> 0, lasterr |-> FALSE, last |-> 0, closed |-> FALSE, closeBegun |-> FALSE, sawclose |-> FALSE]
JudgeOK == LET r == Fold(Cases[i].evs, 1, S0) IN r[1] = 0 \/ PrintT(<<"BAD", i, r[1], r[2]>>)
=============================================================================
