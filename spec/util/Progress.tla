-------------------------------- MODULE Progress --------------------------------
(***************************************************************************)
(* C19 - ioutil.ProgressWriter reports true, monotone progress and never   *)
(* stalls the writer.                                                      *)
(*                                                                         *)
(* Writer: each Write / WriteString = the wrapped writer returns (k, err)  *)
(* with 0 <= k <= n (full, short, failed - any combination) -> size += k   *)
(* -> a NON-BLOCKING offer of size on the unbuffered status channel (it    *)
(* succeeds only if the consumer is parked receiving).  Close = blocking   *)
(* send of size, then close(channel).  Consumer: receives whenever it      *)
(* likes (absent, slow, fast, late are all schedules of its two steps).    *)
(* Mutant BlockingSend: the offer in sum() blocks.                         *)
(***************************************************************************)
EXTENDS Naturals, Sequences, FiniteSets, TLC

CONSTANTS MaxWrites, MaxN, Mutant

VARIABLES wpc,      \* "idle" | "under" | "offer" | "parkedInSum" | "closeParked" | "closed"
          req,      \* bytes requested by the call in progress
          size,     \* pw.size
          sums,     \* Size() after each completed underlying write (history)
          nwrites,
          cpc,      \* consumer: "away" | "parked" | "done"
          recvd,    \* values received so far
          sawClose  \* the consumer's receive reported the channel closed
vars == <<wpc, req, size, sums, nwrites, cpc, recvd, sawClose>>

Init == wpc = "idle" /\ req = 0 /\ size = 0 /\ sums = <<>> /\ nwrites = 0 /\ cpc = "away" /\ recvd = <<>> /\ sawClose = FALSE

Call(n) == /\ wpc = "idle" /\ nwrites < MaxWrites /\ wpc' = "under" /\ req' = n /\ nwrites' = nwrites + 1
           /\ UNCHANGED <<size, sums, cpc, recvd, sawClose>>
\* the wrapped writer reports k bytes (with or without an error)
Under(k) == /\ wpc = "under" /\ k <= req
            /\ size' = size + k /\ sums' = Append(sums, size + k) /\ wpc' = "offer"
            /\ UNCHANGED <<req, nwrites, cpc, recvd, sawClose>>
\* select { case status <- size: default: }
Offer == /\ wpc = "offer"
         /\ IF cpc = "parked"
            THEN recvd' = Append(recvd, size) /\ cpc' = "away" /\ wpc' = "idle"
            ELSE /\ UNCHANGED <<recvd, cpc>>
                 /\ wpc' = IF Mutant = "BlockingSend" THEN "parkedInSum" ELSE "idle"
         /\ UNCHANGED <<req, size, sums, nwrites, sawClose>>
\* Close(): status <- size (blocking), then close(status)
Close == /\ wpc = "idle"
         /\ IF cpc = "parked" THEN recvd' = Append(recvd, size) /\ cpc' = "away" /\ wpc' = "closed"
                              ELSE wpc' = "closeParked" /\ UNCHANGED <<recvd, cpc>>
         /\ UNCHANGED <<req, size, sums, nwrites, sawClose>>
\* consumer: v, ok := <-status
Recv == /\ cpc = "away"
        /\ CASE wpc \in {"closeParked", "parkedInSum"} ->
                  /\ recvd' = Append(recvd, size) /\ wpc' = IF wpc = "closeParked" THEN "closed" ELSE "idle"
                  /\ UNCHANGED <<cpc, sawClose>>
             [] wpc = "closed" -> sawClose' = TRUE /\ cpc' = "done" /\ UNCHANGED <<recvd, wpc>>
             [] OTHER -> cpc' = "parked" /\ UNCHANGED <<recvd, wpc, sawClose>>
        /\ UNCHANGED <<req, size, sums, nwrites>>
\* a consumer parked while the channel gets closed is woken with ok = false
WakeClosed == /\ cpc = "parked" /\ wpc = "closed" /\ sawClose' = TRUE /\ cpc' = "done"
              /\ UNCHANGED <<wpc, req, size, sums, nwrites, recvd>>
Next == (\E n \in 0..MaxN : Call(n)) \/ (\E k \in 0..MaxN : Under(k)) \/ Offer \/ Close \/ Recv \/ WakeClosed
Spec == Init /\ [][Next]_vars

-----------------------------------------------------------------------------
SizeIsSum == size = (IF sums = <<>> THEN 0 ELSE sums[Len(sums)])
Monotone == \A a, b \in 1..Len(recvd) : a <= b => recvd[a] <= recvd[b]
EachIsASize == \A a \in 1..Len(recvd) : recvd[a] = 0 \/ \E j \in 1..Len(sums) : sums[j] = recvd[a]
NeverParksInWrite == wpc # "parkedInSum"
CloseDeliversTotal == wpc = "closed" => (recvd # <<>> /\ recvd[Len(recvd)] = size)
AfterCloseClosed == sawClose => wpc = "closed"
=============================================================================
