-------------------------------- MODULE StrUtil --------------------------------
(***************************************************************************)
(* Beyond the listed properties: the remaining string helpers of strutil / *)
(* netutil / fsutil as character-class machines over byte tuples.          *)
(*   Camelize(s, upper), Underscore(s, upper)   (strutil)                  *)
(*   IsDigitString(s)                           (strutil)                  *)
(*   SplitHostPort(addr)                        (netutil)                  *)
(*   ExpandHomeDir(p, home)                     (fsutil; Clean from UrlPath)*)
(* Each comes with shape facts checked by TLC on every string of a bounded *)
(* alphabet (the Facts operators) and is bound to the code by judging recorded results. *)
(***************************************************************************)
EXTENDS UrlPath, Integers, FiniteSets

Lower(c) == c \in 97..122
Upper(c) == c \in 65..90
Digit(c) == c \in 48..57
Alnum(c) == Lower(c) \/ Upper(c) \/ Digit(c)
ToUp(c) == IF Lower(c) THEN c - 32 ELSE c
ToLow(c) == IF Upper(c) THEN c + 32 ELSE c

\* ---- Camelize: separators vanish and upper-case the next letter
RECURSIVE Cam(_, _, _, _)
Cam(s, k, up, buf) ==
  IF k > Len(s) THEN buf
  ELSE LET c == s[k] IN
    IF Lower(c) THEN Cam(s, k + 1, FALSE, Append(buf, IF up THEN ToUp(c) ELSE c))
    ELSE IF Upper(c) THEN Cam(s, k + 1, FALSE, Append(buf, IF up THEN c ELSE ToLow(c)))
    ELSE IF Digit(c) THEN Cam(s, k + 1, up, Append(buf, c))
    ELSE Cam(s, k + 1, (Len(buf) > 0) \/ up, buf)
Camelize(s, upper) == Cam(s, 1, upper, <<>>)

\* ---- Underscore: one byte of look-ahead for "ABc => A_Bc"
RECURSIVE Und(_, _, _, _, _)
Und(s, k, last, up, buf) ==
  IF k > Len(s) THEN buf
  ELSE LET c == s[k]
           started == Len(buf) > 0
           nextLower == k + 1 <= Len(s) /\ Lower(s[k + 1])
           put(x) == IF up THEN ToUp(x) ELSE ToLow(x)
       IN
    IF Lower(c) THEN Und(s, k + 1, "lower", up, IF started /\ last = "other" THEN buf \o <<95, put(c)>> ELSE Append(buf, put(c)))
    ELSE IF Upper(c) THEN Und(s, k + 1, "upper", up,
            IF started /\ (last \in {"lower", "other"} \/ nextLower) THEN buf \o <<95, put(c)>> ELSE Append(buf, put(c)))
    ELSE IF Digit(c) THEN Und(s, k + 1, "initial", up, IF started /\ last = "other" THEN buf \o <<95, c>> ELSE Append(buf, c))
    ELSE Und(s, k + 1, "other", up, buf)
Underscore(s, upper) == Und(s, 1, "initial", upper, <<>>)

IsDigitString(s) == Len(s) > 0 /\ \A k \in 1..Len(s) : Digit(s[k])

\* ---- SplitHostPort: split at the LAST ':', brackets around the host removed
LastColon(a) == LET I == {k \in 1..Len(a) : a[k] = 58} IN IF I = {} THEN 0 ELSE CHOOSE k \in I : \A j \in I : j <= k
SplitHostPort(a) ==
  LET i == LastColon(a) IN
  IF i = 0 THEN <<a, <<>>>>
  ELSE IF a[1] = 91 /\ i >= 2 /\ a[i - 1] = 93 THEN <<SubSeq(a, 2, i - 2), SubSeq(a, i + 1, Len(a))>>
  ELSE <<SubSeq(a, 1, i - 1), SubSeq(a, i + 1, Len(a))>>

\* ---- ExpandHomeDir: a leading "~" followed by nothing, "/" or "\" is the home directory
ExpandHomeDir(p, home) ==
  IF Len(p) = 0 \/ p[1] # 126 \/ (Len(p) > 1 /\ p[2] \notin {47, 92}) THEN Clean(p)
  ELSE IF Len(p) = 1 THEN home
  ELSE Clean(home \o <<SLASH>> \o SubSeq(p, 2, Len(p)))

\* ---- shape facts
FactsCamel(s) == \A up \in BOOLEAN : LET r == Camelize(s, up) IN
   /\ \A k \in 1..Len(r) : Alnum(r[k])
   /\ Len(r) = Cardinality({k \in 1..Len(s) : Alnum(s[k])})
   /\ (Len(r) > 0 /\ ~Digit(r[1]) => (Upper(r[1]) <=> up))
FactsUnder(s) == \A up \in BOOLEAN : LET r == Underscore(s, up) IN
   /\ \A k \in 1..Len(r) : Digit(r[k]) \/ r[k] = 95 \/ (IF up THEN Upper(r[k]) ELSE Lower(r[k]))
   /\ (Len(r) > 0 => r[1] # 95 /\ r[Len(r)] # 95)
   /\ \A k \in 1..(Len(r) - 1) : ~(r[k] = 95 /\ r[k + 1] = 95)
FactsSplit(a) == LET r == SplitHostPort(a) IN
   /\ (LastColon(a) = 0 => r = <<a, <<>>>>)
   /\ \A k \in 1..Len(r[2]) : r[2][k] # 58
=============================================================================
