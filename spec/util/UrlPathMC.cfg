SPECIFICATION Spec
CONSTANTS
  MaxLen = 6
  Alphabet = {47, 46, 97, 92}
  Bases <- BasesDef
INVARIANT Contained
CHECK_DEADLOCK FALSE
