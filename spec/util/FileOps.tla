-------------------------------- MODULE FileOps --------------------------------
(***************************************************************************)
(* C18 - osutil.CopyFile / MoveFile never lose file content.               *)
(*                                                                         *)
(* File-system state: names -> entry (none / file(inode) / link(name) /    *)
(* dir / unusable because the parent is missing or not a directory),       *)
(* inodes -> content token, every name lives on a device (rename across    *)
(* devices fails with EXDEV).  The operation runs as the code does, one    *)
(* system call per step, with the natural failure branches.                *)
(* A scenario = operation + what the source is + what the destination is.  *)
(* Statement:                                                              *)
(*   copy ok  => dst holds the source's original bytes, and so does src    *)
(*   copy err => src (if it was a file) still holds its original bytes     *)
(*   move ok  => dst holds the source's original bytes                     *)
(*   move err => src still exists with its original bytes                  *)
(*   and src is removed only after dst is complete.                        *)
(***************************************************************************)
EXTENDS Naturals, Sequences, FiniteSets, TLC, Json

CONSTANTS SameFileCheck       \* TRUE = repaired code; FALSE = pinned design (truncate before looking)

Ops      == {"copy", "move"}
SrcKinds == {"file", "missing", "dir", "linkToFile"}     \* linkToFile: the source path is a symbolic link to the file R
DstKinds == {"missing", "file", "same", "symlinkToSrc", "hardlinkToSrc", "dir", "parentMissing", "parentIsFile",
             "otherFsMissing", "otherFsFile", "otherFsSymlinkToSrc", "danglingSymlink", "symlinkToOther",
             "srcTarget", "symlinkToSrcTarget",       \* with src = linkToFile: dst is R itself / another link to R
             "full"}                                  \* a destination that can be opened but whose writes fail (no space left)

None == [t |-> "none"]
File(i) == [t |-> "file", i |-> i]
Link(n) == [t |-> "link", to |-> n]
Dir == [t |-> "dir"]
Unusable == [t |-> "unusable"]
Names == {"S", "D", "T", "R"}      \* T: the target of a dangling / foreign symlink; R: the file a source link points to
OrigSrc == "c_src"
OrigDst == "c_dst"

VARIABLES scen, ent, ino, pc, result, srcOpen, removedBeforeComplete
vars == <<scen, ent, ino, pc, result, srcOpen, removedBeforeComplete>>

DstName(s) == IF s.dst = "same" THEN "S" ELSE IF s.dst = "srcTarget" THEN "R" ELSE "D"
DevOf(s, n) == IF n \in {"D", "T"} /\ s.dst \in {"otherFsMissing", "otherFsFile", "otherFsSymlinkToSrc", "full"} THEN 2 ELSE 1

InitEnt(s) ==
  [n \in Names |->
     IF n = "S" THEN (CASE s.src = "file" -> File(1) [] s.src = "dir" -> Dir [] s.src = "linkToFile" -> Link("R") [] OTHER -> None)
     ELSE IF n = "R" THEN (IF s.src = "linkToFile" THEN File(1) ELSE None)
     ELSE IF n = "D" THEN
        (CASE s.dst \in {"missing", "otherFsMissing", "same"} -> None
           [] s.dst \in {"file", "otherFsFile", "full"} -> File(2)
           [] s.dst \in {"symlinkToSrc", "otherFsSymlinkToSrc"} -> Link("S")
           [] s.dst = "hardlinkToSrc" -> (IF s.src = "file" THEN File(1) ELSE None)
           [] s.dst = "dir" -> Dir
           [] s.dst \in {"parentMissing", "parentIsFile"} -> Unusable
           [] s.dst = "danglingSymlink" -> Link("T")
           [] s.dst = "symlinkToOther" -> Link("T")
           [] s.dst = "symlinkToSrcTarget" -> Link("R")
           [] OTHER -> None)
     ELSE (IF s.dst = "symlinkToOther" THEN File(2) ELSE None)]
InitIno(s) == [i \in 1..3 |-> IF i = 1 /\ s.src \in {"file", "linkToFile"} THEN OrigSrc
                              ELSE IF i = 2 /\ s.dst \in {"file", "otherFsFile", "symlinkToOther", "full"} THEN OrigDst ELSE "free"]

Scenarios == {s \in [op : Ops, src : SrcKinds, dst : DstKinds] :
                 /\ ~(s.dst = "hardlinkToSrc" /\ s.src # "file")
                 /\ ~(s.op = "move" /\ s.src = "dir")       \* moving directories is outside the property
                 /\ (s.dst \in {"srcTarget", "symlinkToSrcTarget"} <=> s.src = "linkToFile")
                 /\ ~(s.op = "move" /\ s.src = "linkToFile")   \* aliasing is stated for CopyFile only
                 /\ (s.dst = "full" => s.op = "copy" /\ s.src = "file")}

Init == /\ scen \in Scenarios
        /\ ent = InitEnt(scen) /\ ino = InitIno(scen)
        /\ pc = IF scen.op = "copy" THEN "open" ELSE "rename"
        /\ result = "running" /\ srcOpen = 0 /\ removedBeforeComplete = FALSE

\* follow symbolic links (at most two hops exist in this universe)
Resolve(n) == IF ent[n].t = "link" THEN (IF ent[ent[n].to].t = "link" THEN ent[ent[n].to].to ELSE ent[n].to) ELSE n
Target(n) == ent[Resolve(n)]
FreeIno == CHOOSE i \in 1..3 : ino[i] = "free"
Fail(why) == pc' = "done" /\ result' = "err:" \o why
Dst == DstName(scen)

\* ---- CopyFile(S, Dst)
Open ==   \* os.Open(src)
  /\ pc = "open"
  /\ IF Target("S").t \in {"none", "unusable"} THEN Fail("open src") /\ UNCHANGED <<ent, ino, srcOpen>>
     ELSE /\ srcOpen' = (IF Target("S").t = "file" THEN Target("S").i ELSE 99)      \* 99: a directory handle
          /\ pc' = "stat" /\ UNCHANGED <<ent, ino, result>>
  /\ UNCHANGED <<scen, removedBeforeComplete>>
Stat ==   \* os.Stat(dst) + os.SameFile: refuse when the destination is the source itself
  /\ pc = "stat"
  /\ IF SameFileCheck /\ Target(Dst).t = "file" /\ Target(Dst).i = srcOpen
     THEN Fail("same file") ELSE pc' = "create" /\ UNCHANGED result
  /\ UNCHANGED <<scen, ent, ino, srcOpen, removedBeforeComplete>>
Create == \* os.Create(dst): follows symlinks, truncates an existing file, creates a missing one
  /\ pc = "create"
  /\ LET r == Resolve(Dst) IN
     CASE ent[Dst].t = "unusable" \/ ent[r].t = "unusable" -> Fail("create dst") /\ UNCHANGED <<ent, ino>>
       [] ent[r].t = "dir" -> Fail("dst is a directory") /\ UNCHANGED <<ent, ino>>
       [] ent[r].t = "file" -> /\ ino' = [ino EXCEPT ![ent[r].i] = "empty"]      \* (nothing to truncate on a full device either)
                               /\ pc' = "copy" /\ UNCHANGED <<ent, result>>
       [] OTHER -> /\ ent' = [ent EXCEPT ![r] = File(FreeIno)]
                   /\ ino' = [ino EXCEPT ![FreeIno] = "empty"]
                   /\ pc' = "copy" /\ UNCHANGED result
  /\ UNCHANGED <<scen, srcOpen, removedBeforeComplete>>
Copy ==   \* io.Copy(dest, src): reads what the source inode holds NOW
  /\ pc = "copy"
  /\ IF srcOpen = 99 THEN Fail("read src: is a directory") /\ UNCHANGED ino
     ELSE IF scen.dst = "full" THEN Fail("write dst: no space left on device") /\ UNCHANGED ino    \* the copy breaks off part-way
     ELSE /\ ino' = [ino EXCEPT ![Target(Dst).i] = ino[srcOpen]]
          /\ (IF scen.op = "copy" THEN pc' = "done" /\ result' = "ok" ELSE pc' = "remove" /\ UNCHANGED result)
  /\ UNCHANGED <<scen, ent, srcOpen, removedBeforeComplete>>

\* ---- MoveFile(S, Dst)
Rename == \* os.Rename(src, dst)
  /\ pc = "rename"
  /\ LET sameInode == ent["S"].t = "file" /\ ent[Dst].t = "file" /\ ent["S"].i = ent[Dst].i IN
     CASE ent["S"].t = "none" \/ ent[Dst].t = "unusable" -> pc' = "open" /\ UNCHANGED <<ent, result>>       \* falls back
       [] Dst = "S" \/ sameInode -> pc' = "done" /\ result' = "ok" /\ UNCHANGED ent                        \* no-op success
       [] DevOf(scen, Dst) # DevOf(scen, "S") -> pc' = "open" /\ UNCHANGED <<ent, result>>                  \* EXDEV
       [] ent[Dst].t = "dir" /\ ent["S"].t # "dir" -> pc' = "open" /\ UNCHANGED <<ent, result>>             \* EISDIR
       [] ent["S"].t = "dir" /\ ent[Dst].t \in {"file", "link"} -> pc' = "open" /\ UNCHANGED <<ent, result>> \* ENOTDIR
       [] OTHER -> /\ ent' = [ent EXCEPT ![Dst] = ent["S"], !["S"] = None]
                   /\ pc' = "done" /\ result' = "ok"
  /\ UNCHANGED <<scen, ino, srcOpen, removedBeforeComplete>>
Remove == \* os.Remove(src) after a successful copy
  /\ pc = "remove"
  /\ removedBeforeComplete' = ~(Target(Dst).t = "file" /\ ino[Target(Dst).i] = OrigSrc)
  /\ ent' = [ent EXCEPT !["S"] = None]
  /\ pc' = "done" /\ result' = "ok"
  /\ UNCHANGED <<scen, ino, srcOpen>>

Next == Open \/ Stat \/ Create \/ Copy \/ Rename \/ Remove
Spec == Init /\ [][Next]_vars

-----------------------------------------------------------------------------
SrcWasFile == scen.src \in {"file", "linkToFile"}
SrcIntact == Target("S").t = "file" /\ ino[Target("S").i] = OrigSrc
DstHasOriginal == Target(Dst).t = "file" /\ ino[Target(Dst).i] = OrigSrc
ContentPreserved ==
  pc = "done" =>
    /\ (scen.op = "copy" /\ result = "ok") => (DstHasOriginal /\ SrcIntact)
    /\ (scen.op = "copy" /\ result # "ok" /\ SrcWasFile) => SrcIntact
    /\ (scen.op = "move" /\ result = "ok" /\ SrcWasFile) => DstHasOriginal
    /\ (scen.op = "move" /\ result # "ok" /\ SrcWasFile) => SrcIntact
    /\ ~removedBeforeComplete
\* the original bytes never vanish from the file system while the operation runs on a real file
NeverLost == SrcWasFile => \E i \in 1..3 : ino[i] = OrigSrc

\* generation: every finished scenario with the predicted outcome and final tree
Export == pc = "done" => PrintT(ToJson([scen |-> scen, ok |-> result = "ok", result |-> result,
             final |-> [n \in Names |-> IF ent[n].t = "file" THEN [t |-> "file", i |-> ent[n].i, c |-> ino[ent[n].i]]
                                        ELSE IF ent[n].t = "link" THEN [t |-> "link", i |-> 0, c |-> ent[n].to]
                                        ELSE [t |-> ent[n].t, i |-> 0, c |-> ""]]]))
=============================================================================
