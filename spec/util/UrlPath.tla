------------------------------- MODULE UrlPath -------------------------------
(***************************************************************************)
(* C17 - fsutil.ResolveUrlPath never leaves the base directory.            *)
(*                                                                         *)
(* Paths are sequences of byte values.  Only '/' (47) and '.' (46) have a  *)
(* meaning on a POSIX file system; every other byte (incl. '\', 92) is an  *)
(* ordinary name character.                                                *)
(*                                                                         *)
(* Statement layer:  Under(result, base)  and  DotFree(p) => result =      *)
(* Join(base, p), both defined on cleaned segment lists.                   *)
(* Implementation-shaped layer: Resolve(base, p) as the code computes it   *)
(* (force a leading slash, lexically clean the URL path, join).            *)
(***************************************************************************)
EXTENDS Naturals, Sequences

SLASH == 47
DOT   == 46

-----------------------------------------------------------------------------
(* Lexical path cleaning as a segment-stack machine (Plan 9 "cleanname",   *)
(* the rules documented for path.Clean / filepath.Clean on POSIX).         *)

\* Split a byte string at '/' into its (possibly empty) segments.
RECURSIVE SplitAt(_, _, _)
SplitAt(s, i, cur) ==
    IF i > Len(s) THEN <<cur>>
    ELSE IF s[i] = SLASH THEN <<cur>> \o SplitAt(s, i + 1, <<>>)
    ELSE SplitAt(s, i + 1, Append(cur, s[i]))
Segments(s) == SplitAt(s, 1, <<>>)

DotSeg    == <<DOT>>
DotDotSeg == <<DOT, DOT>>
Rooted(s) == Len(s) > 0 /\ s[1] = SLASH

\* Process segments left to right with a stack; "." and "" vanish, ".." pops a
\* real name, is dropped at the root and is kept at the front of a relative path.
RECURSIVE CleanStack(_, _, _, _)
CleanStack(segs, i, stack, rooted) ==
    IF i > Len(segs) THEN stack
    ELSE LET g == segs[i] IN
         IF g = <<>> \/ g = DotSeg THEN CleanStack(segs, i + 1, stack, rooted)
         ELSE IF g = DotDotSeg THEN
              IF Len(stack) > 0 /\ stack[Len(stack)] # DotDotSeg
                 THEN CleanStack(segs, i + 1, SubSeq(stack, 1, Len(stack) - 1), rooted)
              ELSE IF rooted THEN CleanStack(segs, i + 1, stack, rooted)
              ELSE CleanStack(segs, i + 1, Append(stack, g), rooted)
         ELSE CleanStack(segs, i + 1, Append(stack, g), rooted)

CleanSegs(s) == CleanStack(Segments(s), 1, <<>>, Rooted(s))

RECURSIVE JoinSegs(_, _)
JoinSegs(segs, i) ==
    IF i > Len(segs) THEN <<>>
    ELSE IF i = Len(segs) THEN segs[i]
    ELSE segs[i] \o <<SLASH>> \o JoinSegs(segs, i + 1)

Clean(s) ==
    LET cs == CleanSegs(s) IN
    IF Rooted(s) THEN <<SLASH>> \o JoinSegs(cs, 1)
    ELSE IF cs = <<>> THEN <<DOT>>
    ELSE JoinSegs(cs, 1)

\* filepath.Join of a non-empty base with one more element.
Join(base, p) == IF p = <<>> THEN Clean(base) ELSE Clean(base \o <<SLASH>> \o p)

-----------------------------------------------------------------------------
(* Implementation-shaped: what ResolveUrlPath does.                        *)
Resolve(base, p) ==
    LET q == IF p = <<>> \/ p[1] # SLASH THEN <<SLASH>> \o p ELSE p
    IN  Join(base, Clean(q))

-----------------------------------------------------------------------------
(* Statement layer.                                                        *)

IsPrefix(a, b) == Len(a) <= Len(b) /\ SubSeq(b, 1, Len(a)) = a

\* r is the base itself or lies beneath it: after cleaning both, same rootedness,
\* base's segments are a prefix of r's, and the remainder never steps upwards.
Under(r, base) ==
    LET R == CleanSegs(r)
        B == CleanSegs(base)
    IN  /\ Rooted(r) = Rooted(base)
        /\ IsPrefix(B, R)
        /\ \A k \in (Len(B) + 1)..Len(R) : R[k] # DotDotSeg

\* no segment of p is "." or ".."
DotFree(p) == \A k \in 1..Len(Segments(p)) : Segments(p)[k] \notin {DotSeg, DotDotSeg}

Holds(base, p, r) ==
    /\ Under(r, base)
    /\ DotFree(p) => r = Join(base, p)

=============================================================================
