----------------------------- MODULE ShellQuoteMC -----------------------------
(* Exhaustive check of the quoting scheme: for every string s of length <= MaxLen over
   the shell's special characters plus a letter, the shell lexer model reads Escape(s)
   back as exactly the word s.  The state graph is the tree of all strings. *)
EXTENDS ShellQuote
CONSTANTS MaxLen
\* ' " \ $ ` space newline ; & | * ~ ! # a   (+ '/' so that "~/" prefixes arise)
Alphabet == {SQ, DQ, BS, DOLLAR, BQ, SP, NL, SEMI, AMP, PIPE, STAR, TILDE, BANG, HASH, 97}
VARIABLE s
Init == s = <<>>
\* "/" is only tried right after a leading "~" (keeps the alphabet at the 15 listed classes)
Next == /\ Len(s) < MaxLen
        /\ \E c \in Alphabet \cup (IF s = <<TILDE>> THEN {SLASH} ELSE {}) : s' = Append(s, c)
Spec == Init /\ [][Next]_s
OneWord == PlainOK(s, Escape(s)) /\ TildeOK(s, EscapeExceptTilde(s))
MutFirstOnly == PlainOK(s, MutantFirstOnly(s))
MutBackslash == PlainOK(s, MutantBackslash(s))
MutTildeQuoted == TildeOK(s, MutantTildeQuoted(s))
=============================================================================
