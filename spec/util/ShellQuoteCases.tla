---------------------------- MODULE ShellQuoteCases ----------------------------
(* Judge of recorded real-code results: {s: input bytes, e: ShellEscape(s) bytes,
   t: ShellEscapeExceptTilde(s) bytes}.  A rejected case is printed. *)
EXTENDS ShellQuote, Json, TLC
Cases == ndJsonDeserialize("cases.ndjson")
VARIABLE i
Init == i \in 1..Len(Cases)
Next == UNCHANGED i
JudgeOK == LET c == Cases[i] IN
    /\ (PlainOK(c.s, c.e) \/ PrintT(<<"BAD", i>>))
    /\ ((IF ~StartsTildeSlash(c.s) /\ c.t = c.e THEN TRUE ELSE TildeOK(c.s, c.t)) \/ PrintT(<<"BADT", i>>))
    /\ ((c.e = Escape(c.s) /\ c.t = EscapeExceptTilde(c.s)) \/ PrintT(<<"DRIFT", i>>))
=============================================================================
