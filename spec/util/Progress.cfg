SPECIFICATION Spec
CONSTANTS
  MaxWrites = 4
  MaxN = 2
  Mutant = "none"
INVARIANTS SizeIsSum Monotone EachIsASize NeverParksInWrite CloseDeliversTotal AfterCloseClosed
CHECK_DEADLOCK FALSE
