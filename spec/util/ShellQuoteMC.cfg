SPECIFICATION Spec
CONSTANTS
  MaxLen = 4
INVARIANT OneWord
CHECK_DEADLOCK FALSE
