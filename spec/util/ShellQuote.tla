------------------------------ MODULE ShellQuote ------------------------------
(***************************************************************************)
(* C16 - strutil.ShellEscape / ShellEscapeExceptTilde.                     *)
(*                                                                         *)
(* Statement layer: a word-splitting model of the POSIX shell lexer        *)
(* (XCU 2.2 quoting, 2.3 token recognition, 2.6.1 tilde expansion).        *)
(* Lex(text) returns the words the shell would pass on plus a set of flags *)
(* for everything that is more than literal text: expansion, substitution, *)
(* globbing, operators / second commands, comments, unterminated quotes.   *)
(* Bytes are integers; HOME (-1) stands for the expanded home directory.   *)
(*                                                                         *)
(* Implementation-shaped layer: Escape / EscapeExceptTilde as the code     *)
(* builds them (quote, replace every ' by '"'"', quote).                   *)
(***************************************************************************)
EXTENDS Integers, Sequences, FiniteSets

SQ == 39     DQ == 34     BS == 92     DOLLAR == 36   BQ == 96
SP == 32     TAB == 9     NL == 10     SEMI == 59     AMP == 38
PIPE == 124  STAR == 42   TILDE == 126 BANG == 33     HASH == 35
SLASH == 47  LT == 60     GT == 62     LPAR == 40     RPAR == 41
QMARK == 63  LBRACK == 91
HOME == -1

\* bytes that are literal when they appear unquoted anywhere in a word
Safe(c) == \/ c \in 48..57 \/ c \in 65..90 \/ c \in 97..122
           \/ c \in {64, 37, 43, 61, 58, 44, 46, 47, 45, 95}      \* @ % + = : , . / - _
           \/ c >= 128                                              \* non-ASCII bytes (C locale)

Blank(c) == c \in {SP, TAB}
Operator(c) == c \in {SEMI, AMP, PIPE, LT, GT, LPAR, RPAR}

EndWord(words, cur, inword) == IF inword THEN Append(words, cur) ELSE words

RECURSIVE LexFrom(_, _, _, _, _, _, _)
LexFrom(t, i, mode, cur, inword, words, flags) ==
  IF i > Len(t) THEN
     [words |-> EndWord(words, cur, inword),
      flags |-> IF mode # "u" THEN flags \cup {"unterminated"} ELSE flags]
  ELSE LET c == t[i]
           more == i + 1 <= Len(t)
       IN
    CASE mode = "s" ->                      \* inside '...': everything is literal up to the next '
         IF c = SQ THEN LexFrom(t, i + 1, "u", cur, TRUE, words, flags)
         ELSE LexFrom(t, i + 1, "s", Append(cur, c), TRUE, words, flags)
      [] mode = "d" ->                      \* inside "...": $ ` \ keep their meaning
         IF c = DQ THEN LexFrom(t, i + 1, "u", cur, TRUE, words, flags)
         ELSE IF c = BS /\ more /\ t[i + 1] \in {DOLLAR, BQ, DQ, BS}
              THEN LexFrom(t, i + 2, "d", Append(cur, t[i + 1]), TRUE, words, flags)
         ELSE IF c = BS /\ more /\ t[i + 1] = NL
              THEN LexFrom(t, i + 2, "d", cur, TRUE, words, flags)
         ELSE IF c \in {DOLLAR, BQ}
              THEN LexFrom(t, i + 1, "d", Append(cur, c), TRUE, words, flags \cup {"expansion"})
         ELSE LexFrom(t, i + 1, "d", Append(cur, c), TRUE, words, flags)
      [] OTHER ->                           \* unquoted
         IF c = SQ THEN LexFrom(t, i + 1, "s", cur, TRUE, words, flags)
         ELSE IF c = DQ THEN LexFrom(t, i + 1, "d", cur, TRUE, words, flags)
         ELSE IF c = BS THEN
              IF ~more THEN LexFrom(t, i + 1, "u", cur, inword, words, flags \cup {"trailing-backslash"})
              ELSE IF t[i + 1] = NL THEN LexFrom(t, i + 2, "u", cur, inword, words, flags)
              ELSE LexFrom(t, i + 2, "u", Append(cur, t[i + 1]), TRUE, words, flags)
         ELSE IF Blank(c) THEN LexFrom(t, i + 1, "u", <<>>, FALSE, EndWord(words, cur, inword), flags)
         ELSE IF c = NL THEN
              LexFrom(t, i + 1, "u", <<>>, FALSE, EndWord(words, cur, inword), flags \cup {"newline"})
         ELSE IF Operator(c) THEN
              LexFrom(t, i + 1, "u", <<>>, FALSE, EndWord(words, cur, inword), flags \cup {"operator"})
         ELSE IF c \in {DOLLAR, BQ} THEN
              LexFrom(t, i + 1, "u", Append(cur, c), TRUE, words, flags \cup {"expansion"})
         ELSE IF c \in {STAR, QMARK, LBRACK} THEN
              LexFrom(t, i + 1, "u", Append(cur, c), TRUE, words, flags \cup {"glob"})
         ELSE IF c = TILDE /\ ~inword THEN
              \* tilde-prefix: "~" directly followed by an unquoted "/" or the end of the word
              IF ~more \/ t[i + 1] = SLASH \/ Blank(t[i + 1]) \/ t[i + 1] = NL
              THEN LexFrom(t, i + 1, "u", <<HOME>>, TRUE, words, flags \cup {"tilde"})
              ELSE LexFrom(t, i + 1, "u", <<c>>, TRUE, words, flags \cup {"tilde-other"})
         ELSE IF c = HASH /\ ~inword THEN
              [words |-> words, flags |-> flags \cup {"comment"}]
         ELSE IF Safe(c) \/ c = TILDE \/ c = HASH THEN
              LexFrom(t, i + 1, "u", Append(cur, c), TRUE, words, flags)
         ELSE LexFrom(t, i + 1, "u", Append(cur, c), TRUE, words, flags \cup {"special"})

Lex(t) == LexFrom(t, 1, "u", <<>>, FALSE, <<>>, {})

-----------------------------------------------------------------------------
(* Statement.                                                              *)
StartsTildeSlash(s) == Len(s) >= 2 /\ s[1] = TILDE /\ s[2] = SLASH

\* text is read as exactly one word whose value is s, nothing else happens
PlainOK(s, text) == Lex(text) = [words |-> <<s>>, flags |-> {}]

\* ExceptTilde: identical, except that a leading ~/ is left for the shell to expand
TildeOK(s, text) ==
    IF StartsTildeSlash(s)
    THEN Lex(text) = [words |-> << <<HOME>> \o SubSeq(s, 2, Len(s)) >>, flags |-> {"tilde"}]
    ELSE PlainOK(s, text)

-----------------------------------------------------------------------------
(* Implementation-shaped layer.                                            *)
RECURSIVE ReplaceQuotes(_, _)
ReplaceQuotes(s, i) ==
    IF i > Len(s) THEN <<>>
    ELSE (IF s[i] = SQ THEN <<SQ, DQ, SQ, DQ, SQ>> ELSE <<s[i]>>) \o ReplaceQuotes(s, i + 1)

Escape(s) == <<SQ>> \o ReplaceQuotes(s, 1) \o <<SQ>>
EscapeExceptTilde(s) ==
    IF StartsTildeSlash(s) THEN <<TILDE, SLASH>> \o Escape(SubSeq(s, 3, Len(s))) ELSE Escape(s)

\* mutants used for non-vacuity (each mirrors a realistic wrong edit of the code)
RECURSIVE ReplaceFirstOnly(_, _, _)
ReplaceFirstOnly(s, i, done) ==
    IF i > Len(s) THEN <<>>
    ELSE IF s[i] = SQ /\ ~done THEN <<SQ, DQ, SQ, DQ, SQ>> \o ReplaceFirstOnly(s, i + 1, TRUE)
    ELSE <<s[i]>> \o ReplaceFirstOnly(s, i + 1, done)
MutantFirstOnly(s) == <<SQ>> \o ReplaceFirstOnly(s, 1, FALSE) \o <<SQ>>
RECURSIVE ReplaceBackslash(_, _)
ReplaceBackslash(s, i) ==
    IF i > Len(s) THEN <<>>
    ELSE (IF s[i] = SQ THEN <<BS, SQ>> ELSE <<s[i]>>) \o ReplaceBackslash(s, i + 1)
MutantBackslash(s) == <<SQ>> \o ReplaceBackslash(s, 1) \o <<SQ>>        \* 'it\'s' - wrong inside '...'
MutantTildeQuoted(s) == Escape(s)                                        \* quotes the leading ~/ too: no home expansion
=============================================================================
