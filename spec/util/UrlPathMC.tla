------------------------------ MODULE UrlPathMC ------------------------------
(* Exhaustive model check of the design: for every URL path p of length <= MaxLen
   over Alphabet and every base in Bases, the implementation-shaped Resolve
   satisfies the statement.  The state graph is the tree of all strings. *)
EXTENDS UrlPath
CONSTANTS MaxLen, Alphabet, Bases
VARIABLE p
\* "/d" "/" "d" "." "./d/" "/a/../b" "../x" "/d/"
BasesDef == { <<47,100>>, <<47>>, <<100>>, <<46>>, <<46,47,100,47>>, <<47,97,47,46,46,47,98>>,
              <<46,46,47,120>>, <<47,100,47>> }
Init == p = <<>>
Next == Len(p) < MaxLen /\ \E c \in Alphabet : p' = Append(p, c)
Spec == Init /\ [][Next]_p
Contained == \A b \in Bases : Holds(b, p, Resolve(b, p))
\* non-vacuity mutants: joining the raw path, or cleaning only after the join
ResolveRawJoin(base, q)  == Join(base, q)
MutantRawJoinContained == \A b \in Bases : Under(ResolveRawJoin(b, p), b)
=============================================================================
