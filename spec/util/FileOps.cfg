SPECIFICATION Spec
CONSTANTS
  SameFileCheck = TRUE
INVARIANT ContentPreserved
INVARIANT NeverLost
CHECK_DEADLOCK FALSE
