------------------------------- MODULE StrUtilMC -------------------------------
EXTENDS StrUtil, FiniteSets
CONSTANT MaxLen
Alphabet == {97, 98, 65, 66, 48, 95, 45, 58, 91, 93, 126, 47, 46}   \* a b A B 0 _ - : [ ] ~ / .
VARIABLE s
Init == s = <<>>
Next == Len(s) < MaxLen /\ \E c \in Alphabet : s' = Append(s, c)
Spec == Init /\ [][Next]_s
Facts == FactsCamel(s) /\ FactsUnder(s) /\ FactsSplit(s)
=============================================================================
