------------------------------ MODULE StrUtilCases ------------------------------
(* Judge: recorded results of the real helpers vs the machines of StrUtil.tla.
   case = [f, s (input bytes), up (BOOLEAN), home (bytes), r (result bytes), r2 (second result)] *)
EXTENDS StrUtil, Json, TLC
Cases == ndJsonDeserialize("cases.ndjson")
VARIABLE i
Init == i \in 1..Len(Cases)
Next == UNCHANGED i
Agrees(c) ==
  CASE c.f = "camelize"   -> c.r = Camelize(c.s, c.up)
    [] c.f = "underscore" -> c.r = Underscore(c.s, c.up)
    [] c.f = "isdigit"    -> (c.r = <<49>>) = IsDigitString(c.s)
    [] c.f = "splithostport" -> <<c.r, c.r2>> = SplitHostPort(c.s)
    [] c.f = "expandhome" -> c.r = ExpandHomeDir(c.s, c.home)
    [] OTHER -> FALSE
JudgeOK == Agrees(Cases[i]) \/ PrintT(<<"BAD", i>>)
=============================================================================
