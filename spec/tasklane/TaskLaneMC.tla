------------------------------ MODULE TaskLaneMC ------------------------------
EXTENDS TaskLane
\* 3 tasks: tasks 1,2 pushed by producer "a" to lane 1 (everything to one lane), task 3 by "b" to lane 2
Lane3 == (1 :> 1) @@ (2 :> 1) @@ (3 :> 2)
Prod3 == (1 :> "a") @@ (2 :> "a") @@ (3 :> "b")
NoPanics3 == [t \in 1..3 |-> "none"]
SomePanics3 == (1 :> "str:boom") @@ (2 :> "none") @@ (3 :> "int:7")
\* 2 tasks, one producer, both to lane 1
Lane2 == [t \in 1..2 |-> 1]
Prod2 == [t \in 1..2 |-> "a"]
NoPanics2 == [t \in 1..2 |-> "none"]
BothPanic2 == (1 :> "str:boom") @@ (2 :> "err:io")
\* 4 tasks, 3 producers, 3 lanes: a pushes 1,2 to lane 1; b pushes 3 to lane 2; c pushes 4 to lane 3; task 2 panics
Lane4 == (1 :> 1) @@ (2 :> 1) @@ (3 :> 2) @@ (4 :> 3)
Prod4 == (1 :> "a") @@ (2 :> "a") @@ (3 :> "b") @@ (4 :> "c")
Panics4 == (1 :> "none") @@ (2 :> "str:boom") @@ (3 :> "none") @@ (4 :> "err:io")
=============================================================================
