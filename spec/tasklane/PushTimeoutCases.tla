--------------------------- MODULE PushTimeoutCases ---------------------------
(***************************************************************************)
(* Judge of PushTask durations recorded on the real TaskLane               *)
(* (harness/cmd/lanetime), by the statement layer of PushTimeout.tla:      *)
(*   full    the lane was full during the whole call: the result is        *)
(*           ErrTimeout, not before the timeout configured at its start    *)
(*           (NotEarly), and the call does return                          *)
(*   during  as full, with SetTimeout(newms) 20 ms into the call: the call *)
(*           keeps the timer it was armed with (PerCall) - not earlier     *)
(*           than ms, and not as late as a longer newms                    *)
(*   room    the lane had room: nil (NilOnlyWithRoom's converse for an     *)
(*           800 ms timer: the send is ready at once, the timer is not)    *)
(* Slack: a call may return late (scheduling), 1.5 s is far above that and *)
(* far below the 2.5 s of the lengthened timeout.                          *)
(***************************************************************************)
EXTENDS Naturals, Sequences, TLC, Json
Cases == ndJsonDeserialize("cases.ndjson")
VARIABLE i
Init == i \in 1..Len(Cases)
Next == UNCHANGED i
Slack == 1500000
OK(c) ==
  CASE c.kind = "room" -> c.res = "nil"
    [] c.kind \in {"full", "during"} -> c.res = "timeout" /\ c.us >= c.ms * 1000 /\ c.us <= c.ms * 1000 + Slack
    [] OTHER -> FALSE
JudgeOK == OK(Cases[i]) \/ PrintT(<<"BAD", i>>)
=============================================================================
