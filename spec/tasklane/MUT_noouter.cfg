SPECIFICATION Spec
CONSTANTS
  N = 2
  Q = 1
  Tasks = {1, 2}
  Lane <- Lane2
  Prod <- Prod2
  Pinned = {}
  Panics <- NoPanics2
  CanCancel = TRUE
  Sharing = TRUE
  OuterCheck = FALSE
  WithStatus = FALSE
INVARIANTS AtMostOnce NoRejectedRun StartedOnlyIfPushed PostCancelReject WaitOnlyWhenQuiet AtMostNRunning NoIdleWhileWaiting CntBounds TypeOK

CHECK_DEADLOCK FALSE
