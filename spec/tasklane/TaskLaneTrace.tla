----------------------------- MODULE TaskLaneTrace -----------------------------
(***************************************************************************)
(* Implementation-level trace validation for tasklane: is a trace recorded *)
(* from the real code (hook events + API events, global sequence order) a  *)
(* behaviour of the protocol model TaskLane.tla?                           *)
(*                                                                         *)
(* Events are emitted AFTER the step they name, so the model may run ahead *)
(* of the log: every process (queue goroutine, worker, producer, status    *)
(* reader, waiter) may have performed at most ONE step whose event has not *)
(* been consumed yet (`owed`); steps without an event (parking, the        *)
(* non-blocking checks that fall through) are free.  TraceNext is          *)
(*   Step    : any action of TaskLane!Next whose owed events find their    *)
(*             process's slot empty, or                                    *)
(*   Consume : the next trace line either IS an action (push.begin,        *)
(*             status.begin, cancel.begin, wait.begin) or acknowledges the *)
(*             owed event of its process, field by field.                  *)
(* The trace is accepted iff a state with l = Len(Trace) + 1 is reachable  *)
(* (checked as the violation of the invariant NotAccepted); every          *)
(* invariant of TaskLane.tla is evaluated in all visited states.           *)
(***************************************************************************)
EXTENDS TaskLane, Json

Trace == ndJsonDeserialize("trace.ndjson")
CONSTANT Deadline            \* the context may expire by itself (no cancel events)

VARIABLES l, owed, cancelOpen, waitOpen
tvars == <<vars, l, owed, cancelOpen, waitOpen>>

None == [e |-> "none", p |-> 0, t |-> 0, x |-> ""]
Ev(e, p, t, x) == [e |-> e, p |-> p, t |-> t, x |-> x]
QP(i) == <<"q", i>>   WP(j) == <<"w", j>>   Pr(p) == <<"p", p>>
Procs == {QP(i) : i \in Lanes} \cup {WP(j) : j \in Lanes} \cup {Pr(p) : p \in Prods} \cup {<<"s", 0>>, <<"wait", 0>>}

TInit == Init /\ TLCSet(1, 0) /\ l = 1 /\ owed = [g \in Procs |-> None] /\ cancelOpen = FALSE /\ waitOpen = FALSE

\* the event a process owes after a step, from its pc before / after
QOwes(i) ==
  LET a == qpc[i]  b == qpc'[i] IN
  IF a = b THEN None
  ELSE CASE b = "inc" -> Ev("q.took", i, qtask'[i], "")
         [] a \in {"take", "takeParked"} /\ b = "exit" -> Ev("q.exit.take", i, 0, "")
         [] a = "inc" -> Ev("q.inc", i, qtask[i], "")
         [] a = "chk" /\ b = "exit" -> Ev("q.exit.chk", i, qtask[i], "")
         [] a = "tryOwn" /\ b = "dec" -> Ev("q.sent.fast", i, qtask[i], "")
         [] a = "tryOwn" /\ b = "offer" -> Ev("q.offer", i, qtask[i], "")
         [] a \in {"offer", "offerParked"} /\ b = "dec" -> Ev("q.sent", i, qtask[i], "")
         [] a \in {"offer", "offerParked"} /\ b = "exit" -> Ev("q.exit.offer", i, qtask[i], "")
         [] a = "dec" -> Ev("q.dec", i, qtask[i], "")
         [] OTHER -> None
WOwes(j) ==
  LET a == wpc[j]  b == wpc'[j] IN
  IF a = b THEN None
  ELSE CASE a = "chk" /\ b = "exit" -> Ev("w.exit.chk", j, 0, "")
         [] a = "tryOwn" /\ b = "start" -> Ev("w.got.fast", j, wtask'[j], "")
         [] a = "tryOwn" /\ b = "listen" -> Ev("w.listen", j, 0, "")
         [] a \in {"listen", "listenParked"} /\ b = "start" -> Ev("w.got", j, wtask'[j], "")
         [] a \in {"listen", "listenParked"} /\ b = "exit" -> Ev("w.exit.listen", j, 0, "")
         [] a = "start" -> Ev("task.start", 0, wtask[j], "")
         [] a = "running" /\ b = "chk" -> Ev("task.end", 0, wtask[j], "")
         [] a = "running" /\ b = "recover" -> Ev("task.panic", 0, wtask[j], Panics[wtask[j]])
         [] a = "recover" -> Ev("w.recovered", j, wtask[j], "")
         [] OTHER -> None
POwes(p) == IF ppc[p] # "idle" /\ ppc'[p] = "idle"
            THEN LET R == {r \in pres' \ pres : r[1] = pcur[p]} IN
                 Ev("push.end", p, pcur[p], (CHOOSE r \in R : TRUE)[2])
            ELSE None
SOwes == IF spc = "last" /\ spc' = "idle" THEN Ev("status.end", 0, ssum, lastPanic) ELSE None
WaitOwes == IF ~waitDone /\ waitDone' THEN Ev("wait.end", 0, 0, "") ELSE None
Owes(g) == CASE g[1] = "q" -> QOwes(g[2]) [] g[1] = "w" -> WOwes(g[2]) [] g[1] = "p" -> POwes(g[2])
             [] g[1] = "s" -> SOwes [] OTHER -> WaitOwes

\* a model step that is not itself a trace line
ModelStep ==
  /\ \/ Internal
     \/ \E p \in Prods : PTimeout(p)
     \/ ((cancelOpen \/ Deadline) /\ Cancel)
  /\ \A g \in Procs : Owes(g) # None => owed[g] = None
  /\ (WaitOwes # None => waitOpen)
  /\ owed' = [g \in Procs |-> IF Owes(g) # None THEN Owes(g) ELSE owed[g]]
  /\ UNCHANGED <<l, cancelOpen, waitOpen>>

\* PushTask called with exactly the task of the trace line
PCallT(p, t) ==
  /\ ppc[p] = "idle" /\ owed[Pr(p)] = None
  /\ pcur' = [pcur EXCEPT ![p] = t] /\ ppc' = [ppc EXCEPT ![p] = "outer"]
  /\ plate' = [plate EXCEPT ![p] = (ctx = "done")]
  /\ UNCHANGED <<ctx, buf, qpc, qtask, wpc, wtask, cnt, pres, started, ended, lastPanic, recovered, waitDone, spc, ssum, slane, sres>>

Matches(o, e) ==
  /\ o.e = e.e \/ (o.e = "q.sent" /\ e.e \in {"q.sent.own", "q.sent.uni"}) \/ (o.e = "w.got" /\ e.e \in {"w.got.own", "w.got.uni"})
  /\ (o.e \in {"q.took", "q.inc", "q.exit.chk", "q.sent.fast", "q.offer", "q.sent", "q.exit.offer", "q.dec", "w.got.fast", "w.got",
               "task.start", "task.end", "task.panic", "w.recovered", "push.end"} => o.t = e.t)
  /\ (o.e = "push.end" => o.x = e.res)
  /\ (o.e = "task.panic" => o.x = e.v)
  /\ (o.e = "status.end" => o.t = e.pend /\ o.x = e.v)

ProcOf(e) ==
  CASE e.e \in {"q.took", "q.inc", "q.exit.take", "q.exit.chk", "q.sent.fast", "q.offer", "q.sent.own", "q.sent.uni", "q.exit.offer", "q.dec"} -> QP(e.p)
    [] e.e \in {"w.exit.chk", "w.got.fast", "w.listen", "w.got.own", "w.got.uni", "w.exit.listen", "w.recovered"} -> WP(e.p)
    [] e.e = "push.end" -> Pr(e.p)
    [] e.e = "status.end" -> <<"s", 0>>
    [] e.e = "wait.end" -> <<"wait", 0>>
    [] OTHER -> <<"task", e.t>>
\* task.* events are emitted by the task body: they belong to the worker that runs that task
WorkerOf(t) == CHOOSE j \in Lanes : owed[WP(j)].e \in {"task.start", "task.end", "task.panic"} /\ owed[WP(j)].t = t

Consume ==
  /\ l <= Len(Trace)
  /\ LET e == Trace[l] IN
     CASE e.e = "push.begin" -> PCallT(e.p, e.t) /\ UNCHANGED <<owed, cancelOpen, waitOpen>>
       [] e.e = "status.begin" ->
            /\ spc = "idle" /\ owed[<<"s", 0>>] = None /\ spc' = "lens" /\ ssum' = 0 /\ slane' = 1
            /\ UNCHANGED <<ctx, buf, qpc, qtask, wpc, wtask, cnt, ppc, pcur, pres, plate, started, ended, lastPanic, recovered, waitDone, sres>>
            /\ UNCHANGED <<owed, cancelOpen, waitOpen>>
       [] e.e = "cancel.begin" -> cancelOpen' = TRUE /\ UNCHANGED <<vars, owed, waitOpen>>
       [] e.e \in {"cancel.end", "cancel.seen"} -> ctx = "done" /\ UNCHANGED <<vars, owed, cancelOpen, waitOpen>>   \* seen: an observer found ctx.Done() closed
       [] e.e = "wait.begin" -> waitOpen' = TRUE /\ UNCHANGED <<vars, owed, cancelOpen>>
       [] e.e \in {"quiescent", "w.done", "unstable"} -> UNCHANGED <<vars, owed, cancelOpen, waitOpen>>
       [] e.e \in {"task.start", "task.end", "task.panic"} ->
            /\ \E j \in Lanes : owed[WP(j)].e = e.e /\ owed[WP(j)].t = e.t /\ Matches(owed[WP(j)], e)
            /\ owed' = [owed EXCEPT ![WP(WorkerOf(e.t))] = None]
            /\ UNCHANGED <<vars, cancelOpen, waitOpen>>
       [] OTHER ->
            /\ owed[ProcOf(e)] # None /\ Matches(owed[ProcOf(e)], e)
            /\ owed' = [owed EXCEPT ![ProcOf(e)] = None]
            /\ UNCHANGED <<vars, cancelOpen, waitOpen>>
  /\ l' = l + 1

TraceNext == ModelStep \/ Consume
TraceSpec == TInit /\ [][TraceNext]_tvars

NotAccepted == l <= Len(Trace)
\* high-water mark of the trace position (needs -workers 1), printed at the end for diagnostics
HighWater == IF l > TLCGet(1) THEN TLCSet(1, l) ELSE TRUE
ReportHW == PrintT(<<"HIGHWATER", TLCGet(1)>>)
=============================================================================
