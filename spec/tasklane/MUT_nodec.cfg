SPECIFICATION SpecNoDec
CONSTANTS
  N = 2
  Q = 1
  Tasks = {1, 2}
  Lane <- Lane2
  Prod <- Prod2
  Pinned = {}
  Panics <- BothPanic2
  CanCancel = TRUE
  Sharing = TRUE
  OuterCheck = TRUE
  WithStatus = TRUE
INVARIANTS AtMostOnce NoRejectedRun StartedOnlyIfPushed PostCancelReject WaitOnlyWhenQuiet AtMostNRunning NoIdleWhileWaiting CntBounds TypeOK LastPanicIsOne StatusBounds StatusLast AtRestExact

CHECK_DEADLOCK FALSE
