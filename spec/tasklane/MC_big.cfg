SPECIFICATION Spec
CONSTANTS
  N = 2
  Q = 1
  Tasks = {1, 2, 3}
  Lane <- Lane3
  Prod <- Prod3
  Pinned = {}
  Panics <- NoPanics3
  CanCancel = TRUE
  Sharing = TRUE
  OuterCheck = TRUE
  WithStatus = FALSE
INVARIANTS AtMostOnce NoRejectedRun StartedOnlyIfPushed PostCancelReject WaitOnlyWhenQuiet AtMostNRunning NoIdleWhileWaiting CntBounds TypeOK
PROPERTIES NothingAfterWait
CHECK_DEADLOCK FALSE
