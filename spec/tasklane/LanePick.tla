------------------------------- MODULE LanePick -------------------------------
(***************************************************************************)
(* Beyond the listed properties (X14): TaskLane.ShortestQueueIndex, the    *)
(* call a producer makes to choose the lane for PushTask.                  *)
(*                                                                         *)
(* Implementation-shaped: the loop of the code - a candidate index, a      *)
(* cursor, and per iteration TWO separate reads, len(buffer[i]) first and  *)
(* len(buffer[candidate]) second (Go evaluates the operands of `<` left to *)
(* right) - while producers and queue goroutines keep changing the buffer  *)
(* lengths between any two reads (Grow / Shrink).                          *)
(*                                                                         *)
(* Statement layer:                                                        *)
(*   InRange   every result is a lane index, whatever happens meanwhile    *)
(*   AtRest    when no length changed during the call the result is the    *)
(*             LOWEST index among the lanes with the fewest buffered tasks *)
(*   Balanced  a producer that always pushes to the lane it was told, on a *)
(*             lane at rest, keeps the buffer lengths within one of each   *)
(*             other (checked as an action property on the abstract fill)  *)
(* Lanes are 1..N here, 0..N-1 in Go.                                      *)
(***************************************************************************)
EXTENDS Naturals, Sequences, FiniteSets, TLC

CONSTANTS N, Q,
          Strict      \* TRUE: `<` as in the code;  FALSE: the `<=` mutant (last of the shortest lanes)

Lanes == 1..N
Min(S) == CHOOSE x \in S : \A y \in S : x <= y
FirstArgmin(l) == Min({k \in DOMAIN l : \A j \in DOMAIN l : l[k] <= l[j]})

VARIABLES len,        \* len[i]: tasks in bufferedQueueList[i]
          pc,         \* "idle" | "readI" | "readC" | "done"
          cand, cur,  \* candidate index, cursor
          a,          \* value of the first read of the current iteration
          res,        \* last result
          moved       \* some length changed since the last call began
vars == <<len, pc, cand, cur, a, res, moved>>

Init == /\ len \in [Lanes -> 0..Q]
        /\ pc = "idle" /\ cand = 1 /\ cur = 2 /\ a = 0 /\ res = 1 /\ moved = FALSE

\* the environment: a producer's send succeeds, a queue goroutine takes the head
Grow(i)   == len[i] < Q /\ len' = [len EXCEPT ![i] = @ + 1] /\ moved' = ((pc # "idle") \/ moved) /\ UNCHANGED <<pc, cand, cur, a, res>>
Shrink(i) == len[i] > 0 /\ len' = [len EXCEPT ![i] = @ - 1] /\ moved' = ((pc # "idle") \/ moved) /\ UNCHANGED <<pc, cand, cur, a, res>>

Call == /\ pc \in {"idle", "done"}
        /\ cand' = 1 /\ cur' = 2 /\ moved' = FALSE
        /\ pc' = IF N >= 2 THEN "readI" ELSE "done"
        /\ res' = IF N >= 2 THEN res ELSE 1
        /\ UNCHANGED <<len, a>>
ReadI == /\ pc = "readI" /\ a' = len[cur] /\ pc' = "readC" /\ UNCHANGED <<len, cand, cur, res, moved>>
ReadC == /\ pc = "readC"
         /\ LET better == IF Strict THEN a < len[cand] ELSE a <= len[cand]
                c2 == IF better THEN cur ELSE cand
            IN /\ cand' = c2
               /\ IF cur = N THEN pc' = "done" /\ res' = c2 /\ cur' = cur
                  ELSE pc' = "readI" /\ cur' = cur + 1 /\ res' = res
         /\ UNCHANGED <<len, a, moved>>

Next == Call \/ ReadI \/ ReadC \/ \E i \in Lanes : Grow(i) \/ Shrink(i)
Spec == Init /\ [][Next]_vars

TypeOK == cand \in Lanes /\ cur \in 2..(N + 1) /\ res \in Lanes /\ a \in 0..Q
InRange == res \in Lanes /\ cand \in Lanes
AtRest == (pc = "done" /\ ~moved) => res = FirstArgmin(len)

(* the use: push one task to the lane the call names, at rest              *)
Spread(l) == \A i, j \in DOMAIN l : l[i] <= l[j] + 1
FillStep(l) == [l EXCEPT ![FirstArgmin(l)] = @ + 1]
Balanced == \A l \in [Lanes -> 0..Q] : Spread(l) => Spread(FillStep(l))
ASSUME Balanced
=============================================================================
