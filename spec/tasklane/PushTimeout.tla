----------------------------- MODULE PushTimeout -----------------------------
(***************************************************************************)
(* Beyond the listed properties (X15): the time side of PushTask, which    *)
(* TaskLane.tla abstracts into "the timer may have fired at any moment".   *)
(*                                                                         *)
(* One lane that stays full (every worker pinned, the queue goroutine      *)
(* holding a task, the buffer at capacity) unless Drain happens; a         *)
(* producer calling PushTask over and over; SetTimeout between calls.      *)
(* Time is a counter of ticks; the producer's timer is armed when the      *)
(* inner select is entered with the timeout configured AT THAT MOMENT      *)
(* (time.After(tl.timeout) is evaluated once per call).                    *)
(*                                                                         *)
(* Statement layer:                                                        *)
(*   NotEarly     a call returns ErrTimeout only when at least the         *)
(*                timeout configured at its start has elapsed              *)
(*   PerCall      SetTimeout during a call does not change that call's     *)
(*                timer; the next call uses the new value                  *)
(*   NilOnlyWithRoom  a call returns nil only if the lane had room at some *)
(*                moment of the call                                       *)
(* Mutant EvalLate: the timeout is read when the timer fires (a shared     *)
(* ticker comparing against tl.timeout) - PerCall fails.                   *)
(***************************************************************************)
EXTENDS Naturals, FiniteSets, TLC

CONSTANTS Timeouts,    \* values SetTimeout may be given (ticks)
          MaxNow,      \* time bound of the model
          EvalLate     \* FALSE: as the code;  TRUE: mutant

VARIABLES now, cfg,          \* clock; TaskLane.timeout
          room,              \* the lane's buffer has room
          pc,                \* "idle" | "waiting"
          t0, armed,         \* start of the current call; timeout its timer was armed with
          hadRoom,           \* the lane had room at some moment of the current call
          cfgChanged,        \* SetTimeout was called during the current call
          last               \* record of the last finished call
vars == <<now, cfg, room, pc, t0, armed, hadRoom, cfgChanged, last>>

NoCall == [res |-> "none", elapsed |-> 0, armed |-> 0, cfg0 |-> 0, hadRoom |-> FALSE, changed |-> FALSE]

Init == /\ now = 0 /\ cfg \in Timeouts /\ room = FALSE /\ pc = "idle"
        /\ t0 = 0 /\ armed = 0 /\ hadRoom = FALSE /\ cfgChanged = FALSE /\ last = NoCall

Tick == now < MaxNow /\ now' = now + 1 /\ UNCHANGED <<cfg, room, pc, t0, armed, hadRoom, cfgChanged, last>>
SetTimeout(v) == /\ cfg' = v /\ cfgChanged' = ((pc = "waiting" /\ v # cfg) \/ cfgChanged)
                 /\ UNCHANGED <<now, room, pc, t0, armed, hadRoom, last>>
Drain == /\ ~room /\ room' = TRUE /\ hadRoom' = ((pc = "waiting") \/ hadRoom)
         /\ UNCHANGED <<now, cfg, pc, t0, armed, cfgChanged, last>>

Call == /\ pc = "idle" /\ pc' = "waiting" /\ t0' = now /\ armed' = cfg /\ hadRoom' = room /\ cfgChanged' = FALSE
        /\ UNCHANGED <<now, cfg, room, last>>
Finish(res) == /\ last' = [res |-> res, elapsed |-> now - t0, armed |-> armed, cfg0 |-> armed, hadRoom |-> hadRoom, changed |-> cfgChanged]
               /\ pc' = "idle"
Sent == /\ pc = "waiting" /\ room /\ room' = FALSE /\ Finish("nil")
        /\ UNCHANGED <<now, cfg, t0, armed, hadRoom, cfgChanged>>
Fire == /\ pc = "waiting"
        /\ now - t0 >= (IF EvalLate THEN cfg ELSE armed)
        /\ Finish("timeout")
        /\ UNCHANGED <<now, cfg, room, t0, armed, hadRoom, cfgChanged>>

Next == Tick \/ Drain \/ Call \/ Sent \/ Fire \/ \E v \in Timeouts : SetTimeout(v)
Spec == Init /\ [][Next]_vars

NotEarly == last.res = "timeout" => last.elapsed >= last.armed
PerCall == NotEarly          \* with EvalLate a call whose timeout was lowered meanwhile returns before its own timer
NilOnlyWithRoom == last.res = "nil" => last.hadRoom
=============================================================================
