---------------------------- MODULE LanePickCases ----------------------------
(***************************************************************************)
(* Judge of ShortestQueueIndex results recorded on the real TaskLane at    *)
(* rest (harness/cmd/tasklane -pick): every worker pinned, every queue     *)
(* goroutine holding one task, lens[k] further tasks buffered in lane k.   *)
(*   at rest   : idx = FirstArgmin(lens)              (LanePick!AtRest)    *)
(*   busy      : idx is a lane index                  (LanePick!InRange)   *)
(*   fill      : after pushing m tasks one by one, each to the lane the    *)
(*               call named, the buffer lengths are within one of each     *)
(*               other and add up to m                (LanePick!Balanced)  *)
(***************************************************************************)
EXTENDS Naturals, Sequences, FiniteSets, TLC, Json
Min(S) == CHOOSE x \in S : \A y \in S : x <= y
FirstArgmin(l) == Min({k \in DOMAIN l : \A j \in DOMAIN l : l[k] <= l[j]})
RECURSIVE Sum(_, _)
Sum(l, k) == IF k > Len(l) THEN 0 ELSE l[k] + Sum(l, k + 1)
Cases == ndJsonDeserialize("cases.ndjson")
VARIABLE i
Init == i \in 1..Len(Cases)
Next == UNCHANGED i

\* fill: picks[k] is the k-th answer (1-based lanes); replay it on the abstract lengths
RECURSIVE Replay(_, _, _)
Replay(l, picks, k) ==
  IF k > Len(picks) THEN 0
  ELSE IF picks[k] # FirstArgmin(l) THEN k
  ELSE Replay([l EXCEPT ![picks[k]] = @ + 1], picks, k + 1)

OK(c) ==
  CASE c.kind = "rest" -> c.idx \in 1..c.n /\ c.idx = FirstArgmin(c.lens)
    [] c.kind = "busy" -> c.idx \in 1..c.n
    [] c.kind = "fill" -> Replay([k \in 1..c.n |-> 0], c.picks, 1) = 0
    [] OTHER -> FALSE
JudgeOK == OK(Cases[i]) \/ PrintT(<<"BAD", i>>)
=============================================================================
