SPECIFICATION Spec
CONSTANTS
  N = 2
  Q = 1
  Tasks = {1, 2}
  Lane <- Lane2
  Prod <- Prod2
  Pinned = {1}
  Panics <- NoPanics2
  CanCancel = FALSE
  Sharing = TRUE
  OuterCheck = TRUE
  WithStatus = FALSE
INVARIANTS AtMostOnce NoRejectedRun StartedOnlyIfPushed PostCancelReject WaitOnlyWhenQuiet AtMostNRunning NoIdleWhileWaiting CntBounds TypeOK
PROPERTIES EveryAcceptedStarts
CHECK_DEADLOCK FALSE
