------------------------------- MODULE TaskLane -------------------------------
(***************************************************************************)
(* C06, C07, C08, C14 - the tasklane protocol: N lanes, each with a        *)
(* buffered queue (capacity Q, Q = 0 allowed), a queue goroutine and a     *)
(* worker goroutine; one "universal" channel shared by all lanes.          *)
(*                                                                         *)
(* Implementation-shaped: one action per select / channel operation /      *)
(* statement that touches shared state, with Go's semantics explicit:      *)
(*  - a select polls its cases and parks atomically; several ready cases   *)
(*    => nondeterministic choice; `default` only if nothing is ready;      *)
(*  - an unbuffered send/receive completes only against a peer that is     *)
(*    already parked on that channel (the step moves both goroutines);     *)
(*  - Cancel = close(done): claims, atomically, every goroutine parked in  *)
(*    a select that has a Done case;                                       *)
(*  - time.After may have fired at any moment (PTimeout).                  *)
(* Task behaviour: returns, panics with a value of PanicVals, or is in     *)
(* Pinned (never returns).                                                 *)
(***************************************************************************)
EXTENDS Naturals, Sequences, FiniteSets, TLC

CONSTANTS N,            \* laneSize
          Q,            \* queueSize
          Tasks,        \* task ids
          Lane,         \* Lane[t]  : lane the task is pushed to
          Prod,         \* Prod[t]  : producer that pushes it (a producer pushes its tasks in id order)
          Pinned,       \* tasks that never return
          Panics,       \* Panics[t]: "none" or the panic value of task t
          CanCancel,    \* whether the context may be cancelled
          Sharing,      \* FALSE = mutant without the universal channel
          OuterCheck,   \* FALSE = mutant without PushTask's outer ctx.Done() check
          WithStatus    \* whether a Status() reader runs

Lanes == 1..N
Prods == {Prod[t] : t \in Tasks}
NoTask == 0

VARIABLES
  ctx,                  \* "live" | "done"
  buf,                  \* buf[i]: sequence of tasks in bufferedQueueList[i]
  qpc, qtask,           \* queue goroutine i
  wpc, wtask,           \* worker goroutine j
  cnt,                  \* blockingTaskCnt
  ppc, pcur, pres,      \* producer: pc, task being pushed, set of <<task, result, call began after cancel>>
  plate,                \* plate[p]: the current call of p began when the context was already done
  started,              \* started[t]: number of Start() invocations
  ended,                \* tasks whose Start() has returned or panicked
  lastPanic, recovered, \* last-panic slot; set of panic values stored so far
  waitDone,             \* Wait() has returned
  spc, ssum, slane, sres\* Status() reader: pc, running sum, next lane to read, results returned
vars == <<ctx, buf, qpc, qtask, wpc, wtask, cnt, ppc, pcur, pres, plate, started, ended, lastPanic, recovered,
          waitDone, spc, ssum, slane, sres>>

Init ==
  /\ ctx = "live"
  /\ buf = [i \in Lanes |-> <<>>]
  /\ qpc = [i \in Lanes |-> "take"] /\ qtask = [i \in Lanes |-> NoTask]
  /\ wpc = [i \in Lanes |-> "chk"]  /\ wtask = [i \in Lanes |-> NoTask]
  /\ cnt = 0
  /\ ppc = [p \in Prods |-> "idle"] /\ pcur = [p \in Prods |-> NoTask] /\ pres = {}
  /\ plate = [p \in Prods |-> FALSE]
  /\ started = [t \in Tasks |-> 0] /\ ended = {}
  /\ lastPanic = "nil" /\ recovered = {}
  /\ waitDone = FALSE
  /\ spc = "idle" /\ ssum = 0 /\ slane = 1 /\ sres = {}

Pushed == ({r[1] : r \in pres} \cup {pcur[p] : p \in Prods}) \ {NoTask}
Accepted == {r[1] : r \in {x \in pres : x[2] = "nil"}}
Rejected == {r[1] : r \in {x \in pres : x[2] # "nil"}}
NextTask(p) == LET R == {t \in Tasks : Prod[t] = p /\ t \notin Pushed} IN
               IF R = {} THEN NoTask ELSE CHOOSE t \in R : \A u \in R : t <= u

-----------------------------------------------------------------------------
(* Producers: PushTask(task, lane)                                         *)
PCall(p) ==
  /\ ppc[p] = "idle" /\ NextTask(p) # NoTask
  /\ pcur' = [pcur EXCEPT ![p] = NextTask(p)]
  /\ ppc' = [ppc EXCEPT ![p] = "outer"]
  /\ plate' = [plate EXCEPT ![p] = (ctx = "done")]
  /\ UNCHANGED <<ctx, buf, qpc, qtask, wpc, wtask, cnt, pres, started, ended, lastPanic, recovered, waitDone, spc, ssum, slane, sres>>

Return(p, res) == /\ pres' = pres \cup {<<pcur[p], res, plate[p]>>}
                  /\ ppc' = [ppc EXCEPT ![p] = "idle"] /\ pcur' = [pcur EXCEPT ![p] = NoTask]
                  /\ UNCHANGED plate

\* outer select: case <-ctx.Done(): return err; default: (inner select)
POuter(p) ==
  /\ ppc[p] = "outer"
  /\ IF ctx = "done" /\ OuterCheck THEN Return(p, "ctx")
     ELSE ppc' = [ppc EXCEPT ![p] = "inner"] /\ UNCHANGED <<pcur, pres, plate>>
  /\ UNCHANGED <<ctx, buf, qpc, qtask, wpc, wtask, cnt, started, ended, lastPanic, recovered, waitDone, spc, ssum, slane, sres>>

\* a send on bufferedQueueList[i] can proceed: room in the buffer, or the queue goroutine parked receiving
SendReady(i) == Len(buf[i]) < Q \/ qpc[i] = "takeParked"

\* the send itself; if the queue goroutine is parked (then the buffer is empty) the task goes to it directly
DoSend(t, i) ==
  IF qpc[i] = "takeParked"
  THEN /\ qpc' = [qpc EXCEPT ![i] = "inc"] /\ qtask' = [qtask EXCEPT ![i] = t] /\ UNCHANGED buf
  ELSE /\ buf' = [buf EXCEPT ![i] = Append(@, t)] /\ UNCHANGED <<qpc, qtask>>

\* inner select: ctx.Done() | send | time.After - any ready case may be chosen; else park
PInner(p) ==
  /\ ppc[p] = "inner"
  /\ LET i == Lane[pcur[p]] IN
     \/ /\ ctx = "done" /\ Return(p, "ctx") /\ UNCHANGED <<buf, qpc, qtask>>
     \/ /\ SendReady(i) /\ DoSend(pcur[p], i) /\ Return(p, "nil")
     \/ /\ ctx = "live" /\ ~SendReady(i)
        /\ ppc' = [ppc EXCEPT ![p] = "innerParked"] /\ UNCHANGED <<buf, qpc, qtask, pcur, pres, plate>>
  /\ UNCHANGED <<ctx, wpc, wtask, cnt, started, ended, lastPanic, recovered, waitDone, spc, ssum, slane, sres>>

\* the timer fires (it may also fire while the producer has not parked yet)
PTimeout(p) ==
  /\ ppc[p] \in {"inner", "innerParked"}
  /\ Return(p, "timeout")
  /\ UNCHANGED <<ctx, buf, qpc, qtask, wpc, wtask, cnt, started, ended, lastPanic, recovered, waitDone, spc, ssum, slane, sres>>

-----------------------------------------------------------------------------
(* Queue goroutine i (startQueue)                                          *)
ParkedSenders(i) == {p \in Prods : ppc[p] = "innerParked" /\ Lane[pcur[p]] = i}

\* first select: ctx.Done() | receive from bufferedQueueList[i]
QTake(i) ==
  /\ qpc[i] = "take"
  /\ \/ /\ ctx = "done" /\ qpc' = [qpc EXCEPT ![i] = "exit"] /\ UNCHANGED <<buf, qtask, ppc, pcur, pres, plate>>
     \/ /\ Len(buf[i]) > 0          \* buffered element; a parked sender (buffer was full) refills the slot
        /\ qtask' = [qtask EXCEPT ![i] = Head(buf[i])] /\ qpc' = [qpc EXCEPT ![i] = "inc"]
        /\ IF ParkedSenders(i) # {}
           THEN \E p \in ParkedSenders(i) :
                  /\ buf' = [buf EXCEPT ![i] = Append(Tail(@), pcur[p])] /\ Return(p, "nil")
           ELSE buf' = [buf EXCEPT ![i] = Tail(@)] /\ UNCHANGED <<ppc, pcur, pres, plate>>
     \/ /\ Len(buf[i]) = 0 /\ ParkedSenders(i) # {}     \* only with Q = 0: direct rendezvous
        /\ \E p \in ParkedSenders(i) :
             /\ qtask' = [qtask EXCEPT ![i] = pcur[p]] /\ qpc' = [qpc EXCEPT ![i] = "inc"] /\ Return(p, "nil")
        /\ UNCHANGED buf
     \/ /\ ctx = "live" /\ Len(buf[i]) = 0 /\ ParkedSenders(i) = {}
        /\ qpc' = [qpc EXCEPT ![i] = "takeParked"] /\ UNCHANGED <<buf, qtask, ppc, pcur, pres, plate>>
  /\ UNCHANGED <<ctx, wpc, wtask, cnt, started, ended, lastPanic, recovered, waitDone, spc, ssum, slane, sres>>

QInc(i) ==
  /\ qpc[i] = "inc" /\ cnt' = cnt + 1 /\ qpc' = [qpc EXCEPT ![i] = "chk"]
  /\ UNCHANGED <<ctx, buf, qtask, wpc, wtask, ppc, pcur, pres, plate, started, ended, lastPanic, recovered, waitDone, spc, ssum, slane, sres>>

\* second select: ctx.Done() -> return | default
QChk(i) ==
  /\ qpc[i] = "chk"
  /\ qpc' = [qpc EXCEPT ![i] = IF ctx = "done" THEN "exit" ELSE "tryOwn"]
  /\ UNCHANGED <<ctx, buf, qtask, wpc, wtask, cnt, ppc, pcur, pres, plate, started, ended, lastPanic, recovered, waitDone, spc, ssum, slane, sres>>

\* hand task t of queue goroutine i to worker j, which is parked listening
Handover(i, j) ==
  /\ wpc' = [wpc EXCEPT ![j] = "start"] /\ wtask' = [wtask EXCEPT ![j] = qtask[i]]
  /\ qpc' = [qpc EXCEPT ![i] = "dec"]

\* non-blocking send to the own worker: succeeds only if it is parked listening
QTryOwn(i) ==
  /\ qpc[i] = "tryOwn"
  /\ IF wpc[i] = "listenParked" THEN Handover(i, i)
     ELSE qpc' = [qpc EXCEPT ![i] = "offer"] /\ UNCHANGED <<wpc, wtask>>
  /\ UNCHANGED <<ctx, buf, qtask, cnt, ppc, pcur, pres, plate, started, ended, lastPanic, recovered, waitDone, spc, ssum, slane, sres>>

\* blocking select: ctx.Done() | own worker | universal channel
QOffer(i) ==
  /\ qpc[i] = "offer"
  /\ LET Peers == {j \in Lanes : wpc[j] = "listenParked" /\ (j = i \/ Sharing)} IN
     \/ /\ ctx = "done" /\ qpc' = [qpc EXCEPT ![i] = "exit"] /\ UNCHANGED <<wpc, wtask>>
     \/ \E j \in Peers : Handover(i, j)
     \/ /\ ctx = "live" /\ Peers = {} /\ qpc' = [qpc EXCEPT ![i] = "offerParked"] /\ UNCHANGED <<wpc, wtask>>
  /\ UNCHANGED <<ctx, buf, qtask, cnt, ppc, pcur, pres, plate, started, ended, lastPanic, recovered, waitDone, spc, ssum, slane, sres>>

QDec(i) ==
  /\ qpc[i] = "dec" /\ cnt' = cnt - 1 /\ qpc' = [qpc EXCEPT ![i] = "take"] /\ qtask' = [qtask EXCEPT ![i] = NoTask]
  /\ UNCHANGED <<ctx, buf, wpc, wtask, ppc, pcur, pres, plate, started, ended, lastPanic, recovered, waitDone, spc, ssum, slane, sres>>

QExit(i) ==
  /\ qpc[i] = "exit" /\ qpc' = [qpc EXCEPT ![i] = "gone"]
  /\ UNCHANGED <<ctx, buf, qtask, wpc, wtask, cnt, ppc, pcur, pres, plate, started, ended, lastPanic, recovered, waitDone, spc, ssum, slane, sres>>

-----------------------------------------------------------------------------
(* Worker goroutine j (startWorker)                                        *)
WChk(j) ==
  /\ wpc[j] = "chk"
  /\ wpc' = [wpc EXCEPT ![j] = IF ctx = "done" THEN "exit" ELSE "tryOwn"]
  /\ UNCHANGED <<ctx, buf, qpc, qtask, wtask, cnt, ppc, pcur, pres, plate, started, ended, lastPanic, recovered, waitDone, spc, ssum, slane, sres>>

\* worker j takes the task of queue goroutine i, which is parked offering
Takeover(i, j) ==
  /\ wpc' = [wpc EXCEPT ![j] = "start"] /\ wtask' = [wtask EXCEPT ![j] = qtask[i]]
  /\ qpc' = [qpc EXCEPT ![i] = "dec"]

WTryOwn(j) ==
  /\ wpc[j] = "tryOwn"
  /\ IF qpc[j] = "offerParked" THEN Takeover(j, j)
     ELSE wpc' = [wpc EXCEPT ![j] = "listen"] /\ UNCHANGED <<qpc, wtask>>
  /\ UNCHANGED <<ctx, buf, qtask, cnt, ppc, pcur, pres, plate, started, ended, lastPanic, recovered, waitDone, spc, ssum, slane, sres>>

WListen(j) ==
  /\ wpc[j] = "listen"
  /\ LET Peers == {i \in Lanes : qpc[i] = "offerParked" /\ (i = j \/ Sharing)} IN
     \/ /\ ctx = "done" /\ wpc' = [wpc EXCEPT ![j] = "exit"] /\ UNCHANGED <<qpc, wtask>>
     \/ \E i \in Peers : Takeover(i, j)
     \/ /\ ctx = "live" /\ Peers = {} /\ wpc' = [wpc EXCEPT ![j] = "listenParked"] /\ UNCHANGED <<qpc, wtask>>
  /\ UNCHANGED <<ctx, buf, qtask, cnt, ppc, pcur, pres, plate, started, ended, lastPanic, recovered, waitDone, spc, ssum, slane, sres>>

WStart(j) ==
  /\ wpc[j] = "start"
  /\ started' = [started EXCEPT ![wtask[j]] = @ + 1]
  /\ wpc' = [wpc EXCEPT ![j] = "running"]
  /\ UNCHANGED <<ctx, buf, qpc, qtask, wtask, cnt, ppc, pcur, pres, plate, ended, lastPanic, recovered, waitDone, spc, ssum, slane, sres>>

\* the task returns (or panics: then the deferred recover runs as a separate step)
WReturn(j) ==
  /\ wpc[j] = "running" /\ wtask[j] \notin Pinned
  /\ ended' = ended \cup {wtask[j]}
  /\ wpc' = [wpc EXCEPT ![j] = IF Panics[wtask[j]] = "none" THEN "chk" ELSE "recover"]
  /\ UNCHANGED <<ctx, buf, qpc, qtask, wtask, cnt, ppc, pcur, pres, plate, started, lastPanic, recovered, waitDone, spc, ssum, slane, sres>>

WRecover(j) ==
  /\ wpc[j] = "recover"
  /\ lastPanic' = Panics[wtask[j]] /\ recovered' = recovered \cup {Panics[wtask[j]]}
  /\ wpc' = [wpc EXCEPT ![j] = "chk"]
  /\ UNCHANGED <<ctx, buf, qpc, qtask, wtask, cnt, ppc, pcur, pres, plate, started, ended, waitDone, spc, ssum, slane, sres>>

WExit(j) ==
  /\ wpc[j] = "exit" /\ wpc' = [wpc EXCEPT ![j] = "gone"]
  /\ UNCHANGED <<ctx, buf, qpc, qtask, wtask, cnt, ppc, pcur, pres, plate, started, ended, lastPanic, recovered, waitDone, spc, ssum, slane, sres>>

-----------------------------------------------------------------------------
(* Environment: cancellation, Wait(), Status()                             *)
Cancel ==
  /\ CanCancel /\ ctx = "live" /\ ctx' = "done"
  /\ qpc' = [i \in Lanes |-> IF qpc[i] \in {"takeParked", "offerParked"} THEN "exit" ELSE qpc[i]]
  /\ wpc' = [j \in Lanes |-> IF wpc[j] = "listenParked" THEN "exit" ELSE wpc[j]]
  /\ LET P == {p \in Prods : ppc[p] = "innerParked"} IN
     /\ pres' = pres \cup {<<pcur[p], "ctx", plate[p]>> : p \in P}
     /\ ppc' = [p \in Prods |-> IF p \in P THEN "idle" ELSE ppc[p]]
     /\ pcur' = [p \in Prods |-> IF p \in P THEN NoTask ELSE pcur[p]]
  /\ UNCHANGED plate
  /\ UNCHANGED <<buf, qtask, wtask, cnt, started, ended, lastPanic, recovered, waitDone, spc, ssum, slane, sres>>

AllGone == \A i \in Lanes : qpc[i] = "gone" /\ wpc[i] = "gone"
WaitRet ==
  /\ ~waitDone /\ AllGone /\ waitDone' = TRUE
  /\ UNCHANGED <<ctx, buf, qpc, qtask, wpc, wtask, cnt, ppc, pcur, pres, plate, started, ended, lastPanic, recovered, spc, ssum, slane, sres>>

\* Status(): reads len(bufferedQueueList[i]) for each lane, then the counter, then the last panic
SBegin ==
  /\ WithStatus /\ spc = "idle" /\ Cardinality(sres) < 2
  /\ spc' = "lens" /\ ssum' = 0 /\ slane' = 1
  /\ UNCHANGED <<ctx, buf, qpc, qtask, wpc, wtask, cnt, ppc, pcur, pres, plate, started, ended, lastPanic, recovered, waitDone, sres>>
SLen ==
  /\ spc = "lens"
  /\ ssum' = ssum + Len(buf[slane])
  /\ IF slane = N THEN spc' = "cnt" /\ UNCHANGED slane ELSE slane' = slane + 1 /\ UNCHANGED spc
  /\ UNCHANGED <<ctx, buf, qpc, qtask, wpc, wtask, cnt, ppc, pcur, pres, plate, started, ended, lastPanic, recovered, waitDone, sres>>
SCnt ==
  /\ spc = "cnt" /\ ssum' = ssum + cnt /\ spc' = "last"
  /\ UNCHANGED <<ctx, buf, qpc, qtask, wpc, wtask, cnt, ppc, pcur, pres, plate, started, ended, lastPanic, recovered, waitDone, slane, sres>>
SLast ==
  /\ spc = "last" /\ sres' = sres \cup {<<ssum, lastPanic>>} /\ spc' = "idle"
  /\ UNCHANGED <<ctx, buf, qpc, qtask, wpc, wtask, cnt, ppc, pcur, pres, plate, started, ended, lastPanic, recovered, waitDone, ssum, slane>>

Internal ==   \* goroutine-internal steps (fair)
  \/ \E p \in Prods : POuter(p) \/ PInner(p)
  \/ \E i \in Lanes : QTake(i) \/ QInc(i) \/ QChk(i) \/ QTryOwn(i) \/ QOffer(i) \/ QDec(i) \/ QExit(i)
  \/ \E j \in Lanes : WChk(j) \/ WTryOwn(j) \/ WListen(j) \/ WStart(j) \/ WReturn(j) \/ WRecover(j) \/ WExit(j)
  \/ WaitRet \/ SLen \/ SCnt \/ SLast
Next == Internal \/ (\E p \in Prods : PCall(p) \/ PTimeout(p)) \/ Cancel \/ SBegin

Fairness ==
  /\ \A p \in Prods : WF_vars(POuter(p)) /\ WF_vars(PInner(p)) /\ WF_vars(PCall(p))
  /\ \A i \in Lanes : WF_vars(QTake(i)) /\ WF_vars(QInc(i)) /\ WF_vars(QChk(i)) /\ WF_vars(QTryOwn(i))
                      /\ WF_vars(QOffer(i)) /\ WF_vars(QDec(i)) /\ WF_vars(QExit(i))
  /\ \A j \in Lanes : WF_vars(WChk(j)) /\ WF_vars(WTryOwn(j)) /\ WF_vars(WListen(j)) /\ WF_vars(WStart(j))
                      /\ WF_vars(WReturn(j)) /\ WF_vars(WRecover(j)) /\ WF_vars(WExit(j))
  /\ WF_vars(WaitRet)
Spec == Init /\ [][Next]_vars /\ Fairness

\* ---- non-vacuity mutants of the protocol (each mirrors a realistic wrong edit of the code)
\* the queue goroutine keeps the task after a successful hand-over and offers it again
HandoverKeep(i, j) == /\ wpc' = [wpc EXCEPT ![j] = "start"] /\ wtask' = [wtask EXCEPT ![j] = qtask[i]]
                      /\ qpc' = [qpc EXCEPT ![i] = "offer"]
QTryOwnRerun(i) ==
  /\ qpc[i] = "tryOwn" /\ wpc[i] = "listenParked" /\ HandoverKeep(i, i)
  /\ UNCHANGED <<ctx, buf, qtask, cnt, ppc, pcur, pres, plate, started, ended, lastPanic, recovered, waitDone, spc, ssum, slane, sres>>
SpecRerun == Init /\ [][Next \/ \E i \in Lanes : QTryOwnRerun(i)]_vars
\* the counter is not decremented after the hand-over
QDecForgot(i) ==
  /\ qpc[i] = "dec" /\ qpc' = [qpc EXCEPT ![i] = "take"] /\ qtask' = [qtask EXCEPT ![i] = NoTask]
  /\ UNCHANGED <<ctx, buf, wpc, wtask, cnt, ppc, pcur, pres, plate, started, ended, lastPanic, recovered, waitDone, spc, ssum, slane, sres>>
SpecNoDec == Init /\ [][Next \/ \E i \in Lanes : QDecForgot(i)]_vars

-----------------------------------------------------------------------------
(* Statement layer.                                                        *)
Running == {j \in Lanes : wpc[j] = "running"}

\* C06
AtMostOnce    == \A t \in Tasks : started[t] <= 1
NoRejectedRun == \A t \in Rejected : started[t] = 0
StartedOnlyIfPushed == \A t \in Tasks : started[t] > 0 => t \in Pushed
EveryAcceptedStarts == \A t \in Tasks : (t \in Accepted /\ ctx = "live") ~> (started[t] = 1 \/ ctx = "done" \/
                                            Cardinality({j \in Running : wtask[j] \in Pinned}) = N)
\* C07
\* a call that begins after the cancellation returns the context error (and its task is never enqueued, see NoRejectedRun)
PostCancelReject == \A r \in pres : r[3] => r[2] = "ctx"
NothingAfterWait == [][waitDone => started' = started]_vars
WaitOnlyWhenQuiet == waitDone => (AllGone /\ Running = {})
ProducersReleased == (ctx = "done") ~> (\A p \in Prods : ppc[p] # "innerParked")
WaitReturns == (ctx = "done") ~> (waitDone \/ \E j \in Lanes : wpc[j] = "running" /\ wtask[j] \in Pinned)
\* C08
AtMostNRunning == Cardinality(Running) <= N
NoIdleWhileWaiting == (ctx = "live" /\ \E i \in Lanes : qpc[i] = "offerParked") => \A j \in Lanes : wpc[j] # "listenParked"
\* C14
CntBounds == cnt \in 0..N
LastPanicIsOne == lastPanic \in recovered \cup {"nil"} /\ (recovered # {} => lastPanic # "nil")
StatusBounds == \A r \in sres : r[1] \in 0..(N * (Q + 1))
StatusLast == \A r \in sres : r[2] \in {Panics[t] : t \in Tasks} \cup {"nil"}
\* at rest (nothing internal enabled, context live): pending = accepted and not yet started
SumLens[k \in 0..N] == IF k = 0 THEN 0 ELSE Len(buf[k]) + SumLens[k - 1]
PendingNow == cnt + SumLens[N]
AtRestExact == (ctx = "live" /\ ~ENABLED Internal /\ \A p \in Prods : ppc[p] \in {"idle", "innerParked"}) =>
                  PendingNow = Cardinality({t \in Accepted : started[t] = 0})
TypeOK == /\ \A i \in Lanes : Len(buf[i]) <= Q
          /\ \A t \in Tasks : started[t] \in 0..2
=============================================================================
