----------------------------- MODULE TaskLaneCases -----------------------------
(***************************************************************************)
(* Judge of traces recorded from the real tasklane.TaskLane                *)
(* (harness/cmd/tasklane).  Statement layer only - the API-visible facts   *)
(* that C06, C07, C08 and C14 talk about, the same formulas TLC checks on  *)
(* the protocol model TaskLane.tla:                                        *)
(*   AtMostOnce, NoRejectedRun, StartedOnlyIfPushed          (C06)         *)
(*   PostCancelReject, WaitOnlyWhenQuiet, NothingAfterWait,                *)
(*   WaitCoversEveryGoroutine (all 2N loop exits precede Wait's return) (C07) *)
(*   AtMostNRunning, NoTimeoutWhileIdle (long-timeout scenarios)  (C08)    *)
(*   StatusBounds, LastPanicIsOne                            (C14)         *)
(* and, at stably quiescent states (liveness judged where no step of the   *)
(* lane is possible any more):                                             *)
(*   context live, fewer than N tasks blocked => every accepted task has   *)
(*        started (EveryAcceptedStarts / no head-of-line blocking)         *)
(*   context live => PendingTask = accepted and not started (AtRestExact)  *)
(*   context done, no task running => no goroutine of the lane is left and *)
(*        Wait has returned (WaitReturns); with k tasks still running at   *)
(*        most k goroutines are left.                                      *)
(* Events are consumed in the order of the global sequence number.         *)
(***************************************************************************)
EXTENDS Naturals, Sequences, FiniteSets, TLC, Json
CONSTANT Prop          \* "C06" | "C07" | "C08" | "C14": only the rules of this property produce verdicts
Cases == ndJsonDeserialize("cases.ndjson")
On(tags) == Prop \in tags
VARIABLE i
Init == i \in 1..Len(Cases)
Next == UNCHANGED i

S0 == [begun |-> {}, acc |-> {}, rej |-> {}, late |-> {}, started |-> {}, open |-> {},
       cb |-> FALSE, ce |-> FALSE, wb |-> FALSE, we |-> FALSE,
       raised |-> {}, rec |-> FALSE, sflag |-> {}, inprog |-> {}, sawfull |-> {}, exits |-> 0]

\* the hook points at which a queue or worker goroutine leaves its loop (each goroutine passes exactly one of them, once)
ExitPoints == {"q.exit.take", "q.exit.chk", "q.exit.offer", "w.exit.chk", "w.exit.listen"}

Bad(k, rule) == <<k, rule>>

RECURSIVE Fold(_, _, _)
Fold(c, k, s) ==
  IF k > Len(c.evs) THEN <<0, "">>
  ELSE LET e == c.evs[k] IN
  CASE e.e = "push.begin" ->
         Fold(c, k + 1, [s EXCEPT !.begun = @ \cup {e.t}, !.late = IF s.ce THEN @ \cup {e.t} ELSE @, !.inprog = @ \cup {e.t},
                                 !.sawfull = IF Cardinality(s.open) >= c.n \/ s.cb THEN @ \cup {e.t} ELSE @])
    [] e.e = "push.end" ->
         IF On({"C06"}) /\ (e.res \notin {"nil", "timeout", "ctx"}) THEN Bad(k, "C06: PushTask returned an error that is neither timeout nor the context error")
         ELSE IF On({"C07"}) /\ (e.t \in s.late /\ e.res # "ctx") THEN Bad(k, "C07: a PushTask call that began after the cancellation returned " \o e.res)
         ELSE IF On({"C06"}) /\ (e.res # "nil" /\ e.t \in s.started) THEN Bad(k, "C06: a task whose PushTask returned an error was started")
         ELSE IF On({"C08"}) /\ (c.longto /\ e.res = "timeout" /\ e.t \notin s.sawfull)
              THEN Bad(k, "C08: PushTask timed out (2 s) although a worker was idle during the whole call")
         ELSE Fold(c, k + 1, IF e.res = "nil" THEN [s EXCEPT !.acc = @ \cup {e.t}, !.inprog = @ \ {e.t}] ELSE [s EXCEPT !.rej = @ \cup {e.t}, !.inprog = @ \ {e.t}])
    [] e.e = "task.start" ->
         IF On({"C06"}) /\ (e.t \notin s.begun) THEN Bad(k, "C06: a task was started that was never pushed")
         ELSE IF On({"C06"}) /\ (e.t \in s.started) THEN Bad(k, "C06: a task was started twice")
         ELSE IF On({"C06"}) /\ (e.t \in s.rej) THEN Bad(k, "C06: a task whose PushTask returned an error was started")
         ELSE IF On({"C08"}) /\ (Cardinality(s.open) >= c.n) THEN Bad(k, "C08: more than laneSize tasks executing at once")
         ELSE IF On({"C07"}) /\ (s.we) THEN Bad(k, "C07: a task was started after Wait had returned")
         ELSE Fold(c, k + 1, [s EXCEPT !.started = @ \cup {e.t}, !.open = @ \cup {e.t},
                                      !.sawfull = IF Cardinality(s.open) + 1 >= c.n THEN @ \cup s.inprog ELSE @])
    [] e.e = "task.end" -> Fold(c, k + 1, [s EXCEPT !.open = @ \ {e.t}])
    [] e.e = "task.panic" -> Fold(c, k + 1, [s EXCEPT !.open = @ \ {e.t}, !.raised = @ \cup {e.v}])
    [] e.e = "cancel.begin" -> Fold(c, k + 1, [s EXCEPT !.cb = TRUE, !.sawfull = @ \cup s.inprog])
    [] e.e \in {"cancel.end", "cancel.seen"} -> Fold(c, k + 1, [s EXCEPT !.ce = TRUE])    \* seen: an observer found ctx.Done() closed while cancel() was still running
    [] e.e = "wait.begin" -> Fold(c, k + 1, [s EXCEPT !.wb = TRUE])
    [] e.e = "wait.end" ->
         IF On({"C07"}) /\ (s.open # {}) THEN Bad(k, "C07: Wait returned while a started task had not returned")
         ELSE IF On({"C07"}) /\ (c.hooks /\ s.exits < 2 * c.n) THEN Bad(k, "C07: Wait returned before every queue and worker goroutine of the lane had left its loop")
         ELSE Fold(c, k + 1, [s EXCEPT !.we = TRUE])
    [] e.e \in ExitPoints -> Fold(c, k + 1, [s EXCEPT !.exits = @ + 1])
    [] e.e = "w.recovered" -> Fold(c, k + 1, [s EXCEPT !.rec = TRUE])
    [] e.e = "status.begin" -> Fold(c, k + 1, [s EXCEPT !.sflag = IF s.rec THEN @ \cup {e.p} ELSE @ \ {e.p}])
    [] e.e = "status.end" ->
         IF On({"C14"}) /\ (e.pend > c.n * (c.q + 1)) THEN Bad(k, "C14: PendingTask above laneSize x (queueSize+1)")
         ELSE IF On({"C14"}) /\ (e.v \notin s.raised \cup {"nil"}) THEN Bad(k, "C14: LastPanic is not the value of a panic that occurred")
         ELSE IF On({"C14"}) /\ (e.p \in s.sflag /\ e.v = "nil") THEN Bad(k, "C14: LastPanic is nil although a panic had been recovered before Status was called")
         ELSE Fold(c, k + 1, s)
    [] e.e = "quiescent" ->
         IF On({"C06", "C08"}) /\ (~s.cb /\ e.res = "live" /\ Cardinality(s.open) < c.n /\ s.acc \ s.started # {}) THEN Bad(k, "C06/C08: stable state with an idle worker and an accepted task that was never started")
         ELSE IF On({"C14"}) /\ (~s.cb /\ e.res = "live" /\ e.pend # Cardinality(s.acc \ s.started)) THEN Bad(k, "C14: at rest PendingTask differs from the number of accepted-but-not-started tasks")
         ELSE IF On({"C14"}) /\ (s.rec /\ e.v = "nil") THEN Bad(k, "C14: LastPanic is nil after a recovered panic")
         ELSE IF On({"C14"}) /\ (e.v \notin s.raised \cup {"nil"}) THEN Bad(k, "C14: LastPanic is not the value of a panic that occurred")
         ELSE IF On({"C07"}) /\ (s.ce /\ s.open = {} /\ e.g # 0) THEN Bad(k, "C07: goroutines of the lane are left although the context is done and no task is running")
         ELSE IF On({"C07"}) /\ (s.ce /\ s.open = {} /\ s.wb /\ ~s.we) THEN Bad(k, "C07: Wait has not returned although every started task has returned")
         ELSE IF On({"C07"}) /\ (s.ce /\ e.g > Cardinality(s.open)) THEN Bad(k, "C07: more lane goroutines left than tasks still running")
         ELSE Fold(c, k + 1, s)
    [] e.e = "burst.summary" ->        \* totals of a scenario recorded without per-step events: g accepted, b started, t started twice
         IF On({"C14"}) /\ (e.pend # e.g - e.b) THEN Bad(k, "C14: at rest PendingTask differs from the number of accepted-but-not-started tasks")
         ELSE IF On({"C14"}) /\ (e.pend > c.n * (c.q + 1)) THEN Bad(k, "C14: PendingTask above laneSize x (queueSize+1)")
         ELSE IF On({"C06"}) /\ (e.t > 0) THEN Bad(k, "C06: a task was started twice")
         ELSE IF On({"C06", "C08"}) /\ (e.b < e.g) THEN Bad(k, "C06/C08: stable state with an idle worker and an accepted task that was never started")
         ELSE Fold(c, k + 1, s)
    [] e.e = "unstable" -> <<k, "INFRA: no stable state reached">>
    [] OTHER -> Fold(c, k + 1, s)

JudgeOK == LET c == Cases[i]
               r == IF On({"C06"}) /\ c.twice # <<>> THEN <<1, "C06: a task object counted more than one Start() call">>
                    ELSE IF On({"C07"}) /\ c.ghosts > 0 THEN <<1, "C07: a task of an earlier lane was started after that lane's Wait had returned (by a lane created later)">>
                    ELSE Fold(c, 1, S0)
           IN r[1] = 0 \/ PrintT(<<"BAD", i, r[1], r[2]>>)
=============================================================================
