SPECIFICATION Spec
CONSTANTS
  N = 3
  Q = 0
  Tasks = {1, 2}
  Lane <- Lane2
  Prod <- Prod2
  Pinned = {}
  Panics <- NoPanics2
  CanCancel = TRUE
  Sharing = TRUE
  OuterCheck = TRUE
  WithStatus = FALSE
INVARIANTS AtMostOnce NoRejectedRun StartedOnlyIfPushed PostCancelReject WaitOnlyWhenQuiet AtMostNRunning NoIdleWhileWaiting CntBounds TypeOK
PROPERTIES NothingAfterWait
CHECK_DEADLOCK FALSE
