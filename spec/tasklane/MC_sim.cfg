SPECIFICATION Spec
CONSTANTS
  N = 3
  Q = 2
  Tasks = {1, 2, 3, 4}
  Lane <- Lane4
  Prod <- Prod4
  Pinned = {}
  Panics <- Panics4
  CanCancel = TRUE
  Sharing = TRUE
  OuterCheck = TRUE
  WithStatus = TRUE
INVARIANTS AtMostOnce NoRejectedRun StartedOnlyIfPushed PostCancelReject WaitOnlyWhenQuiet AtMostNRunning NoIdleWhileWaiting CntBounds TypeOK LastPanicIsOne StatusBounds StatusLast

CHECK_DEADLOCK FALSE
