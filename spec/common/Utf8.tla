---------------------------------- MODULE Utf8 ----------------------------------
(***************************************************************************)
(* UTF-8 as in RFC 3629 (well-formedness table, Unicode 15 Table 3-7) and  *)
(* Go's replacement rule.  Byte strings are tuples of 0..255, code points  *)
(* are integers 0..1114111.                                                *)
(*                                                                         *)
(*   Seq1(s, i)   length (1..4) of the well-formed sequence starting at    *)
(*                s[i], or 0 if s[i] does not start one                    *)
(*   Sanitize(s)  the code points Go (and the statement of C01 / C13)      *)
(*                attribute to s: each well-formed sequence is its scalar, *)
(*                each byte that does not start one is U+FFFD and consumes *)
(*                exactly that ONE byte                                    *)
(*   Encode(cp)   the UTF-8 encoding of a scalar value                     *)
(***************************************************************************)
EXTENDS Integers, Sequences

RuneError == 65533        \* U+FFFD

Cont(b) == b \in 128..191
At(s, i) == IF i <= Len(s) THEN s[i] ELSE 0 - 1

\* length of the well-formed sequence at s[i], 0 if none
Seq1(s, i) ==
  LET b0 == At(s, i)  b1 == At(s, i + 1)  b2 == At(s, i + 2)  b3 == At(s, i + 3) IN
  IF b0 \in 0..127 THEN 1
  ELSE IF b0 \in 194..223 /\ Cont(b1) THEN 2
  ELSE IF b0 = 224 /\ b1 \in 160..191 /\ Cont(b2) THEN 3
  ELSE IF b0 \in 225..236 /\ Cont(b1) /\ Cont(b2) THEN 3
  ELSE IF b0 = 237 /\ b1 \in 128..159 /\ Cont(b2) THEN 3            \* no surrogates
  ELSE IF b0 \in 238..239 /\ Cont(b1) /\ Cont(b2) THEN 3
  ELSE IF b0 = 240 /\ b1 \in 144..191 /\ Cont(b2) /\ Cont(b3) THEN 4
  ELSE IF b0 \in 241..243 /\ Cont(b1) /\ Cont(b2) /\ Cont(b3) THEN 4
  ELSE IF b0 = 244 /\ b1 \in 128..143 /\ Cont(b2) /\ Cont(b3) THEN 4  \* up to U+10FFFF
  ELSE 0

\* scalar value of the well-formed sequence of length n at s[i]
Scalar(s, i, n) ==
  CASE n = 1 -> s[i]
    [] n = 2 -> (s[i] - 192) * 64 + (s[i + 1] - 128)
    [] n = 3 -> (s[i] - 224) * 4096 + (s[i + 1] - 128) * 64 + (s[i + 2] - 128)
    [] n = 4 -> (s[i] - 240) * 262144 + (s[i + 1] - 128) * 4096 + (s[i + 2] - 128) * 64 + (s[i + 3] - 128)

RECURSIVE SanitizeFrom(_, _)
SanitizeFrom(s, i) ==
  IF i > Len(s) THEN <<>>
  ELSE LET n == Seq1(s, i) IN
       IF n = 0 THEN <<RuneError>> \o SanitizeFrom(s, i + 1)
       ELSE <<Scalar(s, i, n)>> \o SanitizeFrom(s, i + n)
Sanitize(s) == SanitizeFrom(s, 1)

RECURSIVE ValidFrom(_, _)
ValidFrom(s, i) == IF i > Len(s) THEN TRUE ELSE LET n == Seq1(s, i) IN n # 0 /\ ValidFrom(s, i + n)
ValidUtf8(s) == ValidFrom(s, 1)

IsScalar(cp) == cp \in 0..55295 \/ cp \in 57344..1114111
Encode(cp) ==
  IF cp < 128 THEN <<cp>>
  ELSE IF cp < 2048 THEN <<192 + (cp \div 64), 128 + (cp % 64)>>
  ELSE IF cp < 65536 THEN <<224 + (cp \div 4096), 128 + ((cp \div 64) % 64), 128 + (cp % 64)>>
  ELSE <<240 + (cp \div 262144), 128 + ((cp \div 4096) % 64), 128 + ((cp \div 64) % 64), 128 + (cp % 64)>>

RECURSIVE EncodeAll(_, _)
EncodeAll(cps, i) == IF i > Len(cps) THEN <<>> ELSE Encode(cps[i]) \o EncodeAll(cps, i + 1)
=============================================================================
