------------------------------- MODULE DaemonRole -------------------------------
(***************************************************************************)
(* Beyond the listed properties: the role dispatch of daemon.Run() and the *)
(* outcomes of daemon.Launch for daemons that do not follow the protocol.  *)
(*                                                                         *)
(* Run(), called in every process of the program (usually from init):      *)
(*   ENV_DAEMON_NAME unset            -> FALSE, nothing runs (the program) *)
(*   set, name registered, flag isLauncher -> the launcher runs,    TRUE   *)
(*   set, name registered, flag isDaemon   -> the handler runs,     TRUE   *)
(*   set, anything else                    -> nothing runs,         TRUE   *)
(* Launch(name), by what the daemon does:                                  *)
(*   calls Done() and keeps running -> nil, pid of a live process          *)
(*   returns without Done(), exit 0 -> nil, pid of a process that is gone  *)
(*   dies (exit status 1) before Done() -> error                           *)
(*   name not registered            -> error (the launcher prints no pid)  *)
(* Register of a name already registered panics.                           *)
(***************************************************************************)
EXTENDS Naturals, Sequences, TLC, Json

RunOutcome(nameSet, registered, flag) ==
  IF ~nameSet THEN [ret |-> FALSE, ran |-> "none"]
  ELSE IF registered /\ flag = "isLauncher" THEN [ret |-> TRUE, ran |-> "launcher"]
  ELSE IF registered /\ flag = "isDaemon" THEN [ret |-> TRUE, ran |-> "handler"]
  ELSE [ret |-> TRUE, ran |-> "none"]

LaunchOutcome(behaviour) ==
  CASE behaviour = "done"   -> [ok |-> TRUE,  alive |-> TRUE]
    [] behaviour = "exit0"  -> [ok |-> TRUE,  alive |-> FALSE]
    [] behaviour = "exit1"  -> [ok |-> FALSE, alive |-> FALSE]
    [] behaviour = "unregistered" -> [ok |-> FALSE, alive |-> FALSE]

Cases == ndJsonDeserialize("cases.ndjson")
VARIABLE i
Init == i \in 1..Len(Cases)
Next == UNCHANGED i
JudgeOK == LET c == Cases[i] IN
  (CASE c.kind = "run" -> LET w == RunOutcome(c.nameset, c.registered, c.flag) IN c.ret = w.ret /\ c.ran = w.ran
     [] c.kind = "launch" -> LET w == LaunchOutcome(c.behaviour) IN c.ok = w.ok /\ (w.ok => c.alive = w.alive)
     [] c.kind = "register" -> c.panicked
  ) \/ PrintT(<<"BAD", i>>)
=============================================================================
