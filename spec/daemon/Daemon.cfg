SPECIFICATION Spec
CONSTANT NotifyFirst = TRUE
INVARIANTS ReturnsOnlyAfterDone NeverFailsForRunningDaemon OrphanedOnReturn
PROPERTY EventuallyReturns
CHECK_DEADLOCK FALSE
