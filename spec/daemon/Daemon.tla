--------------------------------- MODULE Daemon ---------------------------------
(***************************************************************************)
(* C20 - daemon.Launch returns the daemon's pid, after Done(), with the    *)
(* daemon orphaned.  Three processes per launch:                           *)
(*   caller   : Launch() = start the launcher, wait for it to exit, read   *)
(*              the pid it printed; non-zero exit or stderr output = error *)
(*   launcher : (install SIGINT handler) start the daemon, print its pid,  *)
(*              wait for the signal (or the daemon's death), exit          *)
(*   daemon   : boot, do its work (marker), Done() = SIGINT to its parent, *)
(*              keep serving.                                              *)
(* A SIGINT delivered to a process that has not installed a handler kills  *)
(* it (default action).  NotifyFirst says whether the launcher installs    *)
(* the handler before starting the daemon (repaired code) or after (pinned *)
(* design) - the same module describes both.                               *)
(***************************************************************************)
EXTENDS Naturals, TLC

CONSTANT NotifyFirst

VARIABLES lpc,       \* launcher: "init" | "started" | "printed" | "waiting" | "exited" | "killed"
          handler,   \* launcher has its SIGINT handler installed
          sig,       \* a SIGINT is queued for the launcher
          dpc,       \* daemon: "none" | "boot" | "marked" | "done" (Done() called, serving)
          cres,      \* caller: "waiting" | "ok" | "err"
          orphan     \* the daemon's parent is gone
vars == <<lpc, handler, sig, dpc, cres, orphan>>

Init == lpc = "init" /\ handler = FALSE /\ sig = FALSE /\ dpc = "none" /\ cres = "waiting" /\ orphan = FALSE

Notify == /\ ~handler /\ (IF NotifyFirst THEN lpc = "init" ELSE lpc = "printed")
          /\ handler' = TRUE /\ UNCHANGED <<lpc, sig, dpc, cres, orphan>>
StartDaemon == /\ lpc = "init" /\ (NotifyFirst => handler)
               /\ lpc' = "started" /\ dpc' = "boot" /\ UNCHANGED <<handler, sig, cres, orphan>>
PrintPid == /\ lpc = "started" /\ lpc' = "printed" /\ UNCHANGED <<handler, sig, dpc, cres, orphan>>
\* the verification pause point sits here: the launcher may be arbitrarily slow between PrintPid and Wait
Wait == /\ lpc = "printed" /\ handler /\ lpc' = "waiting" /\ UNCHANGED <<handler, sig, dpc, cres, orphan>>
OnSignal == /\ lpc = "waiting" /\ sig /\ lpc' = "exited" /\ orphan' = TRUE /\ UNCHANGED <<handler, sig, dpc, cres>>

Boot == /\ dpc = "boot" /\ dpc' = "marked" /\ UNCHANGED <<lpc, handler, sig, cres, orphan>>
\* Done(): SIGINT to the parent; queued if it listens, deadly if it does not (yet)
Done == /\ dpc = "marked" /\ dpc' = "done"
        /\ IF lpc \in {"exited", "killed"} THEN UNCHANGED <<lpc, sig, orphan>>
           ELSE IF handler THEN sig' = TRUE /\ UNCHANGED <<lpc, orphan>>
           ELSE lpc' = "killed" /\ orphan' = TRUE /\ UNCHANGED sig
        /\ UNCHANGED <<handler, cres>>

CallerSees == /\ cres = "waiting" /\ lpc \in {"exited", "killed"}
              /\ cres' = IF lpc = "exited" THEN "ok" ELSE "err"
              /\ UNCHANGED <<lpc, handler, sig, dpc, orphan>>
Next == Notify \/ StartDaemon \/ PrintPid \/ Wait \/ OnSignal \/ Boot \/ Done \/ CallerSees
Spec == Init /\ [][Next]_vars /\ WF_vars(Next)

-----------------------------------------------------------------------------
ReturnsOnlyAfterDone == cres = "ok" => dpc = "done"
NeverFailsForRunningDaemon == cres # "err"
OrphanedOnReturn == cres # "waiting" => orphan
EventuallyReturns == (dpc = "done") ~> (cres = "ok")
=============================================================================
