------------------------------- MODULE DaemonCases -------------------------------
(* Judge of event files recorded from real daemon.Launch runs (harness/cmd/daemonh).  Events of all
   processes are lines appended to one O_APPEND file, so the file order is a total order:
     begin(name, k)              the caller calls Launch(name) (k-th concurrent call)
     started(name, pid)          the handler `name` began to run in the daemon process
     marker(name, pid, ppid)     the daemon running handler `name` did its pre-Done work
     donebegin(pid) / doneend(pid)   the daemon calls / has returned from Done()
     ret(name, k, pid, ok)       Launch returned (ok = nil error)
     obs(name, k, pid, alive, ppid, launchergone, callerpid)   after the caller exited
     hang(name, k)               Launch had not returned long after Done()
   Statement (Daemon.tla): ReturnsOnlyAfterDone, NeverFailsForRunningDaemon, right pid, daemon alive and
   orphaned, launcher gone, EventuallyReturns. *)
EXTENDS Naturals, Sequences, FiniteSets, TLC, Json
Cases == ndJsonDeserialize("cases.ndjson")
VARIABLE i
Init == i \in 1..Len(Cases)
Next == UNCHANGED i

RECURSIVE Fold(_, _, _, _, _)
\* marked: set of <<name, pid>> with the marker written; done: pids whose Done() began;
\* begun: names whose handler has started running (the harness' handlers always go on to call Done(), however late)
Fold(evs, k, marked, done, begun) ==
  IF k > Len(evs) THEN <<0, "">>
  ELSE LET e == evs[k] IN
  CASE e.e = "marker" -> Fold(evs, k + 1, marked \cup {<<e.name, e.pid>>}, done, begun)
    [] e.e = "started" -> Fold(evs, k + 1, marked, done, begun \cup {e.name})
    [] e.e = "donebegin" -> Fold(evs, k + 1, marked, done \cup {e.pid}, begun)
    [] e.e = "ret" ->
         IF ~e.ok /\ \E m \in marked : m[1] = e.name /\ m[2] \in done
            THEN <<k, "Launch returned an error although the daemon started up and called Done()">>
         ELSE IF ~e.ok /\ e.name \in begun
            THEN <<k, "Launch returned an error although the handler had started up and was on its way to Done() (however slowly)">>
         ELSE IF e.ok /\ e.pid \notin done THEN <<k, "Launch returned before the daemon with the returned pid called Done()">>
         ELSE IF e.ok /\ <<e.name, e.pid>> \notin marked THEN <<k, "Launch returned a pid that is not the process running the handler of that name">>
         ELSE Fold(evs, k + 1, marked, done, begun)
    [] e.e = "obs" ->
         IF ~e.alive THEN <<k, "the daemon is not running after Launch returned and the caller exited">>
         ELSE IF e.ppid = e.callerpid THEN <<k, "the daemon is still a child of the caller">>
         ELSE IF ~e.launchergone THEN <<k, "the intermediate launcher is still there">>
         ELSE Fold(evs, k + 1, marked, done, begun)
    [] e.e = "hang" -> <<k, "Launch did not return although the daemon called Done()">>
    [] OTHER -> Fold(evs, k + 1, marked, done, begun)
JudgeOK == LET r == Fold(Cases[i].evs, 1, {}, {}, {}) IN r[1] = 0 \/ PrintT(<<"BAD", i, r[1], r[2]>>)
=============================================================================
