------------------------------- MODULE SeekRead -------------------------------
(***************************************************************************)
(* Beyond the listed properties: ioutil.SeekAndReadAll ("reload file       *)
(* content without reopen the file") as a machine over one open file:      *)
(*   state: content (what the file holds now), pos (offset of the handle)  *)
(*   Append(bs), Rewrite(bs)   somebody else changes the file              *)
(*   Read(k)                   the holder of the handle reads k bytes      *)
(*   SeekTo(p)                 ... or moves the offset                     *)
(*   Reload                    SeekAndReadAll: returns ALL of content,     *)
(*                             wherever the offset was; afterwards the     *)
(*                             offset is at the end                        *)
(* The judge folds a recorded history; every Reload result and every       *)
(* offset reported after a step must be the machine's.                     *)
(***************************************************************************)
EXTENDS Naturals, Sequences, TLC, Json
Cases == ndJsonDeserialize("cases.ndjson")
VARIABLE i
Init == i \in 1..Len(Cases)
Next == UNCHANGED i

Min(a, b) == IF a < b THEN a ELSE b
Step(st, op) ==
  CASE op.op = "append"  -> [st EXCEPT !.content = @ \o op.bytes]
    [] op.op = "rewrite" -> [st EXCEPT !.content = op.bytes]
    [] op.op = "read"    -> [st EXCEPT !.pos = IF st.pos >= Len(st.content) THEN st.pos ELSE Min(Len(st.content), st.pos + op.k)]
    [] op.op = "seek"    -> [st EXCEPT !.pos = op.k]
    [] op.op = "reload"  -> [st EXCEPT !.pos = Len(st.content)]

RECURSIVE Fold(_, _, _)
Fold(ops, k, st) ==
  IF k > Len(ops) THEN 0
  ELSE LET op == ops[k]
           nx == Step(st, op) IN
       IF op.op = "reload" /\ (op.err \/ op.got # st.content) THEN k
       ELSE IF op.op \in {"reload", "seek"} /\ op.posafter # nx.pos THEN k
       ELSE Fold(ops, k + 1, nx)
JudgeOK == LET r == Fold(Cases[i].ops, 1, [content |-> <<>>, pos |-> 0]) IN r = 0 \/ PrintT(<<"BAD", i, r>>)
=============================================================================
