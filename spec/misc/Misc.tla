---------------------------------- MODULE Misc ----------------------------------
(***************************************************************************)
(* Beyond the listed properties: small helpers with a sequential meaning.  *)
(*                                                                         *)
(* ReadRand(r, buf): fills buf with the bytes of successive 64-bit draws   *)
(*   from r, least significant byte first, drawing only when the previous  *)
(*   draw is used up: byte n of the buffer is byte (n mod 8) of draw       *)
(*   (n div 8); exactly ceil(len/8) draws are made; the call reports       *)
(*   len(buf) and no error.  Draws travel as 8-byte tuples (LSB first) so  *)
(*   no 64-bit arithmetic is needed.                                       *)
(*                                                                         *)
(* ansi.ScrollUpN / ScrollDownN / SetCursorPos: the text they return, read *)
(*   by a VT100 reader (ESC M = reverse index, ESC D = index,              *)
(*   ESC [ row ; col H = cursor position), is n indexes (none for n <= 0)  *)
(*   resp. one cursor position with both coordinates clamped to >= 1.      *)
(*                                                                         *)
(* strutil.SliceContain(slice, v): membership.                             *)
(***************************************************************************)
EXTENDS Integers, Sequences, TLC, Json

RandByte(draws, n) == draws[(n \div 8) + 1][(n % 8) + 1]            \* n is 0-based
RandFill(draws, len) == [n \in 1..len |-> RandByte(draws, n - 1)]
DrawsNeeded(len) == (len + 7) \div 8

ESC == 27
\* VT100 reader: sequence of ops <<"RI">>, <<"IND">>, <<"CUP", row, col>>, or BadOp for anything else
BadOp == <<"BAD">>
RECURSIVE NumEnd(_, _)
NumEnd(s, i) == IF i <= Len(s) /\ s[i] \in 48..57 THEN NumEnd(s, i + 1) ELSE i
RECURSIVE NumVal(_, _, _, _)
NumVal(s, i, e, acc) == IF i >= e THEN acc ELSE NumVal(s, i + 1, e, acc * 10 + (s[i] - 48))
RECURSIVE Ops(_, _)
Ops(s, i) ==
  IF i > Len(s) THEN <<>>
  ELSE IF s[i] # ESC \/ i + 1 > Len(s) THEN <<BadOp>>
  ELSE IF s[i + 1] = 77 THEN <<<<"RI">>>> \o Ops(s, i + 2)
  ELSE IF s[i + 1] = 68 THEN <<<<"IND">>>> \o Ops(s, i + 2)
  ELSE IF s[i + 1] = 91 THEN
       LET e1 == NumEnd(s, i + 2) IN
       IF e1 = i + 2 \/ e1 > Len(s) \/ s[e1] # 59 THEN <<BadOp>>
       ELSE LET e2 == NumEnd(s, e1 + 1) IN
            IF e2 = e1 + 1 \/ e2 > Len(s) \/ s[e2] # 72 THEN <<BadOp>>
            ELSE <<<<"CUP", NumVal(s, i + 2, e1, 0), NumVal(s, e1 + 1, e2, 0)>>>> \o Ops(s, e2 + 1)
  ELSE <<BadOp>>
RECURSIVE Rep(_, _)
Rep(op, n) == IF n <= 0 THEN <<>> ELSE <<op>> \o Rep(op, n - 1)
Clamp1(x) == IF x < 1 THEN 1 ELSE x

Member(slice, v) == \E k \in 1..Len(slice) : slice[k] = v

Cases == ndJsonDeserialize("cases.ndjson")
VARIABLE i
Init == i \in 1..Len(Cases)
Next == UNCHANGED i
JudgeOK == LET c == Cases[i] IN
  (CASE c.kind = "readrand" -> /\ c.n = c.len /\ c.errnil /\ c.drawn = DrawsNeeded(c.len)
                               /\ c.buf = RandFill(c.draws, c.len) /\ c.tailkept
     [] c.kind = "scrollup" -> Ops(c.out, 1) = Rep(<<"RI">>, c.a)
     [] c.kind = "scrolldown" -> Ops(c.out, 1) = Rep(<<"IND">>, c.a)
     [] c.kind = "cursor" -> Ops(c.out, 1) = <<<<"CUP", Clamp1(c.a), Clamp1(c.b)>>>>
     [] c.kind = "contain" -> c.r = Member(c.slice, c.v)
  ) \/ PrintT(<<"BAD", i>>)
=============================================================================
