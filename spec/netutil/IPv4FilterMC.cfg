SPECIFICATION Spec
CONSTANTS
  W = 3
  ListSize = 2
  RecordHist = FALSE
  MaxHist = 0
  Mutant = "none"
INVARIANT Refines
CHECK_DEADLOCK FALSE
