-------------------------- MODULE IPv4FilterConcCases --------------------------
(* Judge of traces recorded from the real IPv4Filter under concurrency
   (harness/cmd/ipconc).  A trace is the list of events in the order of a global atomic
   sequence number taken at emission:
     wb / we : a writer's Add / Remove call begins / has returned   (op, c = canonical prefix bits)
     rb / re : a reader's Contains call begins / has returned        (ip = 32 bits; re carries res)
   The fold keeps exactly the statement-layer bookkeeping of IPv4FilterConc.tla
   (def / pos per range, stable / poss per lookup in flight) and checks at every "re":
       some stable range covers ip  =>  res        and        res  =>  some poss range covers ip. *)
EXTENDS IPv4Filter, Json
Cases == ndJsonDeserialize("cases.ndjson")
VARIABLE i
Init == i \in 1..Len(Cases)
Next == UNCHANGED i

\* some range of S is a prefix of ip (33 membership tests instead of a scan of S)
Cover(S, ip) == \E l \in 0..Len(ip) : SubSeq(ip, 1, l) \in S

\* Conformance to the lock protocol (implementation-shaped, not a verdict): "lp" events are emitted inside the
\* critical sections, so their order is the order in which the filter's lock-protected state was read and
\* written.  LinFold replays the updates at their lp and predicts every lookup at its lp; a lookup that
\* neither equals the prediction nor is explained by the lock-free match-all flag is reported as DRIFT.
RECURSIVE LinFold(_, _, _, _, _, _)
\* lin: set of ranges by lp order; cur: writer -> its operation in flight; want: reader -> predicted result;
\* flagMaybe: reader -> the match-all flag was possibly set at some instant of its call
LinFold(evs, k, lin, cur, want, flagMaybe) ==
  IF k > Len(evs) THEN 0
  ELSE LET e == evs[k] IN
    CASE e.k = "wb" -> LinFold(evs, k + 1, lin, (e.p :> [op |-> e.op, c |-> e.c]) @@ cur, want,
                               IF e.c = <<>> THEN [r \in DOMAIN flagMaybe |-> TRUE] ELSE flagMaybe)
      [] e.k = "lp" /\ e.p \in DOMAIN cur /\ e.p >= 99 ->
           LinFold(evs, k + 1, IF cur[e.p].op = "add" THEN lin \cup {cur[e.p].c} ELSE lin \ {cur[e.p].c}, cur, want, flagMaybe)
      [] e.k = "rb" -> LinFold(evs, k + 1, lin, cur, (e.p :> [ip |-> e.ip, res |-> "none"]) @@ want,
                               (e.p :> (<<>> \in lin \/ \E w \in DOMAIN cur : cur[w].c = <<>>)) @@ flagMaybe)
      [] e.k = "lp" /\ e.p \in DOMAIN want /\ e.p < 99 ->
           LinFold(evs, k + 1, lin, cur, [want EXCEPT ![e.p].res = IF Cover(lin \ {<<>>}, want[e.p].ip) THEN "t" ELSE "f"], flagMaybe)
      [] e.k = "re" /\ e.p \in DOMAIN want ->
           IF want[e.p].res = "none" THEN LinFold(evs, k + 1, lin, cur, want, flagMaybe)      \* answered by the flag, no lock taken
           ELSE IF (want[e.p].res = "t") = e.res \/ flagMaybe[e.p] THEN LinFold(evs, k + 1, lin, cur, want, flagMaybe)
           ELSE k
      [] e.k = "bulk" -> LinFold(evs, k + 1, lin \cup {e.cs[j] : j \in 1..Len(e.cs)}, cur, want, flagMaybe)
      [] OTHER -> LinFold(evs, k + 1, lin, cur, want, flagMaybe)

RECURSIVE Fold(_, _, _, _, _, _, _)
\* act = set of readers in flight; stable / poss: functions reader -> set of ranges
Fold(evs, k, def, pos, act, stable, poss) ==
  IF k > Len(evs) THEN 0
  ELSE LET e == evs[k] IN
    CASE e.k = "wb" /\ e.op = "add" ->
           Fold(evs, k + 1, def, pos \cup {e.c}, act, stable, [r \in DOMAIN poss |-> IF r \in act THEN poss[r] \cup {e.c} ELSE poss[r]])
      [] e.k = "wb" /\ e.op = "remove" ->
           Fold(evs, k + 1, def \ {e.c}, pos, act, [r \in DOMAIN stable |-> stable[r] \ {e.c}], poss)
      [] e.k = "we" /\ e.op = "add"    -> IF e.err THEN k ELSE Fold(evs, k + 1, def \cup {e.c}, pos, act, stable, poss)
      [] e.k = "we" /\ e.op = "remove" -> IF e.err THEN k ELSE Fold(evs, k + 1, def, pos \ {e.c}, act, stable, poss)
      [] e.k = "rb" ->
           Fold(evs, k + 1, def, pos, act \cup {e.p}, (e.p :> def) @@ stable, (e.p :> pos) @@ poss)
      [] e.k = "re" ->
           IF Cover(stable[e.p], e.ip) /\ ~e.res THEN k
           ELSE IF e.res /\ ~Cover(poss[e.p], e.ip) THEN k
           ELSE Fold(evs, k + 1, def, pos, act \ {e.p}, stable, poss)
      [] e.k = "crash" -> k                 \* a goroutine of the run crashed inside the filter
      [] e.k = "stuck" -> k                 \* calls of the filter stopped returning (deadlock)
      [] e.k = "bulk" ->                    \* ranges added one after the other before anything else runs
           LET S == {e.cs[j] : j \in 1..Len(e.cs)} IN Fold(evs, k + 1, def \cup S, pos \cup S, act, stable, poss)
      [] OTHER -> Fold(evs, k + 1, def, pos, act, stable, poss)
JudgeOK == LET r == Fold(Cases[i].evs, 1, {}, {}, {}, <<>>, <<>>)
               d == LinFold(Cases[i].evs, 1, {}, <<>>, <<>>, <<>>)
           IN (r = 0 \/ PrintT(<<"BAD", i, r>>)) /\ (d = 0 \/ PrintT(<<"DRIFT", i, d>>))
=============================================================================
