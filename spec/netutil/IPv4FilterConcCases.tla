-------------------------- MODULE IPv4FilterConcCases --------------------------
(* Judge of traces recorded from the real IPv4Filter under concurrency
   (harness/cmd/ipconc).  A trace is the list of events in the order of a global atomic
   sequence number taken at emission:
     wb / we : a writer's Add / Remove call begins / has returned   (op, c = canonical prefix bits)
     rb / re : a reader's Contains call begins / has returned        (ip = 32 bits; re carries res)
   The fold keeps exactly the statement-layer bookkeeping of IPv4FilterConc.tla
   (def / pos per range, stable / poss per lookup in flight) and checks at every "re":
       some stable range covers ip  =>  res        and        res  =>  some poss range covers ip. *)
EXTENDS IPv4Filter, Json
Cases == ndJsonDeserialize("cases.ndjson")
VARIABLE i
Init == i \in 1..Len(Cases)
Next == UNCHANGED i

\* some range of S is a prefix of ip (33 membership tests instead of a scan of S)
Cover(S, ip) == \E l \in 0..Len(ip) : SubSeq(ip, 1, l) \in S

RECURSIVE Fold(_, _, _, _, _, _, _)
\* act = set of readers in flight; stable / poss: functions reader -> set of ranges
Fold(evs, k, def, pos, act, stable, poss) ==
  IF k > Len(evs) THEN 0
  ELSE LET e == evs[k] IN
    CASE e.k = "wb" /\ e.op = "add" ->
           Fold(evs, k + 1, def, pos \cup {e.c}, act, stable, [r \in DOMAIN poss |-> IF r \in act THEN poss[r] \cup {e.c} ELSE poss[r]])
      [] e.k = "wb" /\ e.op = "remove" ->
           Fold(evs, k + 1, def \ {e.c}, pos, act, [r \in DOMAIN stable |-> stable[r] \ {e.c}], poss)
      [] e.k = "we" /\ e.op = "add"    -> IF e.err THEN k ELSE Fold(evs, k + 1, def \cup {e.c}, pos, act, stable, poss)
      [] e.k = "we" /\ e.op = "remove" -> IF e.err THEN k ELSE Fold(evs, k + 1, def, pos \ {e.c}, act, stable, poss)
      [] e.k = "rb" ->
           Fold(evs, k + 1, def, pos, act \cup {e.p}, (e.p :> def) @@ stable, (e.p :> pos) @@ poss)
      [] e.k = "re" ->
           IF Cover(stable[e.p], e.ip) /\ ~e.res THEN k
           ELSE IF e.res /\ ~Cover(poss[e.p], e.ip) THEN k
           ELSE Fold(evs, k + 1, def, pos, act \ {e.p}, stable, poss)
      [] e.k = "crash" -> k                 \* a goroutine of the run crashed inside the filter
      [] OTHER -> Fold(evs, k + 1, def, pos, act, stable, poss)
JudgeOK == LET r == Fold(Cases[i].evs, 1, {}, {}, {}, <<>>, <<>>) IN r = 0 \/ PrintT(<<"BAD", i, r>>)
=============================================================================
