---------------------------- MODULE IPv4FilterConc ----------------------------
(***************************************************************************)
(* C12 - IPv4Filter under concurrent updates and lookups.                  *)
(*                                                                         *)
(* Writers (each owning its own CIDRs) run fixed programs of Add / Remove;  *)
(* readers call Contains.  Implementation-shaped: the RWMutex is explicit,  *)
(* Add / Remove bodies run under the write lock, the list-to-maps migration *)
(* is several steps inside that critical section (mode switched first, maps *)
(* filled slot by slot), Contains reads the match-all flag atomically and   *)
(* then scans under the read lock.  UseLock = FALSE removes the reader's    *)
(* lock (non-vacuity: the invariant must then fail).                        *)
(*                                                                         *)
(* Statement layer = interval bookkeeping.  For every range:                *)
(*   def[c]  - definitely present: an Add of c has returned and no Remove   *)
(*             of c has begun since;                                        *)
(*   pos[c]  - possibly present: an Add of c has begun and no Remove of c   *)
(*             has returned since.                                          *)
(* For a lookup in flight: stable = ranges definitely present during the    *)
(* whole call so far, poss = ranges possibly present at some instant of it. *)
(* At return:  (some stable range covers ip) => result                      *)
(*             result => (some poss range covers ip).                       *)
(***************************************************************************)
EXTENDS IPv4Filter

CONSTANTS Writers, Readers, Prog, UseLock, MaxCalls
\* Prog[w] = sequence of [op |-> "add"/"remove", c |-> prefix tuple (<<>> = 0.0.0.0/0)]

Cover(S, ip) == \E c \in S : IsPrefixOf(c, ip)
Addrs == [1..W -> {0, 1}]

VARIABLES f,            \* implementation state (IPv4Filter.tla), maps possibly half-filled
          mig,          \* next list slot to copy during a migration (0 = not migrating)
          wlock, rlocks,\* RWMutex: writer holding it (or "none"), set of readers holding it
          wpc, wi,      \* writer program counter and index of its current operation
          rpc, rip, rres, rcalls,
          def, pos, stable, poss,
          verdict       \* per reader: result of the last finished call vs. its obligations
vars == <<f, mig, wlock, rlocks, wpc, wi, rpc, rip, rres, rcalls, def, pos, stable, poss, verdict>>

Init ==
  /\ f = ImplInit /\ mig = 0 /\ wlock = "none" /\ rlocks = {}
  /\ wpc = [w \in Writers |-> "idle"] /\ wi = [w \in Writers |-> 1]
  /\ rpc = [r \in Readers |-> "idle"] /\ rip = [r \in Readers |-> <<>>] /\ rres = [r \in Readers |-> FALSE]
  /\ rcalls = [r \in Readers |-> 0]
  /\ def = {} /\ pos = {} /\ stable = [r \in Readers |-> {}] /\ poss = [r \in Readers |-> {}]
  /\ verdict = [r \in Readers |-> "ok"]

Op(w) == Prog[w][wi[w]]
Active == {r \in Readers : rpc[r] # "idle"}

\* ---- writers
WBegin(w) ==
  /\ wpc[w] = "idle" /\ wi[w] <= Len(Prog[w])
  /\ IF Op(w).op = "add"
     THEN /\ pos' = pos \cup {Op(w).c}
          /\ poss' = [r \in Readers |-> IF r \in Active THEN poss[r] \cup {Op(w).c} ELSE poss[r]]
          /\ UNCHANGED <<def, stable>>
     ELSE /\ def' = def \ {Op(w).c}
          /\ stable' = [r \in Readers |-> stable[r] \ {Op(w).c}]
          /\ UNCHANGED <<pos, poss>>
  /\ wpc' = [wpc EXCEPT ![w] = IF Op(w).c = <<>> THEN "flag" ELSE "lock"]
  /\ UNCHANGED <<f, mig, wlock, rlocks, wi, rpc, rip, rres, rcalls, verdict>>
\* 0.0.0.0/0: one atomic store, no lock
WFlag(w) ==
  /\ wpc[w] = "flag"
  /\ f' = [f EXCEPT !.all = (Op(w).op = "add")]
  /\ wpc' = [wpc EXCEPT ![w] = "end"]
  /\ UNCHANGED <<mig, wlock, rlocks, wi, rpc, rip, rres, rcalls, def, pos, stable, poss, verdict>>
WLock(w) ==
  /\ wpc[w] = "lock" /\ wlock = "none" /\ rlocks = {}
  /\ wlock' = w /\ wpc' = [wpc EXCEPT ![w] = "body"]
  /\ UNCHANGED <<f, mig, rlocks, wi, rpc, rip, rres, rcalls, def, pos, stable, poss, verdict>>
WBody(w) ==
  /\ wpc[w] = "body"
  /\ LET c == Op(w).c IN
     IF Op(w).op = "add" /\ f.mode = "list" /\ f.index >= ListSize
     THEN \* migration, first step: the mode is switched and the maps are made (empty)
          /\ f' = [f EXCEPT !.mode = "maps", !.maps = [l \in 1..W |-> {}]]
          /\ mig' = 1 /\ wpc' = [wpc EXCEPT ![w] = "migrate"]
     ELSE /\ f' = IF Op(w).op = "add" THEN ImplAdd(f, c \o [k \in 1..(W - Len(c)) |-> 0], Len(c))
                                      ELSE ImplRemove(f, c \o [k \in 1..(W - Len(c)) |-> 0], Len(c))
          /\ mig' = 0 /\ wpc' = [wpc EXCEPT ![w] = "unlock"]
  /\ UNCHANGED <<wlock, rlocks, wi, rpc, rip, rres, rcalls, def, pos, stable, poss, verdict>>
WMigrate(w) ==
  /\ wpc[w] = "migrate"
  /\ IF mig <= f.index
     THEN /\ f' = IF f.list[mig] # Tomb THEN [f EXCEPT !.maps[Len(f.list[mig])] = @ \cup {f.list[mig]}] ELSE f
          /\ mig' = mig + 1 /\ UNCHANGED wpc
     ELSE /\ f' = [f EXCEPT !.maps[Len(Op(w).c)] = @ \cup {Op(w).c}]
          /\ mig' = 0 /\ wpc' = [wpc EXCEPT ![w] = "unlock"]
  /\ UNCHANGED <<wlock, rlocks, wi, rpc, rip, rres, rcalls, def, pos, stable, poss, verdict>>
WUnlock(w) ==
  /\ wpc[w] = "unlock" /\ wlock' = "none" /\ wpc' = [wpc EXCEPT ![w] = "end"]
  /\ UNCHANGED <<f, mig, rlocks, wi, rpc, rip, rres, rcalls, def, pos, stable, poss, verdict>>
WEnd(w) ==
  /\ wpc[w] = "end"
  /\ IF Op(w).op = "add" THEN def' = def \cup {Op(w).c} /\ UNCHANGED pos
                         ELSE pos' = pos \ {Op(w).c} /\ UNCHANGED def
  /\ wpc' = [wpc EXCEPT ![w] = "idle"] /\ wi' = [wi EXCEPT ![w] = @ + 1]
  /\ UNCHANGED <<f, mig, wlock, rlocks, rpc, rip, rres, rcalls, stable, poss, verdict>>

\* ---- readers
RBegin(r, ip) ==
  /\ rpc[r] = "idle" /\ rcalls[r] < MaxCalls
  /\ rip' = [rip EXCEPT ![r] = ip] /\ rcalls' = [rcalls EXCEPT ![r] = @ + 1]
  /\ stable' = [stable EXCEPT ![r] = def] /\ poss' = [poss EXCEPT ![r] = pos]
  /\ rpc' = [rpc EXCEPT ![r] = "flag"]
  /\ UNCHANGED <<f, mig, wlock, rlocks, wpc, wi, rres, def, pos, verdict>>
RFlag(r) ==
  /\ rpc[r] = "flag"
  /\ IF f.all THEN rres' = [rres EXCEPT ![r] = TRUE] /\ rpc' = [rpc EXCEPT ![r] = "end"]
              ELSE UNCHANGED rres /\ rpc' = [rpc EXCEPT ![r] = "rlock"]
  /\ UNCHANGED <<f, mig, wlock, rlocks, wpc, wi, rip, rcalls, def, pos, stable, poss, verdict>>
RLock(r) ==
  /\ rpc[r] = "rlock" /\ (UseLock => wlock = "none")
  /\ rlocks' = IF UseLock THEN rlocks \cup {r} ELSE rlocks
  /\ rpc' = [rpc EXCEPT ![r] = "scan"]
  /\ UNCHANGED <<f, mig, wlock, wpc, wi, rip, rres, rcalls, def, pos, stable, poss, verdict>>
RScan(r) ==
  /\ rpc[r] = "scan"
  /\ rres' = [rres EXCEPT ![r] =
       IF f.mode = "list" THEN \E k \in 1..f.index : f.list[k] # Tomb /\ IsPrefixOf(f.list[k], rip[r])
                          ELSE \E l \in 1..W : Canon(rip[r], l) \in f.maps[l]]
  /\ rlocks' = rlocks \ {r} /\ rpc' = [rpc EXCEPT ![r] = "end"]
  /\ UNCHANGED <<f, mig, wlock, wpc, wi, rip, rcalls, def, pos, stable, poss, verdict>>
REnd(r) ==
  /\ rpc[r] = "end"
  /\ verdict' = [verdict EXCEPT ![r] =
       IF Cover(stable[r], rip[r]) /\ ~rres[r] THEN "missed a range present during the whole call"
       ELSE IF rres[r] /\ ~Cover(poss[r], rip[r]) THEN "reported an address no present range covers"
       ELSE "ok"]
  /\ rpc' = [rpc EXCEPT ![r] = "idle"]
  /\ UNCHANGED <<f, mig, wlock, rlocks, wpc, wi, rip, rres, rcalls, def, pos, stable, poss>>

Next == \/ \E w \in Writers : WBegin(w) \/ WFlag(w) \/ WLock(w) \/ WBody(w) \/ WMigrate(w) \/ WUnlock(w) \/ WEnd(w)
        \/ \E r \in Readers : (\E ip \in Addrs : RBegin(r, ip)) \/ RFlag(r) \/ RLock(r) \/ RScan(r) \/ REnd(r)
Spec == Init /\ [][Next]_vars

IntervalConsistent == \A r \in Readers : verdict[r] = "ok"
\* once updates stop the filter agrees with the set obtained from the programs
Quiesced == (\A w \in Writers : wpc[w] = "idle" /\ wi[w] > Len(Prog[w])) =>
              (def = pos /\ \A ip \in Addrs : ImplContains(f, ip) = Cover(def, ip))
MutualExclusion == wlock # "none" => rlocks = {}
=============================================================================
