------------------------------ MODULE IPv4Filter ------------------------------
(***************************************************************************)
(* C11 - netutil.IPv4Filter answers membership exactly as the set of CIDRs *)
(* added and not removed.                                                  *)
(*                                                                         *)
(* An address is a tuple of W bits (most significant first); a CIDR is the *)
(* tuple of its first `len` bits (canonicalisation = truncation), so       *)
(* "ip lies inside c" is simply "c is a prefix of ip".  W = 32 is the real *)
(* thing; small W gives a finite universe TLC can exhaust.                 *)
(*                                                                         *)
(* Statement layer: abs = [all, set] - the match-all flag and the set of   *)
(* prefixes added and not since removed.                                   *)
(* Implementation-shaped layer: impl = [all, mode, index, list, maps] as   *)
(* in filter.go: a list of ListSize slots with tombstones, then - on the   *)
(* first Add that finds the list full - a one-way migration to one set per *)
(* prefix length.                                                          *)
(***************************************************************************)
EXTENDS Naturals, Sequences, FiniteSets, TLC

CONSTANTS W, ListSize

IsPrefixOf(c, ip) == Len(c) <= Len(ip) /\ SubSeq(ip, 1, Len(c)) = c
Canon(ip, len) == SubSeq(ip, 1, len)
Tomb == <<2>>          \* a slot reset to the invalid CIDR (no address has a bit 2)

-----------------------------------------------------------------------------
(* Statement layer.                                                        *)
AbsInit == [all |-> FALSE, set |-> {}]
AbsAdd(a, ip, len)    == IF len = 0 THEN [a EXCEPT !.all = TRUE]  ELSE [a EXCEPT !.set = @ \cup {Canon(ip, len)}]
AbsRemove(a, ip, len) == IF len = 0 THEN [a EXCEPT !.all = FALSE] ELSE [a EXCEPT !.set = @ \ {Canon(ip, len)}]
AbsContains(a, ip) == a.all \/ \E c \in a.set : IsPrefixOf(c, ip)

-----------------------------------------------------------------------------
(* Implementation-shaped layer.                                            *)
ImplInit == [all |-> FALSE, mode |-> "list", index |-> 0, list |-> <<>>, maps |-> [l \in 1..W |-> {}]]

ImplAdd(f, ip, len) ==
  IF len = 0 THEN [f EXCEPT !.all = TRUE]
  ELSE LET c == Canon(ip, len) IN
    IF f.mode = "list" THEN
      IF f.index < ListSize
      THEN [f EXCEPT !.list = Append(@, c), !.index = @ + 1]
      ELSE \* migrate: every live slot goes to the map of its length, then the new entry
           LET live == {f.list[k] : k \in {j \in 1..f.index : f.list[j] # Tomb}} IN
           [f EXCEPT !.mode = "maps",
                     !.maps = [l \in 1..W |-> {x \in live : Len(x) = l} \cup (IF l = len THEN {c} ELSE {})]]
    ELSE [f EXCEPT !.maps[len] = @ \cup {c}]

ImplRemove(f, ip, len) ==
  IF len = 0 THEN [f EXCEPT !.all = FALSE]
  ELSE LET c == Canon(ip, len) IN
    IF f.mode = "list"
    THEN [f EXCEPT !.list = [k \in 1..Len(@) |-> IF @[k] = c THEN Tomb ELSE @[k]]]     \* every duplicate
    ELSE [f EXCEPT !.maps[len] = @ \ {c}]

ImplContains(f, ip) ==
  \/ f.all
  \/ IF f.mode = "list"
     THEN \E k \in 1..f.index : f.list[k] # Tomb /\ IsPrefixOf(f.list[k], ip)
     ELSE \E l \in 1..W : Canon(ip, l) \in f.maps[l]

\* projection used for conformance accounting (VerifState of the real object)
Proj(f) == [maps |-> f.mode = "maps", index |-> f.index, all |-> f.all]
=============================================================================
