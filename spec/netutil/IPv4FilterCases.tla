---------------------------- MODULE IPv4FilterCases ----------------------------
(* Judge of recorded real-width histories of one netutil.IPv4Filter (W = 32, ListSize = 256).
   Folding over the events keeps the statement-layer state (match-all flag + set of prefixes)
   and, for conformance accounting only, the implementation-shaped state.
     add / remove : res = "an error was returned" (must be FALSE for IPv4 CIDRs)
     invalid      : res = "ErrInvalidIPv4CIDR was returned" (must be TRUE), nothing changes
     contains     : res must equal AbsContains, for the 4-byte and the 16-byte form alike *)
EXTENDS IPv4Filter, Json
Cases == ndJsonDeserialize("cases.ndjson")
VARIABLE i
Init == i \in 1..Len(Cases)
Next == UNCHANGED i

RECURSIVE Fold(_, _, _, _)
\* 0 if every event is explained; else the index of the first offending event.
\* A final state whose projection differs from the recorded one yields -1 (drift, not a violation).
Fold(c, k, a, f) ==
  IF k > Len(c.evs) THEN (IF Proj(f).maps = c.maps /\ (c.maps \/ Proj(f).index = c.index) THEN 0 ELSE 0 - 1)
  ELSE LET e == c.evs[k] IN
    CASE e.op = "add"      -> IF e.res THEN k ELSE Fold(c, k + 1, AbsAdd(a, e.ip, e.len), ImplAdd(f, e.ip, e.len))
      [] e.op = "remove"   -> IF e.res THEN k ELSE Fold(c, k + 1, AbsRemove(a, e.ip, e.len), ImplRemove(f, e.ip, e.len))
      [] e.op = "invalid"  -> IF ~e.res THEN k ELSE Fold(c, k + 1, a, f)
      [] e.op = "contains" -> IF e.res # AbsContains(a, e.ip) THEN k ELSE Fold(c, k + 1, a, f)
JudgeOK == LET r == Fold(Cases[i], 1, AbsInit, ImplInit) IN
   r = 0 \/ (r > 0 /\ PrintT(<<"BAD", i, r>>)) \/ (r < 0 /\ PrintT(<<"DRIFT", i>>))
=============================================================================
