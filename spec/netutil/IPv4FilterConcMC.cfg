SPECIFICATION Spec
CONSTANTS
  W = 2
  ListSize = 1
  Writers = {"w1", "w2"}
  Readers = {"r1"}
  Prog <- ProgDef
  UseLock = TRUE
  MaxCalls = 2
INVARIANT IntervalConsistent
INVARIANT Quiesced
INVARIANT MutualExclusion
CHECK_DEADLOCK FALSE
