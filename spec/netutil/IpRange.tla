-------------------------------- MODULE IpRange --------------------------------
(***************************************************************************)
(* Beyond the listed properties: netutil.FirstIP / LastIP of a CIDR, on    *)
(* addresses as bit tuples: the first address keeps the prefix and clears  *)
(* the host bits, the last one sets them.                                  *)
(***************************************************************************)
EXTENDS Integers, Sequences, TLC, Json
FirstIP(ip, len) == [k \in 1..Len(ip) |-> IF k <= len THEN ip[k] ELSE 0]
LastIP(ip, len)  == [k \in 1..Len(ip) |-> IF k <= len THEN ip[k] ELSE 1]
Cases == ndJsonDeserialize("cases.ndjson")
VARIABLE i
Init == i \in 1..Len(Cases)
Next == UNCHANGED i
JudgeOK == LET c == Cases[i] IN (c.first = FirstIP(c.ip, c.len) /\ c.last = LastIP(c.ip, c.len)) \/ PrintT(<<"BAD", i>>)
=============================================================================
