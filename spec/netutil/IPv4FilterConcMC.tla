--------------------------- MODULE IPv4FilterConcMC ---------------------------
EXTENDS IPv4FilterConc
\* writer 1 owns 0*/1 and 00/2 (second Add migrates at ListSize 1), writer 2 owns 1*/1 and /0
ProgDef == [w \in {"w1", "w2"} |->
   IF w = "w1" THEN << [op |-> "add", c |-> <<0>>], [op |-> "add", c |-> <<0, 0>>], [op |-> "remove", c |-> <<0>>] >>
   ELSE << [op |-> "add", c |-> <<1>>], [op |-> "add", c |-> <<>>], [op |-> "remove", c |-> <<>>] >>]
=============================================================================
