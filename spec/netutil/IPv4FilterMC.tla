----------------------------- MODULE IPv4FilterMC -----------------------------
(* Exhaustive exploration of the full reachable graph for a small universe: every sequence
   of Add / Remove over every CIDR (incl. /0 and non-canonical network addresses), with the
   refinement invariant evaluated for every address in every state.
   The history variable `hist` is only used by the generation config (RecordHist = TRUE):
   it carries the operations and, after each, the predicted answer for every address. *)
EXTENDS IPv4Filter, Json
CONSTANTS RecordHist, MaxHist, Mutant
VARIABLES impl, abs, hist
vars == <<impl, abs, hist>>

Bits(n) == [1..n -> {0, 1}]
Addrs == Bits(W)

\* deterministic order of all addresses (binary counting), for export
RECURSIVE AllAddrs(_)
AllAddrs(n) == IF n = 0 THEN << <<>> >>
               ELSE LET r == AllAddrs(n - 1) IN [k \in 1..(2 * Len(r)) |-> IF k <= Len(r) THEN <<0>> \o r[k] ELSE <<1>> \o r[k - Len(r)]]
AddrSeq == AllAddrs(W)
Predicted(a) == [k \in 1..Len(AddrSeq) |-> AbsContains(a, AddrSeq[k])]

Init == impl = ImplInit /\ abs = AbsInit /\ hist = <<>>

MAdd(f, ip, len) ==
  IF Mutant = "MigrateKeepsTombs" /\ len > 0 /\ f.mode = "list" /\ f.index >= ListSize
  THEN LET c == Canon(ip, len)
           live == {f.list[k] : k \in 1..f.index} \ {Tomb} IN
       [f EXCEPT !.mode = "maps", !.maps = [l \in 1..W |-> {x \in live : Len(x) = l}]]          \* loses the new entry
  ELSE ImplAdd(f, ip, len)
MRemove(f, ip, len) ==
  IF Mutant = "RemoveFirstOnly" /\ len > 0 /\ f.mode = "list"
  THEN LET c == Canon(ip, len)
           I == {k \in 1..Len(f.list) : f.list[k] = c} IN
       IF I = {} THEN f ELSE [f EXCEPT !.list[CHOOSE k \in I : \A j \in I : k <= j] = Tomb]
  ELSE ImplRemove(f, ip, len)

Step(op, ip, len) ==
  /\ impl' = IF op = "add" THEN MAdd(impl, ip, len) ELSE MRemove(impl, ip, len)
  /\ abs'  = IF op = "add" THEN AbsAdd(abs, ip, len) ELSE AbsRemove(abs, ip, len)
  /\ hist' = IF RecordHist
             THEN Append(hist, [op |-> op, ip |-> ip, len |-> len,
                                want |-> Predicted(IF op = "add" THEN AbsAdd(abs, ip, len) ELSE AbsRemove(abs, ip, len)),
                                proj |-> Proj(impl')])
             ELSE hist
\* host bits are irrelevant to the model (Canon truncates), so verification runs use zero host bits;
\* generation runs (RecordHist) choose arbitrary, i.e. also non-canonical, network addresses
Zeros(n) == [k \in 1..n |-> 0]
Next == /\ (RecordHist => Len(hist) < MaxHist)
        /\ \E op \in {"add", "remove"}, len \in 0..W :
             /\ (RecordHist /\ len = 0) => Len(hist) % 5 = 4     \* generation: /0 toggles only now and then
             /\ \E ip \in (IF RecordHist THEN Addrs ELSE {c \o Zeros(W - len) : c \in Bits(len)}) : Step(op, ip, len)
Spec == Init /\ [][Next]_vars

Refines == \A ip \in Addrs : ImplContains(impl, ip) = AbsContains(abs, ip)
Export == (RecordHist /\ Len(hist) = MaxHist) => PrintT(ToJson(hist))
=============================================================================
