-------------------------------- MODULE ClientIP --------------------------------
(***************************************************************************)
(* Beyond the listed properties: Store.GetClientIP.  The client address is *)
(* the first non-empty of X-Client-IP, the first element of                *)
(* X-Forwarded-For, X-Real-IP, and the host part of RemoteAddr.            *)
(* Headers are byte tuples; <<>> = header absent or empty.                 *)
(***************************************************************************)
EXTENDS Integers, Sequences, TLC, Json
COMMA == 44
FirstElem(x) == LET I == {k \in 1..Len(x) : x[k] = COMMA} IN
                IF I = {} THEN x ELSE SubSeq(x, 1, (CHOOSE k \in I : \A j \in I : k <= j) - 1)
\* statement
ClientIP(xc, xff, xr, remoteHost) ==
  IF xc # <<>> THEN xc ELSE IF xff # <<>> THEN FirstElem(xff) ELSE IF xr # <<>> THEN xr ELSE remoteHost

Cases == ndJsonDeserialize("cases.ndjson")
VARIABLE i
Init == i \in 1..Len(Cases)
Next == UNCHANGED i
JudgeOK == LET c == Cases[i] IN c.r = ClientIP(c.xc, c.xff, c.xr, c.host) \/ PrintT(<<"BAD", i>>)
=============================================================================
