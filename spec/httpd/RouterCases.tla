------------------------------ MODULE RouterCases ------------------------------
(* Judge of recorded runs of the real httpd.Mux.  A case is one table:
     regs : indices into universe.ndjson, the registration attempts in order
     acc  : whether each attempt was accepted by the real Handle (no panic)
     dict : distinct observations [id, v] (v aligned with names.ndjson)
     obs  : for each request of requests.ndjson, an index into dict
     ok   : every request invoked exactly one handler exactly once, nothing panicked,
            and the handler saw the RouteInfo of the route it was registered with
   The verdict uses the statement layer (Match / Accepts / Allowed) only. *)
EXTENDS Router, Json
Universe == ndJsonDeserialize("universe.ndjson")
Requests == ndJsonDeserialize("requests.ndjson")
NamesList == ndJsonDeserialize("names.ndjson")
Cases == ndJsonDeserialize("cases.ndjson")
VARIABLE i
Init == i \in 1..Len(Cases)
Next == UNCHANGED i

RECURSIVE Build(_, _, _, _)
Build(regs, k, routes, acc) ==
  IF k > Len(regs) THEN [routes |-> routes, acc |-> acc]
  ELSE LET u == Universe[regs[k]] IN
       IF Accepts(routes, u.pat, u.method)
       THEN Build(regs, k + 1, routes \cup {[id |-> k, fr |-> Frags(u.pat), method |-> u.method]}, Append(acc, TRUE))
       ELSE Build(regs, k + 1, routes, Append(acc, FALSE))

Explains(a, o) == a.id = o.id /\ \A j \in 1..Len(NamesList) : Bind(a, NamesList[j]) = o.v[j]
Agrees(c) ==
  LET B == Build(c.regs, 1, {}, <<>>) IN
  /\ c.ok
  /\ B.acc = c.acc
  /\ \A k \in 1..Len(Requests) :
        \E a \in Allowed(B.routes, Requests[k].p, Requests[k].m) : Explains(a, c.dict[c.obs[k]])
\* diagnostics for a rejected case: 0 = registration/ok flag, else the first unexplained request
FirstFail(c) ==
  LET B == Build(c.regs, 1, {}, <<>>)
      F == {k \in 1..Len(Requests) :
              ~\E a \in Allowed(B.routes, Requests[k].p, Requests[k].m) : Explains(a, c.dict[c.obs[k]])}
  IN IF ~c.ok \/ B.acc # c.acc \/ F = {} THEN 0 ELSE CHOOSE k \in F : \A j \in F : k <= j
JudgeOK == Agrees(Cases[i]) \/ PrintT(<<"BAD", i, FirstFail(Cases[i])>>)
=============================================================================
