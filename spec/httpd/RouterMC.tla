------------------------------- MODULE RouterMC -------------------------------
(* Exhaustive check: for every table built by up to MaxRoutes registration attempts from
   the route universe (universe.ndjson: {pat, method}), and every request of
   requests.ndjson ({p, m}), the trie Lookup agrees with the declarative Match, and the
   trie's accept/reject decision agrees with the statement's. *)
EXTENDS Router, Json
CONSTANTS MaxRoutes
Universe == ndJsonDeserialize("universe.ndjson")
Requests == ndJsonDeserialize("requests.ndjson")
AllNames == UNION {{Names(Frags(Universe[k].pat))[j] : j \in 1..Len(Names(Frags(Universe[k].pat)))} : k \in 1..Len(Universe)}

VARIABLES routes, trie, n
vars == <<routes, trie, n>>
Init == routes = {} /\ trie = EmptyTrie /\ n = 0
Register(u) ==
  /\ n < MaxRoutes
  /\ n' = n + 1
  /\ IF TrieAccepts(trie, u.pat, u.method)
     THEN /\ trie' = TrieAdd(trie, n + 1, u.pat, u.method)
          /\ routes' = routes \cup {[id |-> n + 1, fr |-> Frags(u.pat), method |-> u.method]}
     ELSE UNCHANGED <<routes, trie>>
Next == \E k \in 1..Len(Universe) : Register(Universe[k])
Spec == Init /\ [][Next]_vars

LookupIsMatch == \A k \in 1..Len(Requests) :
    SameObs(Lookup(trie, Requests[k].p, Requests[k].m), Match(routes, Requests[k].p, Requests[k].m), AllNames)
AcceptAgrees == \A k \in 1..Len(Universe) :
    TrieAccepts(trie, Universe[k].pat, Universe[k].method) = Accepts(routes, Universe[k].pat, Universe[k].method)
=============================================================================
