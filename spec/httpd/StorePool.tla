------------------------------- MODULE StorePool -------------------------------
(***************************************************************************)
(* C05 - requests are isolated: pooled per-request state never leaks.      *)
(*                                                                         *)
(* Implementation-shaped model of Mux.ServeHTTP around the sync.Pool of    *)
(* Store objects: Get (reuse ANY pooled Store, or create one), id append,  *)
(* findRoute writing V by append and assigning K only on a match, handler  *)
(* observations, optional status write / panic, reset and Put.             *)
(* Statement: what a handler observes = what the same request observes on  *)
(* a fresh Mux with the same routes (Match of Router.tla, status 0, an id  *)
(* made of this request's own counter value only, ids pairwise distinct).  *)
(* Requests may overlap (Slots); routes are registered between requests.   *)
(***************************************************************************)
EXTENDS Router, Json

CONSTANTS MaxOps, Slots, Mutant
Universe == ndJsonDeserialize("universe.ndjson")
Requests == ndJsonDeserialize("requests.ndjson")
AllNames == UNION {{Names(Frags(Universe[k].pat))[j] : j \in 1..Len(Names(Frags(Universe[k].pat)))} : k \in 1..Len(Universe)}

VARIABLES routes, trie, maxParams, pool, inflight, counter, ops, crashed
vars == <<routes, trie, maxParams, pool, inflight, counter, ops, crashed>>

Idle == [busy |-> FALSE]
FreshStore == [K |-> <<>>, V |-> <<>>, cap |-> maxParams, status |-> 0, id |-> <<>>]

Init == /\ routes = {} /\ trie = EmptyTrie /\ maxParams = 0 /\ pool = {}
        /\ inflight = [s \in Slots |-> Idle] /\ counter = 0 /\ ops = 0 /\ crashed = FALSE

Register(k) ==
  /\ ops < MaxOps /\ \A s \in Slots : ~inflight[s].busy
  /\ TrieAccepts(trie, Universe[k].pat, Universe[k].method)
  /\ trie' = TrieAdd(trie, ops + 1, Universe[k].pat, Universe[k].method)
  /\ routes' = routes \cup {[id |-> ops + 1, fr |-> Frags(Universe[k].pat), method |-> Universe[k].method]}
  /\ maxParams' = IF Len(Names(Frags(Universe[k].pat))) > maxParams THEN Len(Names(Frags(Universe[k].pat))) ELSE maxParams
  /\ ops' = ops + 1
  /\ UNCHANGED <<pool, inflight, counter, crashed>>

\* ServeHTTP up to the call of the relay handler
Start(s, k) ==
  /\ ops < MaxOps /\ ~inflight[s].busy /\ ~crashed
  /\ \E st \in pool \cup {FreshStore} :
       LET res == Lookup(trie, Requests[k].p, Requests[k].m)
           \* pinned design: V was resliced within a capacity fixed when the Store was created
           overflow == Mutant = "Reslice" /\ Len(st.V) + Len(res.V) > st.cap
           st2 == [st EXCEPT !.id = st.id \o <<counter + 1>>,
                             !.V = st.V \o res.V,
                             !.K = IF res.id # 0 THEN res.K ELSE st.K]
       IN /\ pool' = pool \ {st}
          /\ crashed' = overflow
          /\ inflight' = [inflight EXCEPT ![s] = [busy |-> TRUE, req |-> k, store |-> st2, I |-> res.id,
                                                   ticket |-> counter + 1, entered |-> FALSE]]
  /\ counter' = counter + 1 /\ ops' = ops + 1
  /\ UNCHANGED <<routes, trie, maxParams>>

\* the handler may set a status ...
WriteStatus(s) ==
  /\ inflight[s].busy /\ ~crashed
  /\ inflight' = [inflight EXCEPT ![s].store.status = 201, ![s].entered = TRUE]
  /\ UNCHANGED <<routes, trie, maxParams, pool, counter, ops, crashed>>
\* ... or panic: without a recovering relay the Store is simply never put back
PanicLost(s) ==
  /\ inflight[s].busy /\ ~crashed
  /\ inflight' = [inflight EXCEPT ![s] = Idle]
  /\ UNCHANGED <<routes, trie, maxParams, pool, counter, ops, crashed>>
\* normal return (also after a panic contained by the relay): reset and Put
Finish(s) ==
  /\ inflight[s].busy /\ ~crashed
  /\ LET st == inflight[s].store
         clean == [st EXCEPT !.status = IF Mutant = "NoStatusReset" THEN st.status ELSE 0,
                             !.K = IF Mutant = "NoKReset" THEN st.K ELSE <<>>,
                             !.V = IF Mutant = "NoVTrunc" THEN st.V ELSE <<>>,
                             !.id = IF Mutant = "NoIdTrunc" THEN st.id ELSE <<>>]
     IN pool' = pool \cup {clean}
  /\ inflight' = [inflight EXCEPT ![s] = Idle]
  /\ UNCHANGED <<routes, trie, maxParams, counter, ops, crashed>>

Next == \/ \E k \in 1..Len(Universe) : Register(k)
        \/ \E s \in Slots, k \in 1..Len(Requests) : Start(s, k)
        \/ \E s \in Slots : WriteStatus(s) \/ PanicLost(s) \/ Finish(s)
Spec == Init /\ [][Next]_vars

-----------------------------------------------------------------------------
\* Params.Get on the Store as it is: first index of the name in K, then V at that index
RawGet(st, name) ==
  LET I == {a \in 1..Len(st.K) : st.K[a] = name}
  IN IF I = {} THEN <<>>
     ELSE LET a == CHOOSE x \in I : \A y \in I : x <= y
          IN IF a <= Len(st.V) THEN st.V[a] ELSE <<"PANIC: index out of range">>

Isolated ==
  /\ ~crashed
  /\ \A s \in Slots : inflight[s].busy =>
       LET f == inflight[s]
           want == Match(routes, Requests[f.req].p, Requests[f.req].m)
       IN /\ f.I = want.id
          /\ \A n \in AllNames : RawGet(f.store, n) = Bind(want, n)
          /\ (~f.entered => f.store.status = 0)
          /\ f.store.id = <<f.ticket>>
  /\ \A s, t \in Slots : (s # t /\ inflight[s].busy /\ inflight[t].busy) => inflight[s].store.id # inflight[t].store.id
=============================================================================
