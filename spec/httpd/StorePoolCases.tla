---------------------------- MODULE StorePoolCases ----------------------------
(* Judge of recorded histories of one real httpd.Mux (harness/cmd/storepool).
   Folding over the operations keeps the set of registered routes and the request ids seen so
   far; every request's observations - in the relay handler and in the route / no-route
   handler - must be exactly what the statement layer prescribes for a fresh Mux with these
   routes: Match's route and bindings, initial status 0, an id that is constant during the
   request, unique within the Mux and shares the Mux's prefix. *)
EXTENDS Router, Json
Universe  == ndJsonDeserialize("universe.ndjson")
NamesList == ndJsonDeserialize("names.ndjson")
Cases == ndJsonDeserialize("cases.ndjson")
VARIABLE i
Init == i \in 1..Len(Cases)
Next == UNCHANGED i

SnapOK(sn, want) ==
  /\ sn.id = (IF want.id = 0 THEN 0 ELSE want.id)
  /\ Len(sn.v) = Len(NamesList)
  /\ \A j \in 1..Len(NamesList) : sn.v[j] = Bind(want, NamesList[j])
  /\ sn.st = 0

RECURSIVE Fold(_, _, _, _, _)
\* returns 0 if the whole history is explained, else the index of the first offending operation
Fold(ops, k, routes, seen, prefix) ==
  IF k > Len(ops) THEN 0
  ELSE LET o == ops[k] IN
    IF o.op = "reg" THEN
         LET u == Universe[o.u]
             acc == Accepts(routes, u.pat, u.method) IN
         IF acc # o.acc THEN k
         ELSE Fold(ops, k + 1, IF acc THEN routes \cup {[id |-> o.u, fr |-> Frags(u.pat), method |-> u.method]} ELSE routes,
                   seen, prefix)
    ELSE IF o.op = "hreq" THEN      \* hammer phase: one distinct observation made by o.cnt concurrent requests (ids compared by the harness)
         LET want == Match(routes, o.p, o.m) IN
         IF o.crash = "" /\ SnapOK(o.relay, want) /\ SnapOK(o.handler, want) THEN Fold(ops, k + 1, routes, seen, prefix) ELSE k
    ELSE IF o.op = "hsum" THEN      \* hammer phase totals: no request id handed out twice, none changed during its request, no torn value
         IF o.dups = 0 /\ o.changed = 0 /\ o.crash = "" THEN Fold(ops, k + 1, routes, seen, prefix) ELSE k
    ELSE LET want == Match(routes, o.p, o.m)
             gid  == o.relay.gid
             pre  == SubSeq(gid, 1, 9)
             good == /\ o.crash = ""
                     /\ SnapOK(o.relay, want) /\ SnapOK(o.handler, want)
                     /\ Len(gid) > 9 /\ o.handler.gid = gid /\ o.gidexit = gid
                     /\ gid \notin seen
                     /\ (prefix = <<>> \/ prefix = pre)
         IN IF good THEN Fold(ops, k + 1, routes, seen \cup {gid}, pre) ELSE k

JudgeOK == LET bad == Fold(Cases[i].ops, 1, {}, {}, <<>>) IN bad = 0 \/ PrintT(<<"BAD", i, bad>>)
=============================================================================
