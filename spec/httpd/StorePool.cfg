SPECIFICATION Spec
CONSTANTS
  MaxOps = 4
  Slots = {1, 2}
  Mutant = "none"
INVARIANT Isolated
CHECK_DEADLOCK FALSE
