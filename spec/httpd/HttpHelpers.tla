------------------------------- MODULE HttpHelpers -------------------------------
(***************************************************************************)
(* Beyond the listed properties: the ResponseWriter status machine and the *)
(* Store reply helpers.  ResponseWriter.Status is what was recorded, wire  *)
(* is the status line the client receives (first header wins; a body write *)
(* or a flush without a header means 200).  A handler is a sequence of     *)
(* helper calls; the statement: after every prefix of calls                *)
(*      Status = wire  (or both 0: nothing sent yet)                       *)
(* and the reply helpers send the status their name says.                  *)
(***************************************************************************)
EXTENDS Integers, Sequences, TLC, Json

\* one call: [h |-> helper, code |-> int]
\*   "WriteHeader"(code) "Write" "Flush" "Respond200" "Respond200Body" "RespondJson" "Redirect"(code) "Error404" "Error500"
Apply(st, c) ==
  LET first(code) == [status |-> code, wire |-> IF st.wire = 0 THEN code ELSE st.wire]
      implicit == [status |-> IF st.status = 0 THEN 200 ELSE st.status, wire |-> IF st.wire = 0 THEN 200 ELSE st.wire]
  IN CASE c.h = "WriteHeader" -> first(c.code)
       [] c.h \in {"Write", "RespondJson", "Flush"} -> implicit
       [] c.h \in {"Respond200", "Respond200Body"} -> first(200)
       [] c.h = "Redirect" -> first(c.code)
       [] c.h = "Error404" -> first(404)
       [] c.h = "Error500" -> first(500)
RECURSIVE Run(_, _, _)
Run(calls, k, st) == IF k > Len(calls) THEN st ELSE Run(calls, k + 1, Apply(st, calls[k]))
Final(calls) == Run(calls, 1, [status |-> 0, wire |-> 0])

\* the property of the machine: as long as the status is set at most once, recorded = sent
SetOnce(calls) == Len(SelectSeq(calls, LAMBDA c : c.h \in {"WriteHeader", "Respond200", "Respond200Body", "Redirect", "Error404", "Error500"})) <= 1
                  /\ (\A k \in 1..Len(calls) : calls[k].h \in {"WriteHeader", "Respond200", "Respond200Body", "Redirect", "Error404", "Error500"} =>
                        \A j \in 1..(k - 1) : calls[j].h \notin {"Write", "RespondJson", "Flush"})
Truthful(calls) == SetOnce(calls) => Final(calls).status = Final(calls).wire

Cases == ndJsonDeserialize("cases.ndjson")
VARIABLE i
Init == i \in 1..Len(Cases)
Next == UNCHANGED i
\* real ResponseWriter.Status and the recorder's code after the calls of the case
JudgeOK == LET c == Cases[i]  f == Final(c.calls) IN
   (Truthful(c.calls) /\ c.status = f.status /\ c.wire = (IF f.wire = 0 THEN 200 ELSE f.wire)) \/ PrintT(<<"BAD", i>>)
=============================================================================
