------------------------------- MODULE Dispatch -------------------------------
(***************************************************************************)
(* Beyond the listed properties (X16): the dispatch protocol of httpd.Mux  *)
(* around the router - who is called for a request and with what - as a    *)
(* machine over the operations a program performs on one Mux:              *)
(*   relay(k)    HandleRelay installs relay k   (0 = the default relay that *)
(*               NewMux installs: it calls the selected route's handler;    *)
(*               k > 0: a wrapper that notes itself and then calls it too;  *)
(*               k < 0: a gatekeeper that notes itself and calls nothing)   *)
(*   noroute(k)  HandleNoRoute installs no-route handler k (0 = default     *)
(*               404 reply)                                                 *)
(*   req(m)      a request; m = TRUE when a registered route matches        *)
(* State: the relay and the no-route handler currently installed.          *)
(* Prediction for a request: the sequence of parties invoked, the          *)
(* RouteInfo the relay saw (registered path and method, or "" / "" for the *)
(* no-route info) and the status on the wire.  Facts: the relay installed  *)
(* LAST is invoked exactly once per request, whatever was installed        *)
(* before; a route handler / no-route handler runs only through the relay; *)
(* the default no-route handler answers 404.                               *)
(* CookieValue(name): the value of the FIRST cookie of that name the       *)
(* request carries, "" when there is none.                                 *)
(***************************************************************************)
EXTENDS Integers, Sequences, TLC, Json

Apply(st, op) ==
  CASE op.op = "relay" -> [st EXCEPT !.relay = op.k]
    [] op.op = "noroute" -> [st EXCEPT !.noroute = op.k]
    [] OTHER -> st

\* parties: <<"relay", k>>, <<"route">>, <<"noroute", k>>
Invoked(st, matched) ==
  LET target == IF matched THEN << <<"route", 0>> >> ELSE << <<"noroute", st.noroute>> >>
  IN IF st.relay = 0 THEN target
     ELSE IF st.relay > 0 THEN << <<"relay", st.relay>> >> \o target
     ELSE << <<"relay", st.relay>> >>
Wire(st, matched) ==
  IF st.relay < 0 THEN 200                       \* nobody wrote anything: net/http's implicit 200
  ELSE IF matched THEN 200                       \* the harness' route handler writes nothing
  ELSE IF st.noroute = 0 THEN 404 ELSE 200       \* the harness' own no-route handlers write nothing

RECURSIVE Run(_, _, _)
\* 0 when every request of the history was observed as predicted, else the index of the first that was not
Run(st, ops, k) ==
  IF k > Len(ops) THEN 0
  ELSE LET op == ops[k] IN
       IF op.op # "req" THEN Run(Apply(st, op), ops, k + 1)
       ELSE IF /\ op.seen = [j \in 1..Len(Invoked(st, op.m)) |-> [who |-> Invoked(st, op.m)[j][1], k |-> Invoked(st, op.m)[j][2]]]
               /\ op.wire = Wire(st, op.m)
               /\ op.ipath = (IF op.m THEN op.rpath ELSE <<>>)
               /\ op.imethod = (IF op.m THEN op.rmethod ELSE <<>>)
            THEN Run(st, ops, k + 1)
            ELSE k

\* cookies: sequence of [n, v] in header order
FirstCookie(cs, name) ==
  LET I == {j \in 1..Len(cs) : cs[j].n = name} IN
  IF I = {} THEN <<>> ELSE cs[CHOOSE j \in I : \A l \in I : j <= l].v

Cases == ndJsonDeserialize("cases.ndjson")
VARIABLE i
Init == i \in 1..Len(Cases)
Next == UNCHANGED i
OK(c) ==
  CASE c.kind = "hist" -> Run([relay |-> 0, noroute |-> 0], c.ops, 1) = 0
    [] c.kind = "cookie" -> c.got = FirstCookie(c.cs, c.name)
    [] OTHER -> FALSE
JudgeOK == OK(Cases[i]) \/ PrintT(<<"BAD", i>>)
=============================================================================
