-------------------------------- MODULE Router --------------------------------
(***************************************************************************)
(* C04 - httpd.Mux dispatches every request to exactly one handler by the  *)
(* documented precedence.                                                  *)
(*                                                                         *)
(* Byte strings are tuples of ints.  A route is [id, pat, method]; its     *)
(* normal form Frags(pat) is the list of non-empty fragments of the        *)
(* pattern, cut after the first "*": literal, :param or any.               *)
(*                                                                         *)
(* Statement layer  Match(routes, path, method): defined on the SET of     *)
(* registered routes, no trie: walk the path segment by segment, at each   *)
(* step keep the routes whose next fragment is this literal, else those    *)
(* with a :param there, else those with "*" (binding the rest of the raw   *)
(* path); empty segments are skipped except a final one; a one-byte path   *)
(* tries the root route first; at the end the exact method wins over "*".  *)
(*                                                                         *)
(* Implementation-shaped layer  Register / Lookup: the trie keyed like the *)
(* code (literal text, param key, any key, method tag), walked greedily    *)
(* without backtracking.  A trie node is identified by its key path.       *)
(***************************************************************************)
EXTENDS Integers, Sequences, FiniteSets, TLC

SLASH == 47
COLON == 58
STAR  == 42
MethodAll == "*"
KnownMethods == {"GET", "HEAD", "POST", "PUT", "PATCH", "DELETE", "CONNECT", "OPTIONS", "TRACE", MethodAll}
AnyName == <<SLASH, COLON, 97, 110, 121>>          \* "/:any", the name under which "*" is bound

-----------------------------------------------------------------------------
(* Segmentation shared by patterns and request paths: the first byte is    *)
(* taken as a separator whatever it is, every later "/" separates.         *)
RECURSIVE SplitFrom(_, _, _, _)
\* returns a sequence of [s |-> segment bytes, at |-> index in p where the segment starts]
SplitFrom(p, k, cur, start) ==
  IF k > Len(p) THEN << [s |-> cur, at |-> start] >>
  ELSE IF p[k] = SLASH THEN << [s |-> cur, at |-> start] >> \o SplitFrom(p, k + 1, <<>>, k + 1)
  ELSE SplitFrom(p, k + 1, Append(cur, p[k]), start)
Segs(p) == SplitFrom(p, 2, <<>>, 2)

\* pattern normal form
FragOf(s) == IF s = <<STAR>> THEN [k |-> "any"]
             ELSE IF s[1] = COLON THEN [k |-> "param", n |-> SubSeq(s, 2, Len(s))]
             ELSE [k |-> "lit", s |-> s]
RECURSIVE NormFrom(_, _)
NormFrom(segs, k) ==
  IF k > Len(segs) THEN <<>>
  ELSE IF segs[k].s = <<>> THEN NormFrom(segs, k + 1)
  ELSE LET f == FragOf(segs[k].s) IN
       IF f.k = "any" THEN <<f>> ELSE <<f>> \o NormFrom(segs, k + 1)
Frags(pat) == NormFrom(Segs(pat), 1)
\* names in binding order ("*" is bound under AnyName)
Names(fr) == [k \in 1..Len(SelectSeq(fr, LAMBDA f : f.k # "lit")) |->
                LET f == SelectSeq(fr, LAMBDA g : g.k # "lit")[k] IN IF f.k = "any" THEN AnyName ELSE f.n]
ParamsOK(fr) == LET ns == Names(fr) IN
    \A a \in 1..Len(ns) : ns[a] # <<>> /\ \A b \in 1..(a - 1) : ns[b] # ns[a]
\* two patterns occupy the same place in the table when their shapes agree
Shape(fr) == [k \in 1..Len(fr) |-> IF fr[k].k = "lit" THEN fr[k] ELSE [k |-> fr[k].k]]

-----------------------------------------------------------------------------
(* Statement layer.                                                        *)
NoRoute == [id |-> 0, K |-> <<>>, V |-> <<>>]

\* routes: set of [id, fr, method]; candidates R always share the first d fragments' shape
MethodPick(R, d, method) ==
  LET E == {r \in R : Len(r.fr) = d /\ r.method = method}
      A == {r \in R : Len(r.fr) = d /\ r.method = MethodAll}
  IN IF E # {} THEN CHOOSE r \in E : TRUE
     ELSE IF A # {} THEN CHOOSE r \in A : TRUE
     ELSE [id |-> 0]

RECURSIVE Walk(_, _, _, _, _, _, _)
Walk(R, d, segs, k, V, p, method) ==
  IF k > Len(segs) THEN
       LET r == MethodPick(R, d, method) IN
       IF r.id = 0 THEN NoRoute ELSE [id |-> r.id, K |-> Names(r.fr), V |-> V]
  ELSE LET sg == segs[k] IN
    IF sg.s = <<>> /\ k < Len(segs) THEN Walk(R, d, segs, k + 1, V, p, method)
    ELSE LET L == {r \in R : Len(r.fr) > d /\ r.fr[d + 1].k = "lit" /\ r.fr[d + 1].s = sg.s}
             P == {r \in R : Len(r.fr) > d /\ r.fr[d + 1].k = "param"}
             A == {r \in R : Len(r.fr) > d /\ r.fr[d + 1].k = "any"}
         IN IF L # {} THEN Walk(L, d + 1, segs, k + 1, V, p, method)
            ELSE IF P # {} THEN Walk(P, d + 1, segs, k + 1, Append(V, sg.s), p, method)
            ELSE IF A # {} THEN
                 LET r == MethodPick(A, d + 1, method) IN
                 IF r.id = 0 THEN NoRoute
                 ELSE [id |-> r.id, K |-> Names(r.fr), V |-> Append(V, SubSeq(p, sg.at, Len(p)))]
            ELSE NoRoute

Match(routes, path, method) ==
  LET p == IF path = <<>> THEN <<SLASH>> ELSE path
      root == IF Len(p) = 1 THEN MethodPick(routes, 0, method) ELSE [id |-> 0]
  IN IF root.id # 0 THEN [id |-> root.id, K |-> <<>>, V |-> <<>>]
     ELSE Walk(routes, 0, Segs(p), 1, <<>>, p, method)

\* what a handler reads through Store.RouteParam(name): first binding with that name, else ""
Bind(res, name) == LET I == {a \in 1..Len(res.K) : res.K[a] = name}
                   IN IF I = {} \/ res.id = 0 THEN <<>> ELSE res.V[CHOOSE a \in I : \A b \in I : a <= b]

\* registration: accepted iff method known, params well-formed, place not taken
Accepts(routes, pat, method) ==
  /\ method \in KnownMethods
  /\ ParamsOK(Frags(pat))
  /\ ~\E r \in routes : r.method = method /\ Shape(r.fr) = Shape(Frags(pat))

\* paths without a leading "/" (deliverable by net/http for CONNECT, "OPTIONS *", proxies,
\* StripPrefix): the statement fixes totality, not which segmentation applies
Allowed(routes, path, method) ==
  IF path = <<>> THEN {Match(routes, <<SLASH>>, method), NoRoute}
  ELSE IF path[1] = SLASH THEN {Match(routes, path, method)}
  ELSE {Match(routes, path, method), Match(routes, <<SLASH>> \o path, method), NoRoute}

-----------------------------------------------------------------------------
(* Implementation-shaped layer: the trie.                                  *)
(* trie = [nodes |-> set of key paths, info |-> key path (ending in a      *)
(* method tag) -> [id, names]]; keys: <<"lit", bytes>>, <<"param">>,       *)
(* <<"any">>, <<"m", method>>.                                             *)
EmptyTrie == [nodes |-> {<<>>}, info |-> <<>>]        \* info: function with empty domain
KeyOf(f) == IF f.k = "lit" THEN <<"lit", f.s>> ELSE <<f.k>>
RECURSIVE KeyPath(_, _)
KeyPath(fr, k) == IF k > Len(fr) THEN <<>> ELSE <<KeyOf(fr[k])>> \o KeyPath(fr, k + 1)
Prefixes(kp) == {SubSeq(kp, 1, n) : n \in 0..Len(kp)}

TrieAccepts(trie, pat, method) ==
  /\ method \in KnownMethods
  /\ ParamsOK(Frags(pat))
  /\ Append(KeyPath(Frags(pat), 1), <<"m", method>>) \notin DOMAIN trie.info
TrieAdd(trie, id, pat, method) ==
  LET kp == KeyPath(Frags(pat), 1)
      mk == Append(kp, <<"m", method>>)
  IN [nodes |-> trie.nodes \cup Prefixes(mk),
      info  |-> (mk :> [id |-> id, names |-> Names(Frags(pat))]) @@ trie.info]

MethodNode(trie, kp, method) ==
  IF method \in KnownMethods /\ Append(kp, <<"m", method>>) \in DOMAIN trie.info
  THEN trie.info[Append(kp, <<"m", method>>)]
  ELSE IF Append(kp, <<"m", MethodAll>>) \in DOMAIN trie.info THEN trie.info[Append(kp, <<"m", MethodAll>>)]
  ELSE [id |-> 0]

\* no route: the values collected so far stay in the Store's V (the names are not assigned)
Partial(V) == [id |-> 0, K |-> <<>>, V |-> V]
RECURSIVE Descend(_, _, _, _, _, _, _)
Descend(trie, kp, segs, k, V, p, method) ==
  IF k > Len(segs) THEN
       LET n == MethodNode(trie, kp, method) IN
       IF n.id = 0 THEN Partial(V) ELSE [id |-> n.id, K |-> n.names, V |-> V]
  ELSE LET sg == segs[k] IN
    IF sg.s = <<>> /\ k < Len(segs) THEN Descend(trie, kp, segs, k + 1, V, p, method)
    ELSE IF Append(kp, <<"lit", sg.s>>) \in trie.nodes
         THEN Descend(trie, Append(kp, <<"lit", sg.s>>), segs, k + 1, V, p, method)
    ELSE IF Append(kp, <<"param">>) \in trie.nodes
         THEN Descend(trie, Append(kp, <<"param">>), segs, k + 1, Append(V, sg.s), p, method)
    ELSE IF Append(kp, <<"any">>) \in trie.nodes
         THEN LET n == MethodNode(trie, Append(kp, <<"any">>), method) IN
              IF n.id = 0 THEN Partial(Append(V, SubSeq(p, sg.at, Len(p))))
              ELSE [id |-> n.id, K |-> n.names, V |-> Append(V, SubSeq(p, sg.at, Len(p)))]
    ELSE Partial(V)

Lookup(trie, path, method) ==
  LET p == IF path = <<>> THEN <<SLASH>> ELSE path
      root == IF Len(p) = 1 THEN MethodNode(trie, <<>>, method) ELSE [id |-> 0]
  IN IF root.id # 0 THEN [id |-> root.id, K |-> <<>>, V |-> <<>>]
     ELSE Descend(trie, <<>>, Segs(p), 1, <<>>, p, method)

\* observable equality: same handler, same answer for every name
SameObs(a, b, names) == a.id = b.id /\ \A n \in names : Bind(a, n) = Bind(b, n)
=============================================================================
