SPECIFICATION Spec
CONSTANTS
  MaxRoutes = 2
INVARIANT LookupIsMatch
INVARIANT AcceptAgrees
CHECK_DEADLOCK FALSE
