// Package vio holds small helpers shared by the harness commands: ndjson output, byte<->int
// conversion (byte strings travel as JSON arrays of ints so TLC reads them as tuples), seeds.
package vio

import (
	"bufio"
	"encoding/json"
	"fmt"
	"os"
	"strconv"
	"sync"
)

// Ints converts a byte string to the []int form used in case/trace files.
func Ints(s string) []int {
	out := make([]int, len(s))
	for i := 0; i < len(s); i++ {
		out[i] = int(s[i])
	}
	return out
}

// Bytes is the inverse of Ints.
func Bytes(a []int) string {
	b := make([]byte, len(a))
	for i, v := range a {
		b[i] = byte(v)
	}
	return string(b)
}

// Seed returns VERIF_SEED (default 1).
func Seed() int64 {
	if v, err := strconv.ParseInt(os.Getenv("VERIF_SEED"), 10, 64); err == nil {
		return v
	}
	return 1
}

// Writer writes one JSON document per line.
type Writer struct {
	mu sync.Mutex
	f  *os.File
	w  *bufio.Writer
	N  int
}

func Create(path string) *Writer {
	f, err := os.Create(path)
	if err != nil {
		Fatal("create %s: %v", path, err)
	}
	return &Writer{f: f, w: bufio.NewWriterSize(f, 1<<20)}
}

func (w *Writer) Put(v any) {
	b, err := json.Marshal(v)
	if err != nil {
		Fatal("marshal: %v", err)
	}
	w.mu.Lock()
	w.w.Write(b)
	w.w.WriteByte('\n')
	w.N++
	w.mu.Unlock()
}

func (w *Writer) Close() {
	w.w.Flush()
	w.f.Close()
}

// Fatal reports a harness (infrastructure) failure: exit status 3, never a verdict.
func Fatal(format string, a ...any) {
	fmt.Fprintf(os.Stderr, "harness: "+format+"\n", a...)
	os.Exit(3)
}
