// Package evlog is the event log used by the concurrent harnesses: Emit takes a sequence number
// from one global atomic counter (its modification order is a total order consistent with
// happens-before, so it is a legal real-time order of emission instants) and appends to a
// per-goroutine buffer; buffers are merged by sequence number after the run.
package evlog

import (
	"sort"
	"sync"
	"sync/atomic"
)

type Event struct {
	Seq uint64
	V   any
}

type Log struct {
	seq  atomic.Uint64
	mu   sync.Mutex
	bufs []*Buf
}

type Buf struct {
	l  *Log
	ev []Event
}

func New() *Log { return &Log{} }

// Buf returns a new per-goroutine buffer.
func (l *Log) Buf() *Buf {
	b := &Buf{l: l}
	l.mu.Lock()
	l.bufs = append(l.bufs, b)
	l.mu.Unlock()
	return b
}

// Emit stamps v with the next global sequence number.
func (b *Buf) Emit(v any) uint64 {
	s := b.l.seq.Add(1)
	b.ev = append(b.ev, Event{s, v})
	return s
}

// Count is the number of events emitted so far.
func (l *Log) Count() uint64 { return l.seq.Load() }

// Merge returns all events in sequence order (call after the goroutines have stopped).
func (l *Log) Merge() []any {
	var all []Event
	l.mu.Lock()
	for _, b := range l.bufs {
		all = append(all, b.ev...)
	}
	l.mu.Unlock()
	sort.Slice(all, func(i, j int) bool { return all[i].Seq < all[j].Seq })
	out := make([]any, len(all))
	for i := range all {
		out[i] = all[i].V
	}
	return out
}
