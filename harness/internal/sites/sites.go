// Package sites holds one call of every output method of logger.Logger, each on a line whose file name and number
// are fixed by a //line directive, so that "the caller's file and line" is known without reading it back from the
// runtime.  Never run gofmt on this file: a //line directive must start in column 1.
package sites

import (
	"context"
	"log/slog"

	"github.com/whoisnian/glb/logger"
)

// Site is one call site: Call logs one record with message "m" and attribute k=v through Method.
type Site struct {
	Method string
	File   string // as the handlers show it: the last directory and the file name
	Line   int
	Level  string
	Call   func(l *logger.Logger)
}

func quiet(f func()) {
	defer func() { recover() }()
	f()
}

var Sites = []Site{
	{"Debug", "site dir/debug.go", 11, "DEBUG", func(l *logger.Logger) {
//line /src/site dir/debug.go:11
		l.Debug("m", "k", "v")
	}},
	{"Info", "callers/info.go", 22, "INFO", func(l *logger.Logger) {
//line /src/callers/info.go:22
		l.Info("m", "k", "v")
	}},
	{"Warn", "callers/warn.go", 33, "WARN", func(l *logger.Logger) {
//line /src/callers/warn.go:33
		l.Warn("m", "k", "v")
	}},
	{"Error", "callers/error.go", 44, "ERROR", func(l *logger.Logger) {
//line /src/callers/error.go:44
		l.Error("m", "k", "v")
	}},
	{"Debugf", "callers/debugf.go", 55, "DEBUG", func(l *logger.Logger) {
//line /src/callers/debugf.go:55
		l.Debugf("%s", "m")
	}},
	{"Infof", "callers/infof.go", 66, "INFO", func(l *logger.Logger) {
//line /src/callers/infof.go:66
		l.Infof("%s", "m")
	}},
	{"Warnf", "callers/warnf.go", 77, "WARN", func(l *logger.Logger) {
//line /src/callers/warnf.go:77
		l.Warnf("%s", "m")
	}},
	{"Errorf", "callers/errorf.go", 88, "ERROR", func(l *logger.Logger) {
//line /src/callers/errorf.go:88
		l.Errorf("%s", "m")
	}},
	{"Panic", "callers/panic.go", 99, "ERROR", func(l *logger.Logger) {
		quiet(func() {
//line /src/callers/panic.go:99
			l.Panic("m", "k", "v")
		})
	}},
	{"Panicf", "callers/panicf.go", 110, "ERROR", func(l *logger.Logger) {
		quiet(func() {
//line /src/callers/panicf.go:110
			l.Panicf("%s", "m")
		})
	}},
	{"Log", "callers/log.go", 121, "WARN", func(l *logger.Logger) {
//line /src/callers/log.go:121
		l.Log(context.Background(), logger.LevelWarn, "m", "k", "v")
	}},
	{"Logf", "callers/logf.go", 132, "INFO", func(l *logger.Logger) {
//line /src/callers/logf.go:132
		l.Logf(context.Background(), logger.LevelInfo, "%s", "m")
	}},
	{"LogAttrs", "callers/logattrs.go", 143, "FATAL", func(l *logger.Logger) {
//line /src/callers/logattrs.go:143
		l.LogAttrs(context.Background(), logger.LevelFatal, "m", slog.String("k", "v"))
	}},
	{"LogNilCtx", "callers/lognil.go", 154, "INFO", func(l *logger.Logger) {
//line /src/callers/lognil.go:154
		l.Log(nil, logger.LevelInfo, "m", "k", "v")
	}},
}
