module verif/harness

go 1.22.5

require github.com/whoisnian/glb v0.0.0

replace github.com/whoisnian/glb => /repo
