// Command router drives the real httpd.Mux: for every sequence of up to maxroutes registration
// attempts from the route universe it builds a Mux (Handle panics = rejected), serves every
// request of the request list through ServeHTTP and records which handler ran and what it read
// through Store.  TLC (spec/httpd/RouterCases.tla) judges each table against Match.
package main

import (
	"bufio"
	"encoding/json"
	"flag"
	"fmt"
	"net/http"
	"net/http/httptest"
	"net/url"
	"os"
	"runtime"
	"strings"
	"sync"

	"github.com/whoisnian/glb/httpd"
	"verif/harness/internal/vio"
)

type route struct {
	Pat    []int  `json:"pat"`
	Method string `json:"method"`
}
type request struct {
	P []int  `json:"p"`
	M string `json:"m"`
}
type ob struct {
	ID int     `json:"id"`
	V  [][]int `json:"v"`
}
type rec struct {
	Regs []int  `json:"regs"`
	Acc  []bool `json:"acc"`
	Dict []ob   `json:"dict"`
	Obs  []int  `json:"obs"`
	OK   bool   `json:"ok"`
	Why  string `json:"why,omitempty"`
}

func readLines[T any](path string) []T {
	f, err := os.Open(path)
	if err != nil {
		vio.Fatal("%v", err)
	}
	defer f.Close()
	var out []T
	sc := bufio.NewScanner(f)
	sc.Buffer(make([]byte, 1<<20), 1<<26)
	for sc.Scan() {
		var v T
		if err := json.Unmarshal(sc.Bytes(), &v); err != nil {
			vio.Fatal("%s: %v", path, err)
		}
		out = append(out, v)
	}
	return out
}

type probe struct {
	names  []string
	calls  int
	last   ob
	infoOK bool
}

func (p *probe) handler(id int, pat, method string) httpd.HandlerFunc {
	return func(s *httpd.Store) {
		p.calls++
		p.last = ob{ID: id, V: make([][]int, len(p.names))}
		for i, n := range p.names {
			if n == "/:any" {
				p.last.V[i] = vio.Ints(s.RouteParamAny())
			} else {
				p.last.V[i] = vio.Ints(s.RouteParam(n))
			}
		}
		if id != 0 {
			p.infoOK = s.I != nil && s.I.Path == pat && s.I.Method == method
		} else {
			p.infoOK = s.I != nil
		}
	}
}

func tryHandle(mux *httpd.Mux, pat, method string, h httpd.HandlerFunc) (ok bool) {
	defer func() {
		if recover() != nil {
			ok = false
		}
	}()
	mux.Handle(pat, method, h)
	return true
}

func runCase(regs []int, universe []route, reqs []request, names []string) rec {
	r := rec{Regs: append([]int{}, regs...), OK: true}
	p := &probe{names: names}
	build := func(upto int, acc []bool) *httpd.Mux {
		mux := httpd.NewMux()
		mux.HandleNoRoute(p.handler(0, "", ""))
		for k := 0; k < upto; k++ {
			if acc[k] {
				u := universe[regs[k]-1]
				if !tryHandle(mux, vio.Bytes(u.Pat), u.Method, p.handler(k+1, vio.Bytes(u.Pat), u.Method)) {
					r.OK, r.Why = false, "a registration accepted before was rejected on rebuild"
				}
			}
		}
		return mux
	}
	mux := build(0, nil)
	for k, ui := range regs {
		u := universe[ui-1]
		if k > 0 { // a request between two registrations: the pool now holds a Store created before the later routes existed
			func() {
				defer func() { recover() }()
				mux.ServeHTTP(httptest.NewRecorder(), &http.Request{Method: "GET", URL: &url.URL{Path: "/a"}, Header: http.Header{}})
			}()
		}
		ok := tryHandle(mux, vio.Bytes(u.Pat), u.Method, p.handler(k+1, vio.Bytes(u.Pat), u.Method))
		r.Acc = append(r.Acc, ok)
		if !ok { // a failed registration may leave debris in the trie: continue on a clean Mux
			mux = build(k+1, r.Acc)
		}
	}
	index := map[string]int{}
	for qi, q := range reqs {
		p.calls, p.infoOK = 0, false
		func() {
			defer func() {
				if e := recover(); e != nil {
					r.OK = false
					r.Why = fmt.Sprintf("ServeHTTP panicked on path %q method %q: %v", vio.Bytes(q.P), q.M, e)
					p.last = ob{ID: -1, V: make([][]int, len(names))}
				}
			}()
			u := &url.URL{Path: vio.Bytes(q.P)}
			if qi%2 == 1 {
				// the same path as a server would deliver it for a percent-encoded request target ("/a%2Fb", "/%61"):
				// Path is what the router is specified on, RawPath merely remembers the client's spelling
				if raw := fullyEscaped(u.Path); raw != u.Path {
					u.RawPath = raw
				}
			}
			req := &http.Request{Method: q.M, URL: u, Header: http.Header{}}
			mux.ServeHTTP(httptest.NewRecorder(), req)
		}()
		if r.OK && p.calls != 1 {
			r.OK, r.Why = false, fmt.Sprintf("path %q method %q: %d handler invocations", vio.Bytes(q.P), q.M, p.calls)
		}
		if r.OK && !p.infoOK {
			r.OK, r.Why = false, fmt.Sprintf("path %q method %q: handler saw a RouteInfo that is not its own", vio.Bytes(q.P), q.M)
		}
		for i := range p.last.V {
			if p.last.V[i] == nil {
				p.last.V[i] = []int{}
			}
		}
		key, _ := json.Marshal(p.last)
		di, ok := index[string(key)]
		if !ok {
			r.Dict = append(r.Dict, p.last)
			di = len(r.Dict)
			index[string(key)] = di
		}
		r.Obs = append(r.Obs, di)
	}
	return r
}

// fullyEscaped percent-encodes every byte of a path after the leading slash (inner slashes included): a valid alternative
// spelling of the same path, as url.URL.EscapedPath accepts it
func fullyEscaped(p string) string {
	if len(p) < 2 || p[0] != '/' {
		return p
	}
	var sb strings.Builder
	sb.WriteByte('/')
	for i := 1; i < len(p); i++ {
		fmt.Fprintf(&sb, "%%%02X", p[i])
	}
	return sb.String()
}

func main() {
	uf := flag.String("universe", "universe.ndjson", "")
	rf := flag.String("requests", "requests.ndjson", "")
	nf := flag.String("names", "names.ndjson", "")
	maxr := flag.Int("maxroutes", 2, "")
	out := flag.String("out", "cases.ndjson", "")
	flag.Parse()
	universe := readLines[route](*uf)
	reqs := readLines[request](*rf)
	var names []string
	for _, n := range readLines[[]int](*nf) {
		names = append(names, vio.Bytes(n))
	}
	var all [][]int
	var gen func(cur []int)
	gen = func(cur []int) {
		all = append(all, append([]int(nil), cur...))
		if len(cur) < *maxr {
			for i := range universe {
				gen(append(cur, i+1))
			}
		}
	}
	gen(nil)
	res := make([]rec, len(all))
	var wg sync.WaitGroup
	ch := make(chan int)
	for w := 0; w < runtime.NumCPU(); w++ {
		wg.Add(1)
		go func() {
			defer wg.Done()
			for i := range ch {
				res[i] = runCase(all[i], universe, reqs, names)
			}
		}()
	}
	for i := range all {
		ch <- i
	}
	close(ch)
	wg.Wait()
	w := vio.Create(*out)
	for i := range res {
		if res[i].Acc == nil {
			res[i].Acc = []bool{}
		}
		w.Put(res[i])
	}
	w.Close()
}
