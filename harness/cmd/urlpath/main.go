// Command urlpath records the real fsutil.ResolveUrlPath on every URL path of length <= maxlen
// over the alphabet {'/', '.', 'a', '\\'} (plus seeded longer paths over arbitrary bytes) for each
// base; TLC (spec/util/UrlPathCases.tla) is the judge of the recorded results.
package main

import (
	"flag"
	"math/rand"

	"github.com/whoisnian/glb/util/fsutil"
	"verif/harness/internal/vio"
)

var bases = []string{"/d", "/", "d", ".", "./d/", "/a/../b", "../x", "/d/"}

type rec struct {
	B []int `json:"b"`
	P []int `json:"p"`
	R []int `json:"r"`
}

func main() {
	maxlen := flag.Int("maxlen", 6, "exhaustive length bound")
	extra := flag.Int("extra", 1000, "seeded random longer paths")
	out := flag.String("out", "cases.ndjson", "")
	flag.Parse()
	w := vio.Create(*out)
	defer w.Close()
	// results are held as the strings the function returned and inspected only after a batch of further calls: a caller keeps
	// the paths it resolved (a result that aliases storage reused by a later call would change under it)
	type held struct{ b, p, r string }
	var pending []held
	flush := func() {
		for _, h := range pending {
			w.Put(rec{vio.Ints(h.b), vio.Ints(h.p), vio.Ints(h.r)})
		}
		pending = pending[:0]
	}
	defer flush()
	resolve := func(b, p string) {
		pending = append(pending, held{b, p, fsutil.ResolveUrlPath(b, p)})
		if len(pending) >= 61 {
			flush()
		}
	}
	alpha := []byte{'/', '.', 'a', '\\'}
	var gen func(p []byte)
	gen = func(p []byte) {
		for _, b := range bases {
			resolve(b, string(p))
		}
		if len(p) < *maxlen {
			for _, c := range alpha {
				gen(append(p[:len(p):len(p)], c))
			}
		}
	}
	gen(nil)
	// spellings a decoder or a separator-normaliser could turn into dot segments, and paths led by a backslash
	for _, p := range []string{"\\/../..", "\\../..", "\\..\\..", "\\\\/..", "\\/a/../../..", "/%2e%2e/%2e%2e/etc/passwd", "%2e%2e", "%2e%2e/%2e%2e", "..%2f..", "/a/%2E%2E/%2E%2E/x",
		"%252e%252e/%252e%252e", "/.%2e/.%2e", "/%2e./%2e.", "/..%5c..", "%2f..%2f..", "/a%2f..%2f..%2f..", "%00/../..", "/..;/..", "/..%00/..", "/.../....//..", "/a/b/../../../..", "//..//..//"} {
		for _, b := range bases {
			resolve(b, p)
		}
	}
	rng := rand.New(rand.NewSource(vio.Seed()))
	pieces := []string{"/", "//", ".", "..", "...", "a", "\\", "..\\", "%2e", "\x00", "\xff", " ", "../", "/..", "b.c", "~"}
	moreBases := append([]string{"/var/www", "a/b/c", "../../y", "/x/./y/", "./", "..", "/.."}, bases...)
	for i := 0; i < *extra; i++ {
		n := 1 + rng.Intn(12)
		p := ""
		for j := 0; j < n; j++ {
			if rng.Intn(8) == 0 {
				p += string([]byte{byte(1 + rng.Intn(255))})
			} else {
				p += pieces[rng.Intn(len(pieces))]
			}
		}
		b := moreBases[rng.Intn(len(moreBases))]
		resolve(b, p)
	}
}
