// Command lanetime records how long PushTask calls on the real TaskLane take (extras X15, spec/tasklane/PushTimeout.tla):
// on a lane that is full and stays full (every worker pinned, the queue goroutine holding a task, the buffer at capacity) a
// call returns ErrTimeout, and not before the timeout configured when it began; SetTimeout during a call does not change that
// call's timer; on a lane with room a call returns nil.
package main

import (
	"context"
	"errors"
	"flag"
	"time"

	"github.com/whoisnian/glb/tasklane"
	"verif/harness/internal/vio"
)

type gated struct {
	started chan struct{}
	release chan struct{}
}

func (g *gated) Start() { close(g.started); <-g.release }

type row struct {
	N       int    `json:"n"`
	Q       int    `json:"q"`
	Kind    string `json:"kind"` // full | room | during
	Ms      int    `json:"ms"`   // timeout configured when the call began
	NewMs   int    `json:"newms"`
	Res     string `json:"res"`
	Elapsed int    `json:"us"`
}

func resTag(err error) string {
	switch {
	case err == nil:
		return "nil"
	case errors.Is(err, tasklane.ErrTimeout):
		return "timeout"
	}
	return "other"
}

func main() {
	out := flag.String("out", "cases.ndjson", "")
	reps := flag.Int("reps", 2, "")
	flag.Parse()
	w := vio.Create(*out)
	defer w.Close()
	for _, cfg := range [][2]int{{1, 0}, {2, 1}, {3, 2}} {
		n, q := cfg[0], cfg[1]
		ctx, cancel := context.WithCancel(context.Background())
		tl := tasklane.New(ctx, n, q)
		// a lane with room: nil at once, whatever the timeout
		tl.SetTimeout(800 * time.Millisecond)
		var all []*gated
		mk := func() *gated {
			g := &gated{make(chan struct{}), make(chan struct{})}
			all = append(all, g)
			return g
		}
		for i := 0; i < n; i++ { // pin every worker; each of these calls finds room
			g := mk()
			t0 := time.Now()
			err := tl.PushTask(g, i)
			w.Put(row{N: n, Q: q, Kind: "room", Ms: 800, Res: resTag(err), Elapsed: int(time.Since(t0).Microseconds())})
			select {
			case <-g.started:
			case <-time.After(3 * time.Second):
				vio.Fatal("a task pushed to an idle lane did not start")
			}
		}
		// fill lane 0 until two calls in a row time out
		tl.SetTimeout(40 * time.Millisecond)
		for fails, pushes := 0, 0; fails < 2; pushes++ {
			if pushes > q+8 {
				vio.Fatal("lane 0 never became full")
			}
			if tl.PushTask(mk(), 0) != nil {
				fails++
			} else {
				fails = 0
			}
		}
		for rep := 0; rep < *reps; rep++ {
			for _, ms := range []int{0, 1, 7, 25, 90, 260} {
				tl.SetTimeout(time.Duration(ms) * time.Millisecond)
				t0 := time.Now()
				err := tl.PushTask(mk(), 0)
				w.Put(row{N: n, Q: q, Kind: "full", Ms: ms, Res: resTag(err), Elapsed: int(time.Since(t0).Microseconds())})
			}
			// SetTimeout while a call is waiting: that call keeps its timer, the next call has the new one
			for _, pair := range [][2]int{{300, 5}, {60, 2500}} {
				tl.SetTimeout(time.Duration(pair[0]) * time.Millisecond)
				done := make(chan row, 1)
				g := mk()
				go func() {
					t0 := time.Now()
					err := tl.PushTask(g, 0)
					done <- row{N: n, Q: q, Kind: "during", Ms: pair[0], NewMs: pair[1], Res: resTag(err), Elapsed: int(time.Since(t0).Microseconds())}
				}()
				time.Sleep(20 * time.Millisecond)
				tl.SetTimeout(time.Duration(pair[1]) * time.Millisecond)
				select {
				case r := <-done:
					w.Put(r)
				case <-time.After(6 * time.Second):
					w.Put(row{N: n, Q: q, Kind: "during", Ms: pair[0], NewMs: pair[1], Res: "hang", Elapsed: 6000000})
				}
				if pair[1] < 1000 {
					t0 := time.Now()
					err := tl.PushTask(mk(), 0)
					w.Put(row{N: n, Q: q, Kind: "full", Ms: pair[1], Res: resTag(err), Elapsed: int(time.Since(t0).Microseconds())})
				}
			}
		}
		cancel()
		for _, g := range all {
			close(g.release)
		}
		tl.Wait()
	}
}
