// Command shellq records the real strutil.ShellEscape / ShellEscapeExceptTilde for every string
// of length <= maxlen over the shell's special characters plus a letter (and seeded strings over
// arbitrary non-NUL bytes from a harmless vocabulary), and hands every escaped text to the real
// dash and bash.  TLC (spec/util/ShellQuoteCases.tla) judges the recorded texts with the POSIX
// lexer model; the shells validate that model on exactly these texts.
package main

import (
	"bytes"
	"flag"
	"fmt"
	"math/rand"
	"os"
	"os/exec"
	"path/filepath"
	"strconv"
	"strings"
	"sync"

	"github.com/whoisnian/glb/util/strutil"
	"verif/harness/internal/vio"
)

type rec struct {
	S  []int  `json:"s"`
	E  []int  `json:"e"`
	T  []int  `json:"t"`
	Sh bool   `json:"sh"` // every shell read e as exactly [s] and t as the expected word
	Sd string `json:"sd,omitempty"`
}

const home = "/vhome/u"

var alphabet = []byte{'\'', '"', '\\', '$', '`', ' ', '\n', ';', '&', '|', '*', '~', '!', '#', 'a'}

func main() {
	maxlen := flag.Int("maxlen", 3, "exhaustive length bound")
	extra := flag.Int("extra", 1000, "seeded strings")
	out := flag.String("out", "cases.ndjson", "")
	shells := flag.String("shells", "dash,bash", "")
	work := flag.String("work", ".", "scratch directory")
	flag.Parse()

	var inputs []string
	var gen func(p []byte)
	gen = func(p []byte) {
		inputs = append(inputs, string(p))
		if len(p) < *maxlen {
			for _, c := range alphabet {
				gen(append(p[:len(p):len(p)], c))
			}
			if string(p) == "~" {
				gen([]byte("~/"))
			}
		}
	}
	gen(nil)
	// tilde-prefixes other than the one documented exception "~/": login names, ~+ and ~-, quoted and unquoted continuations
	for _, t := range []string{"~a/b", "~ab/", "~a", "~b/'", "~root/x", "~root", "~root/.ssh/id", "~nobody/", "~daemon/x y", "~+/x", "~-/x", "~0/", "~a b/", "~//", "~/~a/",
		"a~/b", "~\\/x", "~/a/~root/", "~root/$a", "~a/*", "~/*", "~/ a", "~/'", "~/\"", "~/\n", "~", "~~/", "~/~", " ~/a", "~root\n/x", "~:/x", "~a:~b/"} {
		inputs = append(inputs, t)
	}
	// very many special characters (whatever a fixed-size scratch area could hold)
	for _, n := range []int{15, 16, 17, 18, 31, 32, 33, 64, 65, 200} {
		inputs = append(inputs, strings.Repeat("'", n), strings.Repeat("a'", n), strings.Repeat("'\\", n)+"; a", strings.Repeat("$a ", n), "~/"+strings.Repeat("'", n))
	}
	rng := rand.New(rand.NewSource(vio.Seed()))
	// harmless vocabulary: no letters other than a/b, so no command or builtin name can be spelled
	pieces := []string{"'", "''", "\"", "\\", "$", "$a", "${a}", "$(a)", "`", "`a`", " ", "  ", "\n", "\t", ";", "&", "&&", "|", "||",
		"*", "?", "[a]", "~", "~/", "!", "!!", "#", "a", "b", "ab", "/", "-", "=", "%", "^", "(", ")", "<", ">", "{a,b}", "\r",
		"\x01", "\x7f", "\x80", "\xff", "\xc3\xa9", "\xe2\x80\xa8", "0", "1"}
	for i := 0; i < *extra; i++ {
		n := 1 + rng.Intn(10)
		var sb strings.Builder
		if rng.Intn(6) == 0 {
			sb.WriteString("~/")
		}
		for j := 0; j < n; j++ {
			if rng.Intn(10) == 0 {
				sb.WriteByte(byte(1 + rng.Intn(255)))
			} else {
				sb.WriteString(pieces[rng.Intn(len(pieces))])
			}
		}
		s := sb.String()
		if strings.ContainsAny(s, "cdefghijklmnopqrstuvwxyzCDEFGHIJKLMNOPQRSTUVWXYZ") {
			continue // keep the no-command-name guarantee
		}
		inputs = append(inputs, s)
	}

	// a command line is built from several escaped words: all results are computed first and looked at afterwards
	// (a returned string must stay what it was)
	recs := make([]rec, len(inputs))
	es, ts := make([]string, len(inputs)), make([]string, len(inputs))
	for i, s := range inputs {
		es[i], ts[i] = strutil.ShellEscape(s), strutil.ShellEscapeExceptTilde(s)
	}
	for i, s := range inputs {
		recs[i] = rec{S: vio.Ints(s), E: vio.Ints(es[i]), T: vio.Ints(ts[i]), Sh: true}
	}

	// ---- real shells
	cwd := filepath.Join(*work, "shcwd")
	os.MkdirAll(cwd, 0o755)
	os.WriteFile(filepath.Join(cwd, "zz"), nil, 0o644) // makes an active glob visible
	type job struct{ lo, hi int }
	const batch = 400
	var jobs []job
	for lo := 0; lo < len(inputs); lo += batch {
		jobs = append(jobs, job{lo, min(lo+batch, len(inputs))})
	}
	var mu sync.Mutex
	for _, sh := range strings.Split(*shells, ",") {
		if sh == "" {
			continue
		}
		shPath, err := exec.LookPath(sh)
		if err != nil {
			vio.Fatal("shell %s not found", sh)
		}
		ch := make(chan job)
		var wg sync.WaitGroup
		for w := 0; w < 12; w++ {
			wg.Add(1)
			go func(w int) {
				defer wg.Done()
				for j := range ch {
					texts := make([]string, 0, 2*(j.hi-j.lo))
					want := make([]string, 0, 2*(j.hi-j.lo))
					for i := j.lo; i < j.hi; i++ {
						s := inputs[i]
						texts = append(texts, vio.Bytes(recs[i].E))
						want = append(want, s)
						texts = append(texts, vio.Bytes(recs[i].T))
						if strings.HasPrefix(s, "~/") {
							want = append(want, home+s[1:])
						} else {
							want = append(want, s)
						}
					}
					got := runShell(shPath, cwd, fmt.Sprintf("%s/%s_%d", *work, sh, w), texts)
					for k := range texts {
						ok := got[k] != nil && len(got[k]) == 1 && got[k][0] == want[k]
						if !ok {
							mu.Lock()
							r := &recs[j.lo+k/2]
							r.Sh = false
							if r.Sd == "" {
								r.Sd = fmt.Sprintf("%s read %q as %q", sh, texts[k], got[k])
							}
							mu.Unlock()
						}
					}
				}
			}(w)
		}
		for _, j := range jobs {
			ch <- j
		}
		close(ch)
		wg.Wait()
	}
	w := vio.Create(*out)
	for i := range recs {
		w.Put(recs[i])
	}
	w.Close()
}

// runShell lets the shell read each text as the arguments of a function that dumps its argv.
// Returns per text the argv it received (nil if the shell did not report it cleanly).
func runShell(sh, cwd, base string, texts []string) [][]string {
	res := make([][]string, len(texts))
	got := shellBatch(sh, cwd, base, texts, nil)
	var redo []int
	for i := range texts {
		if got[i] == nil {
			redo = append(redo, i)
		} else {
			res[i] = got[i]
		}
	}
	// a text that disturbed its batch is re-read alone (one shell per text)
	if len(redo) > 0 && len(redo) < len(texts) || len(redo) == len(texts) && len(texts) > 1 {
		for _, i := range redo {
			g := shellBatch(sh, cwd, base, texts[i:i+1], nil)
			if g[0] != nil {
				res[i] = g[0]
			} else {
				res[i] = []string{"<unreadable>", "<unreadable>"}
			}
		}
	}
	return res
}

func shellBatch(sh, cwd, base string, texts []string, _ []int) [][]string {
	outFile := base + ".out"
	os.Remove(outFile)
	var sc bytes.Buffer
	sc.WriteString("d() { printf '%s\\000%s\\000' \"$I\" \"$#\" >>\"$OUT\"; for x do printf '%s\\000' \"$x\" >>\"$OUT\"; done; }\n")
	for i, t := range texts {
		fmt.Fprintf(&sc, "I=%d; d %s\n", i, t)
	}
	script := base + ".sh"
	os.WriteFile(script, sc.Bytes(), 0o644)
	cmd := exec.Command(sh, script)
	cmd.Dir = cwd
	cmd.Env = []string{"HOME=" + home, "PATH=/nonexistent-verif", "LC_ALL=C", "OUT=" + outFile}
	cmd.Run() // exit status is irrelevant (syntax errors are expected for broken escapes)
	data, _ := os.ReadFile(outFile)
	res := make([][]string, len(texts))
	seen := make([]int, len(texts))
	parts := bytes.Split(data, []byte{0})
	for p := 0; p+1 < len(parts); {
		idx, err1 := strconv.Atoi(string(parts[p]))
		argc, err2 := strconv.Atoi(string(parts[p+1]))
		if err1 != nil || err2 != nil || idx < 0 || idx >= len(texts) || p+2+argc > len(parts)-1 {
			// lost framing: everything from here on is unreliable
			for i := range res {
				if seen[i] == 0 {
					res[i] = nil
				}
			}
			break
		}
		args := make([]string, argc)
		for a := 0; a < argc; a++ {
			args[a] = string(parts[p+2+a])
		}
		seen[idx]++
		if seen[idx] == 1 {
			res[idx] = args
		} else {
			res[idx] = append(res[idx], "<again>") // dumped twice: not one word
		}
		p += 2 + argc
	}
	for i := range res {
		if seen[i] == 0 {
			res[i] = nil
		}
	}
	return res
}
