// Command fileops materialises the scenarios exported by TLC from spec/util/FileOps.tla in fresh
// temporary directories (second file system: a tmpfs directory, so rename fails with EXDEV), calls
// the real osutil.CopyFile / MoveFile and compares the result and the resulting tree (existence,
// link structure, inode sharing, content) with the post-state the specification predicts.
package main

import (
	"bufio"
	"bytes"
	"encoding/json"
	"errors"
	"flag"
	"fmt"
	"math/rand"
	"os"
	"path/filepath"
	"runtime"
	"syscall"
	"time"

	"github.com/whoisnian/glb/ansi"
	"github.com/whoisnian/glb/logger"

	"github.com/whoisnian/glb/util/osutil"
	"verif/harness/internal/vio"
)

type node struct {
	T string `json:"t"`
	I int    `json:"i"`
	C string `json:"c"`
}
type scenario struct {
	Scen struct {
		Op  string `json:"op"`
		Src string `json:"src"`
		Dst string `json:"dst"`
	} `json:"scen"`
	OK     bool            `json:"ok"`
	Result string          `json:"result"`
	Final  map[string]node `json:"final"`
}
type mismatch struct {
	Kind  string `json:"kind"` // violation (the statement is contradicted) | drift (only the predicted tree differs)
	Scen  any    `json:"scen"`
	Size  int    `json:"size"`
	Spell string `json:"spell"`
	What  string `json:"what"`
}

func dev(p string) uint64 {
	var st syscall.Stat_t
	if syscall.Stat(p, &st) != nil {
		return 0
	}
	return uint64(st.Dev)
}
func inode(p string) uint64 {
	var st syscall.Stat_t
	if syscall.Stat(p, &st) != nil {
		return 0
	}
	return st.Ino
}

func main() {
	in := flag.String("in", "scenarios.ndjson", "")
	out := flag.String("out", "mm.ndjson", "")
	work := flag.String("work", ".", "directory on the first file system")
	other := flag.String("other", "/dev/shm", "directory on another file system")
	reps := flag.Int("reps", 1, "")
	flag.Parse()
	rng := rand.New(rand.NewSource(vio.Seed()))
	w := vio.Create(*out)
	defer w.Close()
	// the result line goes to a private duplicate of stdout
	statsOut := os.Stdout
	if fd, err := syscall.Dup(1); err == nil {
		statsOut = os.NewFile(uintptr(fd), "stats")
	}
	// The rest of the program the copies are part of: it has asked whether its console is a terminal, it keeps writing to
	// stderr, and - through a logger derived before a log rotation - to a log file that has been closed since.  None of that
	// may end up in a copied file.
	ansi.IsSupported(os.Stdout.Fd())
	ansi.IsSupported(os.Stderr.Fd())
	runtime.GC()
	runtime.GC()
	time.Sleep(20 * time.Millisecond)
	stale := logger.New(logger.NewTextHandler(os.Stderr, logger.NewOptions(logger.LevelInfo, false, false)))
	if lf, err := os.CreateTemp(*work, "app_log_"); err == nil {
		stale = logger.New(logger.NewTextHandler(lf, logger.NewOptions(logger.LevelInfo, false, false))).With("component", "copier")
		spare, _ := os.Open(os.DevNull)
		lf.Close() // "rotated": the derived logger still holds the old file
		if spare != nil {
			spare.Close()
		}
		os.Remove(lf.Name())
	}
	stopAmbient := make(chan struct{})
	defer close(stopAmbient)
	go func() {
		t := time.NewTicker(500 * time.Microsecond)
		defer t.Stop()
		for {
			select {
			case <-stopAmbient:
				return
			case <-t.C:
				os.Stderr.WriteString("hb\n")
				stale.Info("copy in progress")
			}
		}
	}()
	otherOK := dev(*other) != 0 && dev(*other) != dev(*work)
	var scens []scenario
	f, err := os.Open(*in)
	if err != nil {
		vio.Fatal("%v", err)
	}
	sc := bufio.NewScanner(f)
	sc.Buffer(make([]byte, 1<<20), 1<<24)
	for sc.Scan() {
		var s scenario
		if json.Unmarshal(sc.Bytes(), &s) != nil {
			vio.Fatal("bad scenario line")
		}
		scens = append(scens, s)
	}
	sizes := []int{0, 12, 33 << 10, 64 << 10, 1 << 20, 2<<20 + 123457, 3 << 20}
	// the source may carry a name a copy routine could pick for its own scratch file next to the destination
	srcNames := []string{"src.bin", "dst.bin.tmp", "src.bin", "dst.bin~", ".dst.bin.tmp", "src.bin", "dst.bin.part", "dst.bin.bak", "dst.bin.swp"}
	runs, skipped, crossfs := 0, 0, 0
	for rep := 0; rep < *reps; rep++ {
		for _, s := range scens {
			for _, size := range sizes {
				if size >= 1<<20 && rep > 0 {
					continue
				}
				srcName := srcNames[(runs+skipped)%len(srcNames)]
				if s.Scen.Dst == "full" && size == 0 {
					skipped++
					continue
				}
				isOther := s.Scen.Dst == "otherFsMissing" || s.Scen.Dst == "otherFsFile" || s.Scen.Dst == "otherFsSymlinkToSrc"
				if isOther && !otherOK {
					skipped++
					continue
				}
				d1, _ := os.MkdirTemp(*work, "fo1_")
				d2 := ""
				if isOther {
					d2, _ = os.MkdirTemp(*other, "verif_fo2_")
					crossfs++
				}
				srcBytes := make([]byte, size)
				rng.Read(srcBytes)
				switch pat := (runs + skipped) % 5; { // runs of zero bytes: whole file, tail, head, a hole in the middle (block-aligned)
				case pat == 1:
					clear(srcBytes)
				case pat == 2:
					clear(srcBytes[size/2:])
				case pat == 3:
					clear(srcBytes[:size/2])
				case pat == 4 && size >= 8:
					clear(srcBytes[size/4 : size/4*3])
				}
				dstBytes := []byte("previous destination content " + fmt.Sprint(rng.Int63()))
				S := filepath.Join(d1, srcName)
				T := filepath.Join(d1, "target.bin")
				switch s.Scen.Src {
				case "file":
					os.WriteFile(S, srcBytes, 0o644)
				case "linkToFile":
					R := filepath.Join(d1, "real.bin")
					os.WriteFile(R, srcBytes, 0o644)
					os.Symlink(R, S)
				case "dir":
					os.Mkdir(S, 0o755)
					os.WriteFile(filepath.Join(S, "inner"), []byte("x"), 0o644)
				}
				D := filepath.Join(d1, "dst.bin")
				spell := "plain"
				switch s.Scen.Dst {
				case "file":
					if runs%2 == 1 && size > 0 {
						// an older file of exactly the source's length and modification time, with other content
						dstBytes = bytes.Repeat([]byte{'d'}, size)
						os.WriteFile(D, dstBytes, 0o644)
						when := time.Unix(1700000000, 0)
						os.Chtimes(S, when, when)
						os.Chtimes(D, when, when)
						spell = "same size and mtime"
					} else {
						os.WriteFile(D, dstBytes, 0o644)
					}
				case "same":
					switch rng.Intn(3) {
					case 0:
						D = S
					case 1:
						D, spell = d1+"/./"+srcName, "./"
					default:
						os.Mkdir(filepath.Join(d1, "sub"), 0o755)
						D, spell = d1+"/sub/../"+srcName, "sub/.."
					}
				case "symlinkToSrc":
					D = filepath.Join(d1, "dst.lnk")
					if rng.Intn(2) == 0 {
						os.Symlink(S, D)
					} else {
						os.Symlink(srcName, D)
						spell = "relative link"
					}
				case "hardlinkToSrc":
					D = filepath.Join(d1, "dst.hard")
					os.Link(S, D)
				case "dir":
					D = filepath.Join(d1, "dstdir")
					os.Mkdir(D, 0o755)
					if rng.Intn(2) == 0 {
						os.WriteFile(filepath.Join(D, "occupant"), []byte("y"), 0o644)
						spell = "non-empty dir"
					}
				case "parentMissing":
					D = filepath.Join(d1, "nodir", "dst.bin")
				case "parentIsFile":
					os.WriteFile(filepath.Join(d1, "afile"), []byte("z"), 0o644)
					D = filepath.Join(d1, "afile", "dst.bin")
				case "otherFsMissing":
					D = filepath.Join(d2, "dst.bin")
				case "otherFsFile":
					D = filepath.Join(d2, "dst.bin")
					os.WriteFile(D, dstBytes, 0o644)
				case "otherFsSymlinkToSrc":
					D = filepath.Join(d2, "dst.lnk")
					os.Symlink(S, D)
				case "full":
					// a private node of the "full" device (1,7) inside the scratch directory: opens fine, every write fails with
					// ENOSPC - and whatever a copy routine does to the node itself stays in the scratch directory
					D = filepath.Join(d1, "full.dev")
					if err := syscall.Mknod(D, syscall.S_IFCHR|0o666, 1<<8|7); err != nil {
						skipped++
						os.RemoveAll(d1)
						continue
					}
					if f, err := os.OpenFile(D, os.O_WRONLY, 0); err != nil {
						skipped++ // device nodes not usable here (nodev mount)
						os.RemoveAll(d1)
						continue
					} else {
						_, werr := f.Write([]byte("x"))
						f.Close()
						if werr == nil {
							skipped++
							os.RemoveAll(d1)
							continue
						}
					}
				case "srcTarget":
					D = filepath.Join(d1, "real.bin")
				case "symlinkToSrcTarget":
					D = filepath.Join(d1, "dst.lnk")
					os.Symlink(filepath.Join(d1, "real.bin"), D)
				case "danglingSymlink":
					D = filepath.Join(d1, "dst.lnk")
					os.Symlink(T, D)
				case "symlinkToOther":
					os.WriteFile(T, dstBytes, 0o644)
					D = filepath.Join(d1, "dst.lnk")
					os.Symlink(T, D)
				}
				var cerr error
				var pan any
				func() {
					defer func() { pan = recover() }()
					if s.Scen.Op == "copy" {
						_, cerr = osutil.CopyFile(S, D)
					} else {
						cerr = osutil.MoveFile(S, D)
					}
				}()
				runs++
				report := func(format string, a ...any) {
					w.Put(mismatch{Kind: "drift", Scen: s.Scen, Size: size, Spell: spell, What: fmt.Sprintf(format, a...)})
				}
				violation := func(format string, a ...any) {
					w.Put(mismatch{Kind: "violation", Scen: s.Scen, Size: size, Spell: spell, What: fmt.Sprintf(format, a...)})
				}
				if pan != nil {
					violation("panicked: %v", pan)
				}
				// ---- the statement itself, on the real outcome
				if s.Scen.Src == "file" || s.Scen.Src == "linkToFile" {
					sb, serr := os.ReadFile(S)
					var db []byte
					derr := errors.New("a device, not a file that could hold the bytes")
					if s.Scen.Dst != "full" {
						db, derr = os.ReadFile(D)
					}
					srcIntact := serr == nil && bytes.Equal(sb, srcBytes)
					dstHas := derr == nil && bytes.Equal(db, srcBytes)
					switch {
					case s.Scen.Op == "copy" && cerr == nil && !(dstHas && srcIntact):
						violation("CopyFile returned nil but destination holds %s and source holds %s (source had %d bytes)",
							describe(db, srcBytes, dstBytes, derr), describe(sb, srcBytes, dstBytes, serr), size)
					case s.Scen.Op == "copy" && cerr != nil && !srcIntact:
						violation("CopyFile failed (%v) and the source now holds %s (it had %d bytes)", cerr, describe(sb, srcBytes, dstBytes, serr), size)
					case s.Scen.Op == "move" && cerr == nil && !dstHas:
						violation("MoveFile returned nil but destination holds %s (source had %d bytes)", describe(db, srcBytes, dstBytes, derr), size)
					case s.Scen.Op == "move" && cerr != nil && !srcIntact:
						violation("MoveFile failed (%v) and the source now is %s (it had %d bytes)", cerr, describe(sb, srcBytes, dstBytes, serr), size)
					}
				}
				if (cerr == nil) != s.OK {
					report("returned err=%v, the specification predicts %s", cerr, s.Result)
				}
				paths := map[string]string{"S": S, "D": D, "T": T, "R": filepath.Join(d1, "real.bin")}
				content := map[string][]byte{"c_src": srcBytes, "c_dst": dstBytes, "empty": {}}
				for name, want := range s.Final {
					p := paths[name]
					if name == "D" && (s.Scen.Dst == "same" || s.Scen.Dst == "srcTarget" || s.Scen.Dst == "full") {
						continue // D is S / R
					}
					li, lerr := os.Lstat(p)
					got := "none"
					switch {
					case lerr != nil:
						got = "none"
					case li.Mode()&os.ModeSymlink != 0:
						got = "link"
					case li.IsDir():
						got = "dir"
					default:
						got = "file"
					}
					wantT := want.T
					if wantT == "unusable" {
						wantT = "none"
					}
					if got != wantT {
						report("%s is %s afterwards, the specification predicts %s (result %v)", name, got, wantT, cerr)
						continue
					}
					if got == "file" {
						b, _ := os.ReadFile(p)
						if !bytes.Equal(b, content[want.C]) {
							report("%s holds %d bytes (%s), the specification predicts %s (%d bytes); returned %v", name, len(b),
								describe(b, srcBytes, dstBytes, nil), want.C, len(content[want.C]), cerr)
						}
					}
				}
				// inode sharing between S and D as predicted
				if fs, fd := s.Final["S"], s.Final["D"]; s.Scen.Dst != "same" && fs.T == "file" && fd.T == "file" {
					if (inode(S) == inode(D)) != (fs.I == fd.I) {
						report("S and D share an inode: %v, predicted: %v", inode(S) == inode(D), fs.I == fd.I)
					}
				}
				// ---- the call after this one: whatever the previous call left behind (a failed one in particular), a plain copy of
				// a small file to a fresh destination returns nil only with exactly the source's bytes in place
				for k, psize := range []int{37, 0, 5000} {
					ps, pd := filepath.Join(d1, fmt.Sprintf("probe%d.src", k)), filepath.Join(d1, fmt.Sprintf("probe%d.dst", k))
					pb := make([]byte, psize)
					rng.Read(pb)
					os.WriteFile(ps, pb, 0o644)
					var perr error
					if k == 2 {
						perr = osutil.MoveFile(ps, pd)
					} else {
						_, perr = osutil.CopyFile(ps, pd)
					}
					got, rerr := os.ReadFile(pd)
					if perr != nil {
						violation("a plain %d-byte copy / move to a fresh destination right after this call failed: %v", psize, perr)
					} else if rerr != nil || !bytes.Equal(got, pb) {
						violation("after this call (it returned %v) a plain copy / move of a %d-byte file to a fresh destination returned nil but the destination holds %d bytes that are not the source's",
							cerr, psize, len(got))
					}
				}
				os.RemoveAll(d1)
				if d2 != "" {
					os.RemoveAll(d2)
				}
			}
		}
	}
	st, _ := json.Marshal(map[string]int{"runs": runs, "skipped_no_second_fs": skipped, "cross_fs_runs": crossfs, "scenarios": len(scens)})
	fmt.Fprintln(statsOut, string(st))
}

func describe(b, src, dst []byte, err error) string {
	switch {
	case err != nil:
		return "nothing (" + err.Error() + ")"
	case len(b) == 0:
		return "empty"
	case bytes.Equal(b, src):
		return "the source's original bytes"
	case bytes.Equal(b, dst):
		return "the destination's previous bytes"
	}
	return "other bytes"
}
