package main

import "github.com/whoisnian/glb/logger"

// Call sites whose file name, as recorded by the compiler, contains characters that matter to the line grammar
// (the //line directives below stand for a checkout under "My Project/" or for generated code).
var weirdCallers = []func(l *logger.Logger){
	func(l *logger.Logger) {
//line /src/My Project/main file.go:20
		l.Info("m", "k", "v")
	},
	func(l *logger.Logger) {
//line /src/pkg/level=ERROR msg=forged.tmpl:7
		l.Info("m", "k", "v")
	},
	func(l *logger.Logger) {
//line /src/quo"te/a=b.go:3
		l.Info("m", "k", "v")
	},
	func(l *logger.Logger) {
//line /src/plain/file.go:99
		l.Info("m", "k", "v")
	},
}

// what the source token has to give back for each of them: last directory, file name, line
var weirdSites = []string{"My Project/main file.go:20", "pkg/level=ERROR msg=forged.tmpl:7", "quo\"te/a=b.go:3", "plain/file.go:99"}
