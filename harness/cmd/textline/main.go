// Command textline binds spec/logger/TextLine.tla to the real Text handler: derivation chains and
// attribute forests exported by TLC (mode struct), one record per value kind (mode values), and every
// 1-byte string, 2-byte strings and Unicode scalar values as message, key, value, With value and
// group name (mode strings).  The raw bytes of each written line (after the constant time/level
// head) are recorded; TLC (spec/logger/TextCases.tla) tokenizes them with the independent grammar of
// the specification and compares with the tokens the statement prescribes.
package main

import (
	"bufio"
	"bytes"
	"context"
	"encoding/json"
	"errors"
	"flag"
	"fmt"
	"log/slog"
	"math"
	"math/rand"
	"os"
	"strconv"
	"strings"
	"time"
	"unicode/utf8"

	"github.com/whoisnian/glb/logger"
	"verif/harness/internal/sites"
	"verif/harness/internal/vio"
)

type capture struct{ writes [][]byte }

func (c *capture) Write(p []byte) (int, error) {
	c.writes = append(c.writes, append([]byte(nil), p...))
	return len(p), nil
}

// tail returns the line after "time=<ts> level=<L> " and whether the record was exactly one Write
// ending in its only newline... the newline count is judged by the tokenizer (a newline inside the
// line ends it early), so only "one Write" and the constant head are decided here.
func tail(c *capture, level string) ([]int, bool, bool) {
	if len(c.writes) != 1 {
		return []int{}, false, false
	}
	w := c.writes[0]
	if !bytes.HasPrefix(w, []byte("time=")) {
		return vio.Ints(string(w)), true, false
	}
	i := bytes.IndexByte(w, ' ')
	if i < 0 {
		return vio.Ints(string(w)), true, false
	}
	if _, err := time.Parse(time.RFC3339, string(w[5:i])); err != nil {
		return vio.Ints(string(w)), true, false
	}
	rest := w[i+1:]
	head := []byte("level=" + level + " ")
	if !bytes.HasPrefix(rest, head) {
		return vio.Ints(string(rest)), true, false
	}
	return vio.Ints(string(rest[len(head):])), true, true
}

type node struct {
	T  string `json:"t"`
	K  string `json:"k"`
	X  string `json:"x"`
	C  []node `json:"c"`
	KB []int  `json:"kb"`
	XB []int  `json:"xb"`
}
type item struct {
	Op   string `json:"op"`
	F    []node `json:"f"`
	Name string `json:"name"`
	NB   []int  `json:"nb"`
}
type scenario struct {
	Chain []item `json:"chain"`
	Site  []node `json:"site"`
}
type ptrErr struct{ msg string }

func (e *ptrErr) Error() string { return e.msg }

type panicErr struct{}

func (panicErr) Error() string { panic("Error() panics") }

type lazy struct{ v slog.Value }

func (l lazy) LogValue() slog.Value { return l.v }

func toAttr(n node, rng *rand.Rand, top bool) slog.Attr {
	if n.T == "leaf" {
		if rng.Intn(4) == 0 {
			return slog.Any(n.K, lazy{slog.StringValue(n.X)})
		}
		return slog.String(n.K, n.X)
	}
	var kids []slog.Attr
	for _, c := range n.C {
		kids = append(kids, toAttr(c, rng, false))
	}
	if len(n.C) == 0 && !(top && rng.Intn(2) == 0) {
		return slog.Attr{Key: n.K, Value: slog.AnyValue(lazy{slog.GroupValue()})}
	}
	if rng.Intn(5) == 0 {
		return slog.Attr{Key: n.K, Value: slog.AnyValue(lazy{slog.GroupValue(kids...)})}
	}
	return slog.Attr{Key: n.K, Value: slog.GroupValue(kids...)}
}

func fill(ns []node) {
	for i := range ns {
		ns[i].KB, ns[i].XB = vio.Ints(ns[i].K), vio.Ints(ns[i].X)
		if ns[i].C == nil {
			ns[i].C = []node{}
		}
		fill(ns[i].C)
	}
}

func runStruct(in, out string, rng *rand.Rand) {
	f, err := os.Open(in)
	if err != nil {
		vio.Fatal("%v", err)
	}
	w := vio.Create(out)
	defer w.Close()
	sc := bufio.NewScanner(f)
	sc.Buffer(make([]byte, 1<<20), 1<<24)
	for sc.Scan() {
		var s scenario
		if json.Unmarshal(sc.Bytes(), &s) != nil {
			vio.Fatal("bad scenario")
		}
		if len(s.Chain) > 0 && rng.Intn(2) == 0 {
			// a padding attribute of seeded size in front: handler buffers get all lengths / spare capacities
			pad := item{Op: "with", F: []node{{T: "leaf", K: "pad", X: strings.Repeat("p", rng.Intn(48)), C: []node{}}}}
			s.Chain = append([]item{pad}, s.Chain...)
		}
		fill(s.Site)
		for i := range s.Chain {
			if s.Chain[i].F == nil {
				s.Chain[i].F = []node{}
			}
			fill(s.Chain[i].F)
			s.Chain[i].NB = vio.Ints(s.Chain[i].Name)
		}
		c := &capture{}
		l := logger.New(logger.NewTextHandler(c, logger.NewOptions(logger.LevelInfo, false, false)))
		for _, it := range s.Chain {
			parent := l
			for _, other := range s.Chain {
				if other.Op == "group" {
					// group names of the chain derived elsewhere in the tree first, directly and from a With-sibling: a handler that
					// memoises derived groups by name must not hand them out to this chain
					_ = parent.WithGroup(other.Name)
					_ = parent.With("decoyT", 7).WithGroup(other.Name)
				}
			}
			if it.Op == "group" {
				l = l.WithGroup(it.Name)
			} else {
				var args []any
				for _, n := range it.F {
					args = append(args, toAttr(n, rng, true))
				}
				l = l.With(args...)
			}
			_ = parent.With("decoy", strings.Repeat("#", 1+rng.Intn(40)), "decoy2", 12345)
			_ = parent.WithGroup("decoygroup")
			_ = parent.WithGroup("d") // last, and short enough to fit into whatever spare capacity the parent's group path has
		}
		var args []any
		for _, n := range s.Site {
			args = append(args, toAttr(n, rng, false))
		}
		l.Info("m", args...)
		t, one, head := tail(c, "INFO")
		w.Put(map[string]any{"mode": "struct", "chain": s.Chain, "site": s.Site, "tail": t, "onewrite": one, "head": head})
	}
}

type tmOK struct{}

func (tmOK) MarshalText() ([]byte, error) { return []byte("TM ok=1"), nil }

type tmFail struct{}

func (tmFail) MarshalText() ([]byte, error) { return nil, errors.New("TMF! x=y") }

type plain struct {
	A int
	B string
}

func runValues(out string) {
	w := vio.Create(out)
	defer w.Close()
	t0 := time.Date(2021, 3, 4, 5, 6, 7, 89, time.UTC)
	kinds := []struct {
		name string
		v    any
	}{
		{"int64min", int64(math.MinInt64)}, {"uint64max", uint64(math.MaxUint64)}, {"float", 0.1}, {"nan", math.NaN()}, {"posinf", math.Inf(1)},
		{"booltrue", true}, {"dur", 1500 * time.Millisecond}, {"time", t0}, {"err", errors.New("E! a=b")},
		{"ansi", logger.AnsiString{Prefix: "\x1b[31m", Value: "A V"}}, {"nil", nil}, {"bytes", []byte{1, 2, 61}},
		{"map", map[string]int{"a": 1}}, {"struct", plain{1, "x y"}}, {"tmOK", tmOK{}}, {"tmFail", tmFail{}},
		{"valuerStr", lazy{slog.StringValue("L V")}}, {"valuerErr", lazy{slog.AnyValue(errors.New("E! a=b"))}},
		// error values whose Error method cannot be called: a nil pointer receiver, a method that panics
		{"nilErrPtr", (*ptrErr)(nil)}, {"valuerNilErrPtr", lazy{slog.AnyValue((*ptrErr)(nil))}}, {"panicErr", panicErr{}},
		{"valuerGroup", lazy{slog.GroupValue(slog.Int("a", 1))}}, {"valuerEmptyGroup", lazy{slog.GroupValue()}},
		{"newline", "two\nlines"}, {"fakefield", "x level=ERROR msg=forged"}, {"quote", `say "hi"`}, {"empty", ""},
	}
	for _, addSource := range []bool{false, true} {
		for _, level := range []slog.Level{logger.LevelInfo, logger.LevelFatal} {
			for _, k := range kinds {
				if level != logger.LevelInfo && k.name != "err" {
					continue
				}
				for _, where := range []string{"site", "with", "group"} {
					c := &capture{}
					l := logger.New(logger.NewTextHandler(c, logger.NewOptions(logger.LevelDebug, false, addSource)))
					func() {
						defer func() { recover() }() // a logging call that panics has written nothing: judged as such
						switch where {
						case "site":
							l.Log(nil, level, "m", "v", k.v, "z", 1)
						case "with":
							l.With("v", k.v).Log(nil, level, "m", "z", 1)
						default:
							l.WithGroup("g").Log(nil, level, "m", slog.Group("h", slog.Any("v", k.v)), "z", 1)
						}
					}()
					lv := map[slog.Level]string{logger.LevelInfo: "INFO", logger.LevelFatal: "FATAL"}[level]
					t, one, head := tail(c, lv)
					w.Put(map[string]any{"mode": "values", "kind": k.name, "where": where, "source": addSource, "tail": t, "onewrite": one, "head": head})
				}
			}
		}
	}
}

func runStrings(out, tier string, rng *rand.Rand) {
	w := vio.Create(out)
	defer w.Close()
	// group2: the string names an OUTER group of a chain of groups; sgroup: it names a group attribute of the record;
	// gkey: it is a key inside an open group
	positions := []string{"msg", "key", "value", "with", "group", "group2", "sgroup", "gkey"}
	n := 0
	emit := func(s string, pos string) {
		if (pos == "group" || pos == "group2" || pos == "sgroup") && s == "" {
			pos = "value"
		}
		c := &capture{}
		l := logger.New(logger.NewTextHandler(c, logger.NewOptions(logger.LevelInfo, false, false)))
		switch pos {
		case "msg":
			l.Info(s)
		case "key":
			l.Info("m", s, "v")
		case "value":
			l.Info("m", "k", s)
		case "with":
			l.With("k", s).Info("m")
		case "group":
			l.WithGroup(s).Info("m", "k", "v")
		case "group2":
			l.WithGroup(s).WithGroup("z").With("k", "v").Info("m")
		case "sgroup":
			l.Info("m", slog.Group(s, slog.String("k", "v")))
		case "gkey":
			l.WithGroup("z").Info("m", s, "v")
		}
		t, one, head := tail(c, "INFO")
		w.Put(map[string]any{"mode": "strings", "in": vio.Ints(s), "pos": pos, "tail": t, "onewrite": one, "head": head})
		n++
	}
	emit("", "msg")
	emit("", "key")
	emit("", "value")
	for b := 0; b < 256; b++ {
		for _, p := range positions {
			emit(string([]byte{byte(b)}), p)
		}
	}
	reps := []byte{0, 9, 10, 31, 32, 34, 46, 61, 92, 97, 127, 128, 191, 194, 160, 224, 226, 168, 237, 240, 144, 244, 255}
	if tier == "thorough" {
		for a := 0; a < 256; a++ {
			for b := 0; b < 256; b++ {
				emit(string([]byte{byte(a), byte(b)}), positions[(a+b)%len(positions)])
			}
		}
	} else {
		for _, a := range reps {
			for b := 0; b < 256; b++ {
				emit(string([]byte{a, byte(b)}), positions[(int(a)+b)%len(positions)])
			}
		}
	}
	var cps []rune
	if tier == "thorough" {
		for r := rune(0); r <= utf8.MaxRune; r++ {
			if r < 0xD800 || r > 0xDFFF {
				cps = append(cps, r)
			}
		}
	} else {
		for _, r := range []rune{0, 0x1f, 0x20, 0x22, 0x3d, 0x5c, 0x7e, 0x7f, 0x80, 0x85, 0x9f, 0xa0, 0xad, 0x7ff, 0x800, 0x1680, 0x180e, 0x2000, 0x200a, 0x200b,
			0x2027, 0x2028, 0x2029, 0x202a, 0x202f, 0x205f, 0x2060, 0x3000, 0xd7ff, 0xe000, 0xfeff, 0xfffd, 0xfffe, 0xffff, 0x10000, 0xe0001, 0x10ffff} {
			cps = append(cps, r)
		}
		for i := 0; i < 6000; i++ {
			r := rune(rng.Intn(0x110000))
			if r < 0xD800 || r > 0xDFFF {
				cps = append(cps, r)
			}
		}
	}
	for i, r := range cps {
		emit(string(r), positions[i%len(positions)])
		if i%89 == 0 {
			emit("a"+string(r)+"\xff", positions[(i/89)%len(positions)])
		}
	}
	for _, s := range []string{"a b", "a=b", "a\"b", "a\\b", "\\", "\\n", "x\ny=z", " ", "=", "\"", "a.b", "\xe2\x80", "\xc0\xaf", "k=v k2=v2", "tab\there", " ", "a b", "　x"} {
		for _, p := range positions {
			emit(s, p)
		}
	}
	// record times given explicitly, in an order a clock does not produce (later, earlier, same second, other zones), through
	// one handler family: the time token must give back each record's own time
	{
		c := &capture{}
		root := logger.NewTextHandler(c, logger.NewOptions(logger.LevelInfo, false, false))
		fam := []logger.Handler{root, root.WithAttrs([]slog.Attr{slog.String("k", "v")}), root.WithGroup("g")}
		t0 := time.Date(2024, 2, 29, 23, 59, 58, 0, time.UTC)
		offs := []time.Duration{0, time.Second, 0, -time.Hour, 1500 * time.Millisecond, 2 * time.Second, -24 * time.Hour, 400 * 24 * time.Hour, 999 * time.Millisecond, -time.Second}
		zones := []*time.Location{time.UTC, time.FixedZone("", 5*3600+1800), time.FixedZone("", -1800), time.FixedZone("", -3600*9)}
		for i := 0; i < 40; i++ {
			tm := t0.Add(offs[i%len(offs)]).In(zones[(i/3)%len(zones)])
			c.writes = nil
			r := slog.NewRecord(tm, logger.LevelInfo, "m", 0)
			fam[i%len(fam)].Handle(context.Background(), r)
			line := []byte{}
			if len(c.writes) == 1 {
				line = c.writes[0]
			}
			w.Put(map[string]any{"mode": "time", "in": vio.Ints(tm.Format(time.RFC3339)), "pos": "time", "tail": vio.Ints(string(line)), "onewrite": len(c.writes) == 1, "head": true})
			n++
		}
	}
	// the caller's file as the compiler reports it may contain anything a directory or file name may contain
	for _, viaWith := range []bool{false, true} {
		c := &capture{}
		l := logger.New(logger.NewTextHandler(c, logger.NewOptions(logger.LevelInfo, false, true)))
		if viaWith {
			l = l.With("w", 1).WithGroup("g")
		}
		for i, f := range weirdCallers {
			c.writes = nil
			f(l)
			t, one, head := tail(c, "INFO")
			w.Put(map[string]any{"mode": "source", "in": vio.Ints(weirdSites[i]), "kv": true, "pos": map[bool]string{false: "plain", true: "derived"}[viaWith], "tail": t, "onewrite": one, "head": head})
			n++
		}
		// every output method of Logger, from call sites with known file and line (package sites)
		for _, st := range sites.Sites {
			c2 := &capture{}
			l2 := logger.New(logger.NewTextHandler(c2, logger.NewOptions(logger.LevelDebug, false, true)))
			if viaWith {
				l2 = l2.With("w", 1).WithGroup("g")
			}
			st.Call(l2)
			t, one, head := tail(c2, st.Level)
			w.Put(map[string]any{"mode": "source", "in": vio.Ints(st.File + ":" + strconv.Itoa(st.Line)), "kv": !strings.HasSuffix(st.Method, "f"), "method": st.Method,
				"pos": map[bool]string{false: "plain", true: "derived"}[viaWith], "tail": t, "onewrite": one, "head": head})
			n++
		}
	}
	fmt.Println(n)
}

func main() {
	mode := flag.String("mode", "struct", "")
	in := flag.String("in", "scen.ndjson", "")
	out := flag.String("out", "cases.ndjson", "")
	tier := flag.String("tier", "quick", "")
	flag.Parse()
	rng := rand.New(rand.NewSource(vio.Seed()))
	switch *mode {
	case "struct":
		runStruct(*in, *out, rng)
	case "values":
		runValues(*out)
	default:
		runStrings(*out, *tier, rng)
	}
}
