package main

// Extras X14: TaskLane.ShortestQueueIndex observed on the real lane (spec/tasklane/LanePick.tla).
//
//	rest : every worker pinned, every queue goroutine holding one task, lens[k] more tasks buffered in lane k,
//	       stable state, then the call - the answer must be the lowest index among the shortest buffers
//	busy : the call made over and over while producers push and workers run - the answer must be a lane index
//	fill : on a lane at rest m tasks are pushed one by one, each to the lane the call names

import (
	"context"
	"fmt"
	"math/rand"
	"sync"
	"time"

	"verif/harness/internal/vio"
)

type pickCase struct {
	Kind  string `json:"kind"`
	N     int    `json:"n"`
	Q     int    `json:"q"`
	Lens  []int  `json:"lens"`
	Idx   int    `json:"idx"` // 1-based
	Picks []int  `json:"picks"`
	Note  string `json:"note"`
}

// pinAll pins every worker and lets every queue goroutine take one task into its hands.
func pinAll(s *scenario) bool {
	for i := 0; i < s.n; i++ {
		s.push(1, s.mkTask(0, true, nil), i)
		if !s.quiesce("pin") {
			return false
		}
	}
	for i := 0; i < s.n; i++ {
		s.push(1, s.mkTask(0, false, nil), i)
	}
	return s.quiesce("held")
}

func runPickRest(rng *rand.Rand, n, q int, lens []int) (pickCase, bool) {
	s := newScenario("pick", n, q, context.Background(), func(s *scenario) { s.hookQuiet.Store(true) })
	s.tl.SetTimeout(2 * time.Second)
	ok := pinAll(s)
	order := rng.Perm(n)
	for _, l := range order {
		for k := 0; k < lens[l]; k++ {
			if err := s.push(1, s.mkTask(0, false, nil), l); err != nil {
				ok = false
			}
		}
	}
	ok = s.quiesce("live") && ok
	c := pickCase{Kind: "rest", N: n, Q: q, Lens: lens, Picks: []int{}, Note: fmt.Sprintf("fill order %v", order)}
	c.Idx = s.tl.ShortestQueueIndex() + 1
	if again := s.tl.ShortestQueueIndex() + 1; again != c.Idx {
		c.Idx = -again // two calls at rest disagree
	}
	s.finish(true)
	return c, ok
}

func runPickFill(rng *rand.Rand, n, q, m int) (pickCase, bool) {
	s := newScenario("pick", n, q, context.Background(), func(s *scenario) { s.hookQuiet.Store(true) })
	s.tl.SetTimeout(2 * time.Second)
	ok := pinAll(s)
	c := pickCase{Kind: "fill", N: n, Q: q, Lens: []int{}, Picks: []int{}}
	for k := 0; k < m; k++ {
		l := s.tl.ShortestQueueIndex()
		c.Picks = append(c.Picks, l+1)
		if l < 0 || l >= n {
			break
		}
		if err := s.push(1, s.mkTask(0, false, nil), l); err != nil {
			ok = false
		}
	}
	s.finish(true)
	return c, ok
}

func runPickBusy(rng *rand.Rand, n, q int, w *vio.Writer) {
	s := newScenario("pick", n, q, context.Background(), func(s *scenario) { s.hookQuiet.Store(true); s.quiet.Store(true) })
	s.tl.SetTimeout(200 * time.Microsecond)
	stop := make(chan struct{})
	var wg sync.WaitGroup
	for p := 0; p < 3; p++ {
		wg.Add(1)
		go func(p int) {
			defer wg.Done()
			r := rand.New(rand.NewSource(int64(p) + vio.Seed()))
			for {
				select {
				case <-stop:
					return
				default:
				}
				s.tl.PushTask(s.mkTask(time.Duration(r.Intn(30))*time.Microsecond, false, nil), r.Intn(n))
			}
		}(p)
	}
	seen := map[int]bool{}
	deadline := time.Now().Add(150 * time.Millisecond)
	for time.Now().Before(deadline) {
		seen[s.tl.ShortestQueueIndex()+1] = true
	}
	close(stop)
	wg.Wait()
	s.finish(true)
	for idx := range seen {
		w.Put(pickCase{Kind: "busy", N: n, Q: q, Lens: []int{}, Idx: idx, Picks: []int{}})
	}
}

// runPick writes the cases of X14; thorough raises the lane and queue sizes of the systematic part.
func runPick(rng *rand.Rand, w *vio.Writer, thorough bool) {
	maxN, maxQ := 3, 2
	if thorough {
		maxN, maxQ = 4, 3
	}
	bad := 0
	for n := 1; n <= maxN; n++ {
		for q := 0; q <= maxQ; q++ {
			// every vector of buffer lengths
			total := 1
			for i := 0; i < n; i++ {
				total *= q + 1
			}
			for v := 0; v < total; v++ {
				lens, x := make([]int, n), v
				for i := range lens {
					lens[i], x = x%(q+1), x/(q+1)
				}
				c, ok := runPickRest(rng, n, q, lens)
				if !ok {
					bad++
					continue
				}
				w.Put(c)
			}
			if q > 0 {
				c, ok := runPickFill(rng, n, q, n*q)
				if ok {
					w.Put(c)
				} else {
					bad++
				}
			}
			runPickBusy(rng, n, q, w)
		}
	}
	// wider lanes, random lengths
	for rep := 0; rep < 6; rep++ {
		n, q := 5+rng.Intn(30), 1+rng.Intn(4)
		lens := make([]int, n)
		for i := range lens {
			lens[i] = rng.Intn(q + 1)
		}
		if rep%2 == 0 { // a single shortest lane somewhere, everything else full
			for i := range lens {
				lens[i] = q
			}
			lens[rng.Intn(n)] = q - 1
		}
		if c, ok := runPickRest(rng, n, q, lens); ok {
			w.Put(c)
		} else {
			bad++
		}
	}
	if bad > 3 {
		vio.Fatal("pick: %d scenarios did not reach a stable state", bad)
	}
}
