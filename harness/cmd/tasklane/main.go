// Command tasklane drives the real tasklane.TaskLane through seeded scenarios and records an event
// trace per scenario (global atomic sequence numbers; hook events from the verif build tag name the
// protocol step a queue / worker goroutine just performed).  Scenario families:
//
//	random   : seeded programs (lanes 1-3, queue 0-2, 1-4 producers, short / slow / panicking tasks,
//	           tiny push timeouts, cancel at a random moment, deadline contexts, or no cancel)
//	cancelat : the context is cancelled *inside the hook* of protocol point E when it is reached for
//	           the k-th time - for every hook point E and k = 1..K
//	atrest   : k workers pinned by tasks that never return, m tasks queued, stable state, exact
//	           Status().PendingTask comparison; everything pushed to one lane (head-of-line)
//	panics   : tasks panic simultaneously with values of different dynamic types while Status()
//	           is polled from two goroutines
//
// "Eventually" is decided on stably quiescent states (all goroutines of the lane parked, event
// count unchanged), never by a bare timeout.  TLC (spec/tasklane/TaskLaneCases.tla) judges every
// trace with the statement layer of the TaskLane specification.
package main

import (
	"context"
	"errors"
	"flag"
	"fmt"
	"math/rand"
	"runtime"
	"runtime/debug"
	"strings"
	"sync"
	"sync/atomic"
	"time"

	"github.com/whoisnian/glb/tasklane"
	"verif/harness/internal/evlog"
	"verif/harness/internal/vio"
)

type ev struct {
	E    string `json:"e"`
	P    int    `json:"p"`    // producer / status reader / lane index (hook events)
	T    int    `json:"t"`    // task id (0 = none)
	Lane int    `json:"lane"` // push: target lane (1-based)
	Res  string `json:"res"`  // push.end: nil | timeout | ctx | other
	V    string `json:"v"`    // panic value tag / LastPanic tag
	Pend int    `json:"pend"` // Status().PendingTask
	G    int    `json:"g"`    // quiescent: lane goroutines alive
	B    int    `json:"b"`    // quiescent: producers still inside PushTask
}

// ---- tasks

type task struct {
	id       int
	sc       *scenario
	dur      time.Duration
	pinned   bool // still blocked when finish() runs (finish releases it)
	gated    bool // Start() blocks until release is closed
	together bool // panic only when all tasks of the first round have started
	panicV   any
	starts   atomic.Int32
	release  chan struct{}
}

type panicStruct struct{ Code int }

// errList is an error whose dynamic type is not comparable (a slice)
type errList []string

func (e errList) Error() string { return strings.Join(e, ";") }

func tagOf(v any) string {
	switch x := v.(type) {
	case nil:
		return "nil"
	case string:
		return "str:" + x
	case errList:
		return "errlist:" + x.Error()
	case error:
		return "err:" + x.Error()
	case int:
		return fmt.Sprintf("int:%d", x)
	case panicStruct:
		return fmt.Sprintf("struct:%d", x.Code)
	case []int:
		return fmt.Sprintf("slice:%v", x)
	case map[string]int:
		return fmt.Sprintf("map:%d", len(x))
	}
	return fmt.Sprintf("other:%T", v)
}

// ghostStarts counts Start() calls on tasks of a lane whose Wait() had already returned when the call began - whoever made
// the call (e.g. a lane created later that inherited channels of the old one).  finish() of the next scenario reports them.
var ghostStarts atomic.Int32

func (t *task) Start() {
	if t.sc.waitReturned.Load() {
		ghostStarts.Add(1)
	}
	if t.sc.quiet.Load() {
		t.starts.Add(1)
		if t.gated {
			<-t.release
		}
		if t.panicV != nil {
			panic(t.panicV)
		}
		return
	}
	b := t.sc.buf()
	t.starts.Add(1)
	b.Emit(ev{E: "task.start", T: t.id})
	if t.gated {
		<-t.release // a pinned task: runs until the scenario lets it go (and may then panic)
	}
	if t.panicV != nil {
		if t.together {
			t.sc.barrier.Done()
			t.sc.barrier.Wait() // panic together with the other panicking tasks
		}
		b.Emit(ev{E: "task.panic", T: t.id, V: tagOf(t.panicV)})
		panic(t.panicV)
	}
	if !t.gated && t.dur > 0 {
		time.Sleep(t.dur)
	}
	b.Emit(ev{E: "task.end", T: t.id})
}

// ---- scenario

type scenario struct {
	kind   string
	waited bool // the scenario has called Wait itself (finish does not start a waiter)
	// hook events are not recorded (push, task, status events still are)
	hookQuiet atomic.Bool
	n, q      int
	log       *evlog.Log
	bufs      sync.Map // goroutine id -> *evlog.Buf
	tl        *tasklane.TaskLane
	tlp       atomic.Pointer[tasklane.TaskLane]
	cancel    context.CancelFunc
	ctx       context.Context // the lane's context: PushTask must report exactly ctx.Err()
	tasks     []*task
	tmu       sync.Mutex
	quiet     atomic.Bool // no per-step events (maximal real concurrency); only a summary is recorded
	// gate: cancel inside the hook of event gateEv when it happens for the gateK-th time
	gateEv       string
	gateK        int32
	gateCnt      atomic.Int32
	yieldSeed    int64
	timeoutDwell time.Duration
	yield        atomic.Int64
	barrier      *sync.WaitGroup
	cancelled    atomic.Bool
	inPush       atomic.Int32
	note         string
	longTO       bool
	extraWaiters int // further goroutines blocked in Wait() while the last tasks finish
	waitReturned atomic.Bool
}

func goid() int64 {
	var b [64]byte
	n := runtime.Stack(b[:], false)
	var id int64
	for _, c := range b[len("goroutine "):n] {
		if c < '0' || c > '9' {
			break
		}
		id = id*10 + int64(c-'0')
	}
	return id
}

func (s *scenario) buf() *evlog.Buf {
	id := goid()
	if b, ok := s.bufs.Load(id); ok {
		return b.(*evlog.Buf)
	}
	b := s.log.Buf()
	s.bufs.Store(id, b)
	return b
}

var current atomic.Pointer[scenario]

func hook(tl *tasklane.TaskLane, e string, lane int, tk tasklane.Task) {
	s := current.Load()
	if s == nil || s.quiet.Load() || s.hookQuiet.Load() {
		return
	}
	if own := s.tlp.Load(); own != nil && own != tl {
		return // a goroutine left over from an earlier scenario
	}
	id := 0
	if t, ok := tk.(*task); ok && t != nil {
		id = t.id
	}
	s.buf().Emit(ev{E: e, P: lane + 1, T: id})
	if s.gateEv == e && s.gateCnt.Add(1) == s.gateK {
		s.doCancel("hook " + e)
	}
	if e == "p.timeout" && s.timeoutDwell > 0 {
		time.Sleep(s.timeoutDwell) // the timer has fired; by the time the producer continues the lane has room again
	}
	// seeded schedule perturbation at protocol points
	if y := s.yield.Add(1); s.yieldSeed != 0 {
		switch (y*2654435761 + s.yieldSeed) % 7 {
		case 0:
			runtime.Gosched()
		case 1:
			time.Sleep(time.Duration((y*40503+s.yieldSeed)%60) * time.Microsecond)
		}
	}
}

func (s *scenario) doCancel(why string) {
	if s.cancelled.CompareAndSwap(false, true) {
		b := s.buf()
		b.Emit(ev{E: "cancel.begin", V: why})
		s.cancel()
		b.Emit(ev{E: "cancel.end"})
	}
}

func (s *scenario) resTag(err error) string {
	switch {
	case err == nil:
		return "nil"
	case errors.Is(err, tasklane.ErrTimeout):
		return "timeout"
	case err == s.ctx.Err() && (err == context.Canceled || err == context.DeadlineExceeded):
		return "ctx" // "the context's error": what ctx.Err() reports, not a cancellation cause
	}
	return "other:" + err.Error()
}

func (s *scenario) push(p int, t *task, lane int) error {
	b := s.buf()
	s.inPush.Add(1)
	b.Emit(ev{E: "push.begin", P: p, T: t.id, Lane: lane + 1})
	err := s.tl.PushTask(t, lane)
	b.Emit(ev{E: "push.end", P: p, T: t.id, Res: s.resTag(err)})
	s.inPush.Add(-1)
	return err
}

func (s *scenario) status(reader int) {
	b := s.buf()
	b.Emit(ev{E: "status.begin", P: reader})
	st := s.tl.Status()
	b.Emit(ev{E: "status.end", P: reader, Pend: st.PendingTask, V: tagOf(st.LastPanic)})
}

// census of the lane's goroutines from a full stack dump
type census struct {
	lane, prod int  // goroutines in startQueue/startWorker, in PushTask
	busy       bool // some lane / producer / task goroutine is not parked
}

func takeCensus() census {
	buf := make([]byte, 1<<20)
	n := runtime.Stack(buf, true)
	var c census
	for _, g := range strings.Split(string(buf[:n]), "\n\n") {
		isLane := strings.Contains(g, "tasklane.(*TaskLane).startQueue") || strings.Contains(g, "tasklane.(*TaskLane).startWorker")
		isProd := strings.Contains(g, "tasklane.(*TaskLane).PushTask")
		if !isLane && !isProd {
			continue
		}
		if isLane {
			c.lane++
		} else {
			c.prod++
		}
		hdr := g[:strings.IndexByte(g+"\n", '\n')]
		parked := strings.Contains(hdr, "[select") || strings.Contains(hdr, "[chan receive") || strings.Contains(hdr, "[chan send") ||
			strings.Contains(hdr, "[sync.WaitGroup.Wait") || strings.Contains(hdr, "[semacquire")
		if !parked {
			c.busy = true
		}
		if isProd { // a producer parked in PushTask can still time out: not stable
			c.busy = true
		}
	}
	return c
}

// quiesce waits for a stable state: same event count and every lane goroutine parked in two samples.
func (s *scenario) quiesce(label string) bool {
	deadline := time.Now().Add(20 * time.Second)
	for time.Now().Before(deadline) {
		c1, n1 := takeCensus(), s.log.Count()
		time.Sleep(12 * time.Millisecond)
		c2, n2 := takeCensus(), s.log.Count()
		if n1 == n2 && !c1.busy && !c2.busy && c1 == c2 && s.inPush.Load() == 0 {
			st := s.tl.Status()
			s.buf().Emit(ev{E: "quiescent", G: c2.lane, B: c2.prod, Pend: st.PendingTask, V: tagOf(st.LastPanic), Res: label})
			return true
		}
	}
	s.buf().Emit(ev{E: "unstable", Res: label})
	return false
}

type result struct {
	Kind  string `json:"kind"`
	N     int    `json:"n"`
	Q     int    `json:"q"`
	Note  string `json:"note"`
	Evs   []any  `json:"evs"`
	Twice []int  `json:"twice"` // tasks whose Start() ran more than once (counted by the task object itself)
	// the push timeout of this scenario is far above any scheduling delay (2 s): a PushTask that timed out really found no taker
	LongTO bool `json:"longto"`
	// hook events (protocol steps of the lane's goroutines) were recorded while the lane shut down
	Hooks bool `json:"hooks"`
	// Start() calls, seen since the previous scenario ended, on tasks of lanes whose Wait() had returned before the call
	Ghosts int `json:"ghosts"`
}

var scenarioSeq atomic.Int32

func newScenario(kind string, n, q int, parent context.Context, setup func(*scenario)) *scenario {
	s := &scenario{kind: kind, n: n, q: q, log: evlog.New()}
	var ctx context.Context
	if scenarioSeq.Add(1)%2 == 0 {
		// a context that carries a cancellation cause (errgroup-style): ctx.Err() is still context.Canceled
		c, cancelCause := context.WithCancelCause(parent)
		ctx, s.cancel = c, func() { cancelCause(errors.New("shutdown requested by operator")) }
	} else {
		ctx, s.cancel = context.WithCancel(parent)
	}
	s.ctx = ctx
	if setup != nil {
		setup(s) // everything the hook reads is written before the lane's goroutines exist
	}
	current.Store(s)
	s.tl = tasklane.New(ctx, n, q)
	s.tlp.Store(s.tl)
	return s
}

func (s *scenario) mkTask(dur time.Duration, pinned bool, pv any) *task {
	s.tmu.Lock()
	defer s.tmu.Unlock()
	t := &task{id: len(s.tasks) + 1, sc: s, dur: dur, pinned: pinned, gated: pinned, panicV: pv, release: make(chan struct{})}
	s.tasks = append(s.tasks, t)
	return t
}

// finish: (optionally cancel,) release pinned tasks, Wait, final census
func (s *scenario) finish(cancelFirst bool) result {
	if cancelFirst {
		s.doCancel("finish")
		s.quiesce("after-cancel") // pinned tasks still running: Wait must not have returned, producers released
	}
	done := make(chan struct{})
	if s.waited {
		close(done) // the scenario has called Wait itself
	} else {
		go func() {
			b := s.buf()
			b.Emit(ev{E: "wait.begin"})
			s.tl.Wait()
			s.waitReturned.Store(true)
			b.Emit(ev{E: "wait.end"})
			close(done)
		}()
	}
	for i := 0; i < s.extraWaiters; i++ {
		go s.tl.Wait()
	}
	if !cancelFirst {
		s.doCancel("finish")
	}
	// calls that begin after the cancellation: every lane, several times (also lanes with room in the buffer)
	for rep := 0; rep < 3; rep++ {
		for lane := 0; lane < s.n; lane++ {
			s.push(80, s.mkTask(0, false, nil), lane)
		}
	}
	s.tmu.Lock()
	all := append([]*task(nil), s.tasks...)
	s.tmu.Unlock()
	for _, t := range all {
		if t.pinned {
			close(t.release)
		}
	}
	select {
	case <-done:
	case <-time.After(3 * time.Second):
	}
	s.quiesce("final")
	r := result{Kind: s.kind, N: s.n, Q: s.q, Note: s.note, Evs: s.log.Merge(), LongTO: s.longTO, Hooks: !s.hookQuiet.Load() && !s.quiet.Load(),
		Ghosts: int(ghostStarts.Swap(0))}
	for _, t := range all {
		if t.starts.Load() > 1 {
			r.Twice = append(r.Twice, t.id)
		}
	}
	if r.Twice == nil {
		r.Twice = []int{}
	}
	current.Store(nil)
	return r
}

var panicVals = []any{"boom", errors.New("io"), 7, panicStruct{3}, errList{"a", "b"}, []int{1, 2}, map[string]int{"k": 1}, errList{"c"}}

func runRandom(rng *rand.Rand) result {
	n, q := 1+rng.Intn(3), rng.Intn(3)
	parent := context.Background()
	deadline := rng.Intn(5) == 0
	var dcancel context.CancelFunc = func() {}
	if deadline {
		if rng.Intn(2) == 0 {
			parent, dcancel = context.WithTimeout(parent, time.Duration(500+rng.Intn(3000))*time.Microsecond)
		} else {
			parent, dcancel = context.WithTimeoutCause(parent, time.Duration(500+rng.Intn(3000))*time.Microsecond, errors.New("budget exhausted"))
		}
	}
	defer dcancel()
	ys := rng.Int63n(1<<30) + 1
	s := newScenario("random", n, q, parent, func(s *scenario) { s.yieldSeed = ys })
	if rng.Intn(3) == 0 {
		s.tl.SetTimeout(time.Duration(50+rng.Intn(2000)) * time.Microsecond)
	} else {
		s.tl.SetTimeout(300 * time.Millisecond)
	}
	np := 1 + rng.Intn(4)
	oneLane := rng.Intn(3) == 0
	s.note = fmt.Sprintf("n=%d q=%d producers=%d oneLane=%v deadline=%v", n, q, np, oneLane, deadline)
	var wg sync.WaitGroup
	cancelAfter := -1
	if !deadline && rng.Intn(2) == 0 {
		cancelAfter = rng.Intn(3000)
	}
	for p := 1; p <= np; p++ {
		cnt := 2 + rng.Intn(5)
		var mine []*task
		var lanes []int
		for k := 0; k < cnt; k++ {
			var pv any
			dur := []time.Duration{0, 0, 30 * time.Microsecond, 400 * time.Microsecond, 2 * time.Millisecond}[rng.Intn(5)]
			if rng.Intn(6) == 0 {
				pv = panicVals[rng.Intn(len(panicVals))]
			}
			mine = append(mine, s.mkTask(dur, false, pv))
			if oneLane {
				lanes = append(lanes, 0)
			} else {
				lanes = append(lanes, rng.Intn(n))
			}
		}
		wg.Add(1)
		go func(p int) {
			defer wg.Done()
			for k, t := range mine {
				s.push(p, t, lanes[k])
			}
		}(p)
	}
	if cancelAfter >= 0 {
		time.Sleep(time.Duration(cancelAfter) * time.Microsecond)
		s.doCancel("timer")
	} else if rng.Intn(2) == 0 {
		wg.Add(1)
		go func() { defer wg.Done(); s.status(90) }()
	}
	wg.Wait()
	if cancelAfter < 0 && !deadline {
		s.quiesce("live") // context live, running tasks return: every accepted task must have started
	}
	return s.finish(false)
}

var hookPoints = []string{"p.inner", "p.sent", "q.took", "q.inc", "q.sent.fast", "q.offer", "q.sent.own", "q.sent.uni", "q.dec",
	"w.got.fast", "w.listen", "w.got.own", "w.got.uni", "w.done", "w.recovered"}

func runCancelAt(rng *rand.Rand, evName string, k int, n, q int) result {
	ys := rng.Int63n(1<<30) + 1
	s := newScenario("cancelat", n, q, context.Background(), func(s *scenario) {
		s.gateEv, s.gateK, s.yieldSeed = evName, int32(k), ys
	})
	s.tl.SetTimeout(50 * time.Millisecond)
	s.note = fmt.Sprintf("cancel at %s #%d n=%d q=%d", evName, k, n, q)
	var wg sync.WaitGroup
	for p := 1; p <= 2; p++ {
		var mine []*task
		for j := 0; j < 4; j++ {
			var pv any
			if evName == "w.recovered" && j%2 == 0 {
				pv = panicVals[j%len(panicVals)]
			}
			mine = append(mine, s.mkTask([]time.Duration{0, 100 * time.Microsecond, 600 * time.Microsecond}[rng.Intn(3)], false, pv))
		}
		wg.Add(1)
		go func(p int) {
			defer wg.Done()
			for j, t := range mine {
				lane := 0
				if p == 2 && n > 1 && j%2 == 1 {
					lane = 1
				}
				s.push(p, t, lane)
			}
			// one more push that begins after whatever happened: must fail iff the context is done by then
			if s.cancelled.Load() {
				s.push(p, s.mkTaskLocked(), 0)
			}
		}(p)
	}
	wg.Wait()
	return s.finish(false)
}

func (s *scenario) mkTaskLocked() *task { return s.mkTask(0, false, nil) }

// many lanes updating the pending counter at the same time, then the exact at-rest comparison
func runBurst(rng *rand.Rand, n, q, per int) result {
	s := newScenario("burst", n, q, context.Background(), nil)
	s.tl.SetTimeout(2 * time.Second)
	s.note = fmt.Sprintf("n=%d q=%d: %d producers x %d empty tasks, one lane each, all at once", n, q, n, per)
	var wg sync.WaitGroup
	start := make(chan struct{})
	for p := 1; p <= n; p++ {
		var mine []*task
		for k := 0; k < per; k++ {
			var pv any
			if k%37 == 5 {
				pv = panicVals[k%len(panicVals)]
			}
			mine = append(mine, s.mkTask(0, false, pv))
		}
		wg.Add(1)
		go func(p int) {
			defer wg.Done()
			<-start
			for _, t := range mine {
				s.push(p, t, p-1)
			}
		}(p)
	}
	close(start)
	wg.Wait()
	s.quiesce("live")
	s.status(90)
	return s.finish(false)
}

// the same without any per-step event: nothing slows the goroutines down; only totals are recorded
func runQuietBurst(rng *rand.Rand, n, q, per int) result {
	s := newScenario("quietburst", n, q, context.Background(), func(s *scenario) { s.quiet.Store(true) })
	s.tl.SetTimeout(2 * time.Second)
	s.note = fmt.Sprintf("n=%d q=%d: %d producers x %d empty tasks without per-step events", n, q, n, per)
	var wg sync.WaitGroup
	var accepted atomic.Int64
	start := make(chan struct{})
	for p := 1; p <= n; p++ {
		var mine []*task
		for k := 0; k < per; k++ {
			var pv any
			if k%41 == 7 {
				pv = panicVals[k%len(panicVals)]
			}
			mine = append(mine, s.mkTask(0, false, pv))
		}
		wg.Add(1)
		go func(p int) {
			defer wg.Done()
			<-start
			for _, t := range mine {
				if s.tl.PushTask(t, p-1) == nil {
					accepted.Add(1)
				}
			}
		}(p)
	}
	// Status() polled from two goroutines while the lane is saturated: only the largest PendingTask seen is recorded
	var maxPend atomic.Int64
	stopPoll := make(chan struct{})
	var pollers sync.WaitGroup
	for r := 0; r < 2; r++ {
		pollers.Add(1)
		go func() {
			defer pollers.Done()
			for {
				select {
				case <-stopPoll:
					return
				default:
				}
				p := int64(s.tl.Status().PendingTask)
				for cur := maxPend.Load(); p > cur && !maxPend.CompareAndSwap(cur, p); cur = maxPend.Load() {
				}
			}
		}()
	}
	close(start)
	wg.Wait()
	close(stopPoll)
	pollers.Wait()
	// stable state: nothing left to do
	for i := 0; i < 400; i++ {
		c1 := takeCensus()
		st1 := s.tl.Status().PendingTask
		time.Sleep(10 * time.Millisecond)
		c2 := takeCensus()
		if !c1.busy && !c2.busy && c1 == c2 && st1 == s.tl.Status().PendingTask {
			break
		}
	}
	started, twice := 0, 0
	s.tmu.Lock()
	for _, t := range s.tasks {
		if n := t.starts.Load(); n > 0 {
			started++
			if n > 1 {
				twice++
			}
		}
	}
	s.tmu.Unlock()
	st := s.tl.Status()
	s.quiet.Store(false)
	raised := map[string]bool{}
	s.tmu.Lock()
	for _, t := range s.tasks {
		if t.panicV != nil && t.starts.Load() > 0 {
			raised[tagOf(t.panicV)] = true
		}
	}
	s.tmu.Unlock()
	for tag := range raised { // the panics that occurred (their per-task events were not recorded)
		s.buf().Emit(ev{E: "task.panic", T: 0, V: tag})
	}
	s.buf().Emit(ev{E: "status.end", P: 95, Pend: int(maxPend.Load()), V: "nil"}) // the largest PendingTask any poll returned
	s.buf().Emit(ev{E: "burst.summary", Pend: st.PendingTask, G: int(accepted.Load()), B: started, T: twice, V: tagOf(st.LastPanic)})
	return s.finish(false)
}

// tiny push timeouts against a full lane that drains while the timed-out producer is still inside PushTask
func runTimeouts(rng *rand.Rand, n, q int) result {
	ys := rng.Int63n(1<<30) + 1
	s := newScenario("timeouts", n, q, context.Background(), func(s *scenario) {
		s.yieldSeed, s.timeoutDwell = ys, time.Duration(600+rng.Intn(900))*time.Microsecond
	})
	s.tl.SetTimeout(time.Duration(60+rng.Intn(100)) * time.Microsecond)
	s.note = fmt.Sprintf("n=%d q=%d push timeout ~100us, tasks 300us, producer dwells ~1ms after the timer fired", n, q)
	var wg sync.WaitGroup
	for p := 1; p <= 3; p++ {
		var mine []*task
		for k := 0; k < 8; k++ {
			mine = append(mine, s.mkTask(300*time.Microsecond, false, nil))
		}
		wg.Add(1)
		go func(p int) {
			defer wg.Done()
			for _, t := range mine {
				s.push(p, t, 0)
			}
		}(p)
	}
	wg.Wait()
	s.quiesce("live")
	return s.finish(false)
}

func runAtRest(rng *rand.Rand, n, q, pin int, oneLane bool) result {
	s := newScenario("atrest", n, q, context.Background(), nil)
	s.tl.SetTimeout(15 * time.Millisecond)
	s.note = fmt.Sprintf("n=%d q=%d pinned=%d oneLane=%v", n, q, pin, oneLane)
	if pin < n { // an idle worker exists throughout: no push may time out, however long it is allowed to wait
		s.tl.SetTimeout(2 * time.Second)
		s.longTO = true
	}
	for i := 0; i < pin; i++ {
		lane := 0
		if !oneLane {
			lane = i % n
		}
		s.push(1, s.mkTask(0, true, nil), lane)
		s.quiesce("pin") // the pinned task is running before the next one is pushed
	}
	// fill: with every worker pinned each lane takes queueSize+1 tasks, one more push per lane must time out
	per := q + 2
	if pin < n {
		per = 2
	}
	for k := 0; k < per; k++ {
		for lane := 0; lane < n; lane++ {
			l := lane
			if oneLane {
				l = 0
			}
			s.push(1, s.mkTask(0, false, nil), l)
		}
	}
	s.quiesce("live")
	s.status(90)
	return s.finish(rng.Intn(2) == 0)
}

// runWide: a lane far wider than any machine has cores (one lane per tenant / per connection): one task pushed to every
// lane index, every one of them has to be started.  Hook events are not recorded (push and task events only).
func runWide(rng *rand.Rand, n, q int) result {
	s := newScenario("wide", n, q, context.Background(), func(s *scenario) { s.hookQuiet.Store(true) })
	s.tl.SetTimeout(2 * time.Second)
	s.longTO = true
	s.note = fmt.Sprintf("n=%d q=%d, one task per lane index", n, q)
	for _, lane := range rng.Perm(n) {
		s.push(1, s.mkTask(0, false, nil), lane)
	}
	s.quiesce("live")
	s.status(90)
	return s.finish(false)
}

// every worker busy, one more task parked per lane (all queue goroutines hold a task at the same
// time); then all workers but one are released: the task of the lane whose worker stays busy must be
// taken over by an idle worker.
func runAllBusy(rng *rand.Rand, n, q, stuck int, order []int) result {
	s := newScenario("allbusy", n, q, context.Background(), nil)
	s.tl.SetTimeout(15 * time.Millisecond)
	s.note = fmt.Sprintf("n=%d q=%d worker %d stays busy, push order %v", n, q, stuck+1, order)
	var gated []*task
	for lane := 0; lane < n; lane++ {
		t := s.mkTask(0, true, nil)
		gated = append(gated, t)
		s.push(1, t, lane)
	}
	s.quiesce("busy")
	for _, lane := range order { // one parked task per lane
		s.push(1, s.mkTask(0, false, nil), lane)
		s.quiesce("parked")
	}
	for lane, t := range gated {
		if lane != stuck {
			t.pinned = false
			close(t.release)
		}
	}
	s.quiesce("live") // fewer than n tasks are blocked: every accepted task must have been started
	s.status(90)
	gated[stuck].pinned = true
	return s.finish(false)
}

// the lane is cancelled while every worker runs a task, Wait is already blocked (several callers), every other
// goroutine of the lane is gone - and then the last running tasks panic.
// runWaitAfterNew: Wait called as early as a caller can call it - right after New, on a context cancelled just before or
// just after New - with a single P, so that no goroutine of the lane has run yet when Wait is entered
func runWaitAfterNew(rng *rand.Rand, n, q int, pre bool) result {
	old := runtime.GOMAXPROCS(1)
	defer runtime.GOMAXPROCS(old)
	var setup func(*scenario)
	if pre {
		setup = func(s *scenario) { s.doCancel("before New") }
	}
	s := newScenario("waitafternew", n, q, context.Background(), setup)
	s.note = fmt.Sprintf("Wait right after New (context cancelled %s New), GOMAXPROCS 1", map[bool]string{true: "before", false: "after"}[pre])
	if !pre {
		s.doCancel("right after New")
	}
	b := s.buf()
	b.Emit(ev{E: "wait.begin"})
	s.tl.Wait()
	s.waitReturned.Store(true)
	b.Emit(ev{E: "wait.end"})
	s.waited = true
	return s.finish(false)
}

// runCrowdedCancel: "after the context is cancelled" as a caller sees it - ctx.Err() is non-nil - while cancel() is still on
// its way through the context's other children (a server's base context has one child per request in flight).  Observers
// wait on ctx.Done() and push the moment it is closed.
func runCrowdedCancel(rng *rand.Rand, n, q, siblings int) result {
	s := newScenario("crowdedcancel", n, q, context.Background(), nil)
	s.note = fmt.Sprintf("%d other contexts derived from the lane's context; observers push as soon as ctx.Done() is closed", siblings)
	stops := make([]context.CancelFunc, 0, siblings)
	for i := 0; i < siblings; i++ {
		_, c := context.WithCancel(s.ctx)
		stops = append(stops, c)
	}
	var wg sync.WaitGroup
	for o := 0; o < 3; o++ {
		wg.Add(1)
		go func(o int) {
			defer wg.Done()
			b := s.buf()
			<-s.ctx.Done() // closed first thing by cancel(), before it walks the children (ctx.Err() would wait for the walk)
			b.Emit(ev{E: "cancel.seen", P: 90 + o})
			for k := 0; k < 4; k++ {
				s.push(90+o, s.mkTask(0, false, nil), (o+k)%n)
			}
		}(o)
	}
	time.Sleep(5 * time.Millisecond)
	s.doCancel("crowded")
	wg.Wait()
	for _, c := range stops {
		c()
	}
	return s.finish(false)
}

func runLastPanic(rng *rand.Rand, n int) result {
	s := newScenario("lastpanic", n, 0, context.Background(), nil)
	s.tl.SetTimeout(15 * time.Millisecond)
	s.note = fmt.Sprintf("n=%d: cancelled with %d tasks running, Wait blocked, then the tasks panic", n, n)
	perm := rng.Perm(len(panicVals))
	for i := 0; i < n; i++ {
		s.push(1, s.mkTask(0, true, panicVals[perm[i%len(perm)]]), i)
	}
	s.quiesce("pin")
	s.extraWaiters = 3
	return s.finish(true)
}

// a worker that has already served a great many tasks (more than 2^16) is cancelled in the middle of one more:
// Wait must still wait for that task, and nothing may be left behind afterwards.
func runMarathon(rng *rand.Rand, n int) result {
	s := newScenario("marathon", n, 2, context.Background(), func(s *scenario) { s.quiet.Store(true) })
	s.tl.SetTimeout(2 * time.Second)
	const total = 70000
	s.note = fmt.Sprintf("n=%d: %d empty tasks through the lane without per-step events, then cancelled while one more task runs per worker", n, total*n)
	var wg sync.WaitGroup
	for lane := 0; lane < n; lane++ {
		wg.Add(1)
		go func(lane int) {
			defer wg.Done()
			t := &task{sc: s} // one reusable empty task object: only the count matters here
			for k := 0; k < total; k++ {
				s.tl.PushTask(t, lane)
			}
		}(lane)
	}
	wg.Wait()
	for i := 0; i < 400; i++ { // let the lane drain
		if s.tl.Status().PendingTask == 0 {
			break
		}
		time.Sleep(5 * time.Millisecond)
	}
	time.Sleep(20 * time.Millisecond)
	s.quiet.Store(false)
	for lane := 0; lane < n; lane++ {
		s.push(1, s.mkTask(0, true, nil), lane)
	}
	s.quiesce("pin")
	return s.finish(true)
}

// one worker recovers from a very large number of panics in a row: whatever a recovery costs must not add up
// (the harness lowers the goroutine stack limit to 64 MiB so that a leak per recovery shows within seconds).
func runPanicMarathon(rng *rand.Rand, total int) result {
	s := newScenario("panicmarathon", 1, 8, context.Background(), func(s *scenario) { s.quiet.Store(true) })
	s.tl.SetTimeout(5 * time.Second)
	s.note = fmt.Sprintf("n=1 q=8: %d tasks, two of three panicking, through one worker without per-step events", total)
	boom := &task{sc: s, panicV: "boom"}
	fine := &task{sc: s}
	accepted := 0
	for k := 0; k < total; k++ {
		if k%1000 == 999 && runtime.NumGoroutine() > 3000 {
			s.note += fmt.Sprintf("; stopped after %d tasks: %d goroutines exist", k, runtime.NumGoroutine())
			break // something multiplies goroutines: the census at the end of the scenario will show it
		}
		t := boom
		if k%3 == 2 {
			t = fine
		}
		if s.tl.PushTask(t, 0) == nil {
			accepted++
		}
	}
	for i := 0; i < 1000; i++ {
		if s.tl.Status().PendingTask == 0 && int(boom.starts.Load()+fine.starts.Load()) == accepted {
			break
		}
		time.Sleep(5 * time.Millisecond)
	}
	st := s.tl.Status()
	started := int(boom.starts.Load() + fine.starts.Load())
	s.quiet.Store(false)
	s.buf().Emit(ev{E: "task.panic", T: 0, V: tagOf("boom")})
	s.buf().Emit(ev{E: "w.recovered"})
	s.buf().Emit(ev{E: "burst.summary", G: accepted, B: started, T: 0, Pend: st.PendingTask, V: tagOf(st.LastPanic)})
	s.status(90)
	return s.finish(false)
}

// sharing after panics on foreign workers: lane 1's own worker is pinned, so everything pushed to lane 1 runs on the other
// workers; several of those tasks panic there; afterwards lane 1's tasks must still be taken by idle workers.
func runPanicShare(rng *rand.Rand, n int) result {
	s := newScenario("panicshare", n, 1, context.Background(), nil)
	s.tl.SetTimeout(2 * time.Second)
	s.longTO = true
	s.note = fmt.Sprintf("n=%d q=1: worker 1 pinned, %d panicking tasks of lane 1 run on foreign workers, then more tasks for lane 1", n, 2*n)
	s.push(1, s.mkTask(0, true, nil), 0)
	s.quiesce("pin")
	for k := 0; k < 2*n; k++ {
		s.push(1, s.mkTask(0, false, panicVals[k%len(panicVals)]), 0)
		s.quiesce("live")
	}
	for k := 0; k < n+1; k++ {
		s.push(1, s.mkTask(0, false, nil), 0)
	}
	s.quiesce("live")
	s.status(90)
	return s.finish(rng.Intn(2) == 0)
}

// burst-then-probe, many rounds without per-step events: a short burst on lane 1 lets the workers go idle in ever
// different orders; then worker 2 is occupied by a long task and one more task is pushed to lane 2 - an idle worker must
// take it at once.  Only the totals are recorded (accepted probes / probes started while the long task was still running).
func runBurstProbe(rng *rand.Rand, rounds int) result {
	s := newScenario("burstprobe", 2, 2, context.Background(), func(s *scenario) { s.quiet.Store(true) })
	s.tl.SetTimeout(2 * time.Second)
	s.note = fmt.Sprintf("n=2 q=2: %d rounds of (burst on lane 1, long task on lane 2, probe on lane 2)", rounds)
	accepted, started := 0, 0
	tiny := &task{sc: s}
	for r := 0; r < rounds; r++ {
		nb := 1 + rng.Intn(4)
		for k := 0; k < nb; k++ {
			s.tl.PushTask(tiny, 0)
		}
		long := &task{sc: s, gated: true, release: make(chan struct{})}
		probe := &task{sc: s}
		if s.tl.PushTask(long, 1) != nil {
			close(long.release)
			continue
		}
		for i := 0; long.starts.Load() == 0 && i < 20000; i++ { // the long task occupies a worker
			runtime.Gosched()
		}
		if s.tl.PushTask(probe, 1) == nil {
			accepted++
			deadline := time.Now().Add(time.Second)
			for probe.starts.Load() == 0 && time.Now().Before(deadline) {
				runtime.Gosched()
			}
			if probe.starts.Load() > 0 {
				started++
			}
		}
		close(long.release)
		for i := 0; s.tl.Status().PendingTask != 0 && i < 100000; i++ {
			runtime.Gosched()
		}
		if accepted-started >= 3 {
			break // three probes left waiting next to an idle worker are enough evidence; each further one costs a second
		}
	}
	st := s.tl.Status()
	s.quiet.Store(false)
	s.buf().Emit(ev{E: "burst.summary", G: accepted, B: started, T: 0, Pend: st.PendingTask, V: tagOf(st.LastPanic)})
	return s.finish(false)
}

// runLoneBursts: a single lane (nobody else can take over), bursts of a few tiny tasks, after each burst every accepted task
// has to start although no further push follows (a worker or queue goroutine that went to sleep on the wrong channel between
// two tasks of a burst is woken only by the next push - which never comes).  No per-step events.
func runLoneBursts(rng *rand.Rand, budget time.Duration) result {
	s := newScenario("lonebursts", 1, 8, context.Background(), func(s *scenario) { s.quiet.Store(true) })
	s.tl.SetTimeout(2 * time.Second)
	accepted, started, rounds := 0, 0, 0
	end := time.Now().Add(budget)
	for time.Now().Before(end) && accepted-started < 3 {
		rounds++
		nb := 2 + rng.Intn(5)
		ts := make([]*task, 0, nb)
		for k := 0; k < nb; k++ {
			t := &task{sc: s}
			if s.tl.PushTask(t, 0) == nil {
				ts = append(ts, t)
			}
		}
		accepted += len(ts)
		deadline := time.Now().Add(time.Second)
		for _, t := range ts {
			for t.starts.Load() == 0 && time.Now().Before(deadline) {
				runtime.Gosched()
			}
			if t.starts.Load() > 0 {
				started++
			}
		}
	}
	s.note = fmt.Sprintf("n=1 q=8: %d bursts of 2..6 tiny tasks, each burst awaited", rounds)
	st := s.tl.Status()
	s.quiet.Store(false)
	s.buf().Emit(ev{E: "burst.summary", G: accepted, B: started, T: 0, Pend: accepted - started, V: tagOf(st.LastPanic)})
	return s.finish(false)
}

func runPanics(rng *rand.Rand) result {
	n, q := 2+rng.Intn(2), 1+rng.Intn(2)
	bar := &sync.WaitGroup{}
	bar.Add(n)
	s := newScenario("panics", n, q, context.Background(), func(s *scenario) { s.barrier = bar })
	s.tl.SetTimeout(200 * time.Millisecond)
	s.note = fmt.Sprintf("n=%d q=%d simultaneous panics of different dynamic types, Status polled", n, q)
	stop := make(chan struct{})
	var pw sync.WaitGroup
	for r := 0; r < 2; r++ {
		pw.Add(1)
		go func(r int) {
			defer pw.Done()
			for polls := 0; polls < 400; polls++ {
				select {
				case <-stop:
					return
				default:
					s.status(91 + r)
					time.Sleep(20 * time.Microsecond)
				}
			}
		}(r)
	}
	perm := rng.Perm(len(panicVals))
	for i := 0; i < n; i++ { // one panicking task per worker, released together
		t := s.mkTask(0, false, panicVals[perm[i%len(perm)]])
		t.together = true
		s.push(1, t, i)
	}
	for i := 0; i < n+2; i++ { // normal tasks behind them must still run exactly once
		s.push(1, s.mkTask(50*time.Microsecond, false, nil), rng.Intn(n))
	}
	for round := 0; round < 4; round++ { // every worker recovers from several panics of changing types while Status is polled
		for i := 0; i < n; i++ {
			s.push(1, s.mkTask(20*time.Microsecond, false, panicVals[(perm[i%len(perm)]+round+1)%len(panicVals)]), i)
		}
		s.push(1, s.mkTask(30*time.Microsecond, false, nil), rng.Intn(n))
	}
	s.quiesce("live")
	close(stop)
	pw.Wait()
	s.status(90)
	return s.finish(false)
}

func main() {
	out := flag.String("out", "traces.ndjson", "")
	nrandom := flag.Int("random", 40, "")
	gateK := flag.Int("gatek", 2, "occurrences per hook point for the cancellation enumeration")
	natrest := flag.Int("atrest", 1, "repetitions of the systematic at-rest / all-busy families")
	npanics := flag.Int("panics", 6, "")
	ntimeouts := flag.Int("timeouts", 4, "")
	nlast := flag.Int("lastpanic", 10, "")
	nprobe := flag.Int("burstprobe", 1500, "rounds of the burst-then-probe scenario")
	npanicm := flag.Int("panicmarathon", 300000, "tasks in the panic marathon")
	ncrowd := flag.Int("crowded", 2, "repetitions of the cancellation with many sibling contexts")
	nburst := flag.Int("burst", 4, "")
	burstPer := flag.Int("burstper", 60, "tasks per producer in a burst scenario")
	loneMs := flag.Int("lonebursts", 1500, "milliseconds of the single-lane burst scenario")
	pick := flag.String("pick", "", "extras X14 only: ShortestQueueIndex cases (quick | thorough)")
	flag.Parse()
	debug.SetMaxStack(64 << 20)
	tasklane.VerifHook = hook
	rng := rand.New(rand.NewSource(vio.Seed()))
	w := vio.Create(*out)
	defer w.Close()
	if *pick != "" {
		runPick(rng, w, *pick == "thorough")
		return
	}
	for i := 0; i < *nrandom; i++ {
		w.Put(runRandom(rng))
	}
	for _, cfg := range [][2]int{{2, 1}, {2, 0}, {1, 1}} {
		for _, e := range hookPoints {
			for k := 1; k <= *gateK; k++ {
				w.Put(runCancelAt(rng, e, k, cfg[0], cfg[1]))
			}
		}
	}
	for rep := 0; rep < *natrest; rep++ {
		for _, n := range []int{2, 3} {
			for q := 0; q <= 2; q++ {
				for _, pin := range []int{0, n - 1, n} {
					w.Put(runAtRest(rng, n, q, pin, (n+q+pin+rep)%2 == 0))
				}
				w.Put(runAtRest(rng, n, q, n-1, true)) // everything goes to lane 0 whose worker is busy: the one idle worker must take over
				w.Put(runAtRest(rng, n, q, n, false))  // every worker pinned and every lane filled to the brim: the upper bound of PendingTask
			}
		}
		w.Put(runAtRest(rng, 40, rep%2, 40, false))                  // a wide lane (more than 32 workers), everything full
		w.Put(runAtRest(rng, 20+13*(rep%2), 1, 19+13*(rep%2), true)) // a wide lane, everything pushed to lane 0: every idle worker, however far away, has to take over
		w.Put(runWide(rng, []int{300, 1100}[rep%2], 1+rep%2))
		for _, n := range []int{2, 3} {
			for stuck := 0; stuck < n; stuck++ {
				w.Put(runAllBusy(rng, n, rep%2, stuck, rng.Perm(n)))
				ord := make([]int, n) // the lane whose worker stays busy parks last
				for i := range ord {
					ord[i] = (stuck + 1 + i) % n
				}
				w.Put(runAllBusy(rng, n, rep%2, stuck, ord))
			}
		}
	}
	for i := 0; i < *npanics; i++ {
		w.Put(runPanics(rng))
	}
	for i := 0; i < *nburst; i++ {
		w.Put(runBurst(rng, 4, i%2, *burstPer))
		w.Put(runQuietBurst(rng, 4, i%3, 40**burstPer))
		w.Put(runQuietBurst(rng, 1+i%2, i%2, 20**burstPer)) // the tightest bound: one or two lanes, little or no buffer
	}
	for i := 0; i < *ncrowd; i++ {
		w.Put(runCrowdedCancel(rng, 2+i%2, 1+i%2, 200000))
	}
	for i, n := range []int{1, 3, 16} {
		w.Put(runWaitAfterNew(rng, n, i%2, true))
		w.Put(runWaitAfterNew(rng, n, i%2, false))
	}
	w.Put(runBurstProbe(rng, *nprobe))
	w.Put(runLoneBursts(rng, time.Duration(*loneMs)*time.Millisecond))
	w.Put(runPanicShare(rng, 2))
	w.Put(runPanicShare(rng, 3))
	w.Put(runMarathon(rng, 1+int(vio.Seed())%2))
	w.Put(runPanicMarathon(rng, *npanicm))
	for i := 0; i < *nlast; i++ {
		w.Put(runLastPanic(rng, 1+i%2))
	}
	for i := 0; i < *ntimeouts; i++ {
		w.Put(runTimeouts(rng, 1+i%2, 1+i%2))
	}
}
