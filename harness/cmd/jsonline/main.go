// Command jsonline binds spec/logger/JsonLine.tla / JsonString.tla to the real JSON handler.
//
//	-mode struct  : derivation chains and attribute forests exported by TLC are built with the real
//	                Logger (With / WithGroup / Info, empty groups behind LogValuers or given directly),
//	                the written line is cut into tokens by a strict lexer (structural bytes untouched)
//	-mode values  : one record per value kind (integer extremes, floats incl. NaN/Inf, bool, duration,
//	                time, error, []byte, map, struct, json.Marshaler ok / failing / garbage, AnsiString,
//	                nil, LogValuer resolving to these or to groups)
//	-mode strings : every 1-byte string, 2-byte strings, Unicode scalar values - as message, key,
//	                value, With value and group name; the literal the handler wrote is recorded
//
// TLC judges every recorded case (spec/logger/JsonCases.tla).
package main

import (
	"bufio"
	"context"
	"encoding/json"
	"errors"
	"flag"
	"fmt"
	"log/slog"
	"math"
	"math/rand"
	"os"
	"strconv"
	"strings"
	"time"
	"unicode/utf8"

	"github.com/whoisnian/glb/logger"
	"verif/harness/internal/sites"
	"verif/harness/internal/vio"
)

type tok struct {
	T string `json:"t"`
	X string `json:"x"`
	B []int  `json:"b"` // raw bytes of a literal
}

// lex cuts one line into tokens. Structural bytes are passed through untouched; a string literal is
// the raw text between its quotes (escapes not interpreted); anything else is a bare literal.
func lex(line []byte) ([]tok, [][]byte) {
	out := []tok{}
	var raws [][]byte
	i := 0
	for i < len(line) {
		c := line[i]
		switch {
		case strings.IndexByte("{}[],:", c) >= 0:
			out = append(out, tok{T: string(c), B: []int{}})
			raws = append(raws, nil)
			i++
		case c == '"':
			j := i + 1
			for j < len(line) && line[j] != '"' {
				if line[j] == '\\' {
					j++
				}
				j++
			}
			if j >= len(line) {
				out = append(out, tok{T: "bad", X: "unterminated string", B: []int{}})
				raws = append(raws, nil)
				return out, raws
			}
			out = append(out, tok{T: "s", X: strings.ToValidUTF8(string(line[i+1:j]), "?"), B: vio.Ints(string(line[i+1 : j]))})
			raws = append(raws, line[i+1:j])
			i = j + 1
		case c == ' ' || c == '\t' || c == '\n' || c == '\r':
			out = append(out, tok{T: "bad", X: "whitespace", B: []int{}})
			raws = append(raws, nil)
			i++
		default:
			j := i
			for j < len(line) && strings.IndexByte("{}[],:\" \t\r\n", line[j]) < 0 {
				j++
			}
			out = append(out, tok{T: "n", X: strings.ToValidUTF8(string(line[i:j]), "?"), B: vio.Ints(string(line[i:j]))})
			raws = append(raws, nil)
			i = j
		}
	}
	return out, raws
}

type capture struct{ writes [][]byte }

func (c *capture) Write(p []byte) (int, error) {
	c.writes = append(c.writes, append([]byte(nil), p...))
	return len(p), nil
}

// one line: exactly one Write, exactly one '\n', at the end
func oneLine(c *capture) ([]byte, bool) {
	if len(c.writes) != 1 {
		return nil, false
	}
	w := c.writes[0]
	if len(w) == 0 || w[len(w)-1] != '\n' || strings.Count(string(w), "\n") != 1 {
		return w, false
	}
	return w[:len(w)-1], true
}

func maskTime(ts []tok) {
	for i := 0; i+2 < len(ts); i++ {
		if ts[i].T == "s" && ts[i].X == "time" && ts[i+1].T == ":" && i == 1 {
			ts[i+2].X = "T"
		}
	}
}

// ---- struct mode

type node struct {
	T string `json:"t"`
	K string `json:"k"`
	X string `json:"x"`
	C []node `json:"c"`
}
type item struct {
	Op   string `json:"op"`
	F    []node `json:"f"`
	Name string `json:"name"`
}
type scenario struct {
	Chain []item `json:"chain"`
	Site  []node `json:"site"`
}

type ptrErr struct{ msg string }

func (e *ptrErr) Error() string { return e.msg }

type panicErr struct{}

func (panicErr) Error() string { panic("Error() panics") }

type lazy struct{ v slog.Value }

func (l lazy) LogValue() slog.Value { return l.v }

func toAttr(n node, rng *rand.Rand, top bool) slog.Attr {
	if n.T == "leaf" {
		if rng.Intn(4) == 0 {
			return slog.Any(n.K, lazy{slog.StringValue(n.X)})
		}
		return slog.String(n.K, n.X)
	}
	var kids []slog.Attr
	for _, c := range n.C {
		kids = append(kids, toAttr(c, rng, false))
	}
	gv := slog.GroupValue(kids...)
	if len(n.C) == 0 && !(top && rng.Intn(2) == 0) {
		// an empty group survives construction only behind a LogValuer (or at the top level of With)
		return slog.Attr{Key: n.K, Value: slog.AnyValue(lazy{slog.GroupValue()})}
	}
	if rng.Intn(5) == 0 {
		return slog.Attr{Key: n.K, Value: slog.AnyValue(lazy{gv})}
	}
	return slog.Attr{Key: n.K, Value: gv}
}

func runStruct(in, out string, rng *rand.Rand) {
	f, err := os.Open(in)
	if err != nil {
		vio.Fatal("%v", err)
	}
	w := vio.Create(out)
	defer w.Close()
	sc := bufio.NewScanner(f)
	sc.Buffer(make([]byte, 1<<20), 1<<24)
	for sc.Scan() {
		var s scenario
		if json.Unmarshal(sc.Bytes(), &s) != nil {
			vio.Fatal("bad scenario")
		}
		if len(s.Chain) > 0 && rng.Intn(2) == 0 {
			// a padding attribute of seeded size in front: handler buffers get all lengths / spare capacities
			pad := item{Op: "with", F: []node{{T: "leaf", K: "pad", X: strings.Repeat("p", rng.Intn(48)), C: []node{}}}}
			s.Chain = append([]item{pad}, s.Chain...)
		}
		c := &capture{}
		l := logger.New(logger.NewJsonHandler(c, logger.NewOptions(logger.LevelInfo, false, false)))
		for _, it := range s.Chain {
			parent := l
			for _, other := range s.Chain {
				if other.Op == "group" {
					// group names of the chain derived elsewhere in the tree first, directly and from a With-sibling: a handler that
					// memoises derived groups by name must not hand them out to this chain
					_ = parent.WithGroup(other.Name)
					_ = parent.With("decoyT", 7).WithGroup(other.Name)
				}
			}
			if it.Op == "group" {
				l = l.WithGroup(it.Name)
			} else {
				var args []any
				for _, n := range it.F {
					args = append(args, toAttr(n, rng, true))
				}
				l = l.With(args...)
			}
			// the chain lives inside a tree: siblings derived from the same parent afterwards must not disturb it
			_ = parent.With("decoy", strings.Repeat("#", 1+rng.Intn(40)), "decoy2", 12345)
			_ = parent.WithGroup("decoygroup")
			_ = parent.WithGroup("d") // last, and short enough to fit into whatever spare capacity the parent's group path has
		}
		var args []any
		for _, n := range s.Site {
			a := toAttr(n, rng, false)
			if n.T == "leaf" && rng.Intn(3) == 0 && a.Value.Kind() == slog.KindString {
				args = append(args, n.K, n.X) // key/value pair form
			} else {
				args = append(args, a)
			}
		}
		l.Info("m", args...)
		line, ok := oneLine(c)
		toks, _ := lex(line)
		maskTime(toks)
		w.Put(map[string]any{"mode": "struct", "chain": s.Chain, "site": s.Site, "toks": toks, "oneline": ok})
	}
}

// ---- values mode

type mOK struct{}

func (mOK) MarshalJSON() ([]byte, error) { return []byte(`{"ok":true,"n":[1,2]}`), nil }

type mFail struct{}

func (mFail) MarshalJSON() ([]byte, error) { return nil, errors.New("MF!") }

// error texts with control bytes, DEL, an invalid UTF-8 byte and an unprintable rune beyond the BMP (e.g. a coloured message)
const ctlText = "MF\x1b[31m\x00\a\v\x7f\xff\U000E0001 \u2028!"

type mFailCtl struct{}

func (mFailCtl) MarshalJSON() ([]byte, error) { return nil, errors.New(ctlText) }

type mGarbage struct{}

func (mGarbage) MarshalJSON() ([]byte, error) { return []byte(`{"a":,}`), nil }

type mMultiline struct{}

func (mMultiline) MarshalJSON() ([]byte, error) { return []byte("{\n  \"a\": 1\n}"), nil }

type plainStruct struct {
	A int    `json:"a"`
	B string `json:"b"`
}

func runValues(out string) {
	w := vio.Create(out)
	defer w.Close()
	t0 := time.Date(2021, 3, 4, 5, 6, 7, 89, time.UTC)
	kinds := []struct {
		name string
		v    any
	}{
		{"int64min", int64(math.MinInt64)}, {"int64max", int64(math.MaxInt64)}, {"uint64max", uint64(math.MaxUint64)},
		{"intneg", -7}, {"float", 0.1}, {"floatbig", 1e21}, {"floatsmall", 1e-7}, {"nan", math.NaN()}, {"posinf", math.Inf(1)}, {"neginf", math.Inf(-1)},
		{"booltrue", true}, {"boolfalse", false}, {"dur", 1500 * time.Millisecond}, {"time", t0}, {"err", errors.New("E!")},
		{"ansi", logger.AnsiString{Prefix: "\x1b[31m", Value: "AV"}}, {"nil", nil}, {"bytes", []byte{1, 2, 3}},
		{"map", map[string]int{"a": 1}}, {"struct", plainStruct{1, "x"}}, {"slice", []int{1, 2}},
		{"marshalOK", mOK{}}, {"marshalFail", mFail{}}, {"marshalGarbage", mGarbage{}}, {"marshalMultiline", mMultiline{}},
		{"valuerStr", lazy{slog.StringValue("LV")}}, {"valuerInt", lazy{slog.Int64Value(5)}}, {"valuerErr", lazy{slog.AnyValue(errors.New("E!"))}},
		// error values whose Error method cannot be called: a nil pointer receiver, a method that panics
		{"nilErrPtr", (*ptrErr)(nil)}, {"valuerNilErrPtr", lazy{slog.AnyValue((*ptrErr)(nil))}}, {"panicErr", panicErr{}},
		{"valuerNaN", lazy{slog.Float64Value(math.NaN())}}, {"valuerGroup", lazy{slog.GroupValue(slog.Int("a", 1))}},
		{"valuerEmptyGroup", lazy{slog.GroupValue()}}, {"valuerMarshalFail", lazy{slog.AnyValue(mFail{})}},
		{"big", strings.Repeat("x", 20000)}, {"bigbytes", bytes20k()},
		{"marshalFailCtl", mFailCtl{}}, {"valuerMarshalFailCtl", lazy{slog.AnyValue(mFailCtl{})}}, {"errCtl", errors.New(ctlText)},
		{"ansiCtl", logger.AnsiString{Prefix: "\x1b[31m", Value: ctlText}}, {"mapCtl", map[string]string{ctlText: ctlText}},
		{"chan", make(chan int)}, {"func", func() {}}, {"strptrnil", (*string)(nil)}, {"jsonnumber", json.Number("12")},
		// raw JSON in every layout a RawMessage may have: indented, with a trailing newline, not JSON at all
		{"rawPretty", json.RawMessage("{\n  \"a\": 1\n}")}, {"rawTrailingNL", json.RawMessage("{\"a\":1}\n")}, {"rawGarbage", json.RawMessage("{a")},
		{"rawInMap", map[string]json.RawMessage{"a": json.RawMessage("1\n")}}, {"valuerRawPretty", lazy{slog.AnyValue(json.RawMessage("{\n\t\"a\" : 1 }\n"))}},
	}
	// times in zones on both sides of UTC, in particular offsets between -01:00 and 00:00 and non-hour offsets
	for _, off := range []int{-30, -1, 30, -60, 345, -570, 840, -720, -59, 59} {
		kinds = append(kinds, struct {
			name string
			v    any
		}{"timeZ", t0.In(time.FixedZone("", off*60))})
	}
	runCallSites(w)
	for _, addSource := range []bool{false, true} {
		for _, level := range []slog.Level{logger.LevelDebug, logger.LevelInfo, logger.LevelWarn, logger.LevelError, logger.LevelFatal} {
			for _, k := range kinds {
				if level != logger.LevelInfo && k.name != "float" && k.name != "marshalFail" {
					continue
				}
				for _, where := range []string{"site", "with", "group"} {
					c := &capture{}
					l := logger.New(logger.NewJsonHandler(c, logger.NewOptions(logger.LevelDebug, false, addSource)))
					func() {
						defer func() { recover() }() // a logging call that panics has written nothing: judged as such
						switch where {
						case "site":
							if tz, isT := k.v.(time.Time); isT && k.name == "timeZ" && !addSource {
								// the record's own time in that zone as well (straight through the handler)
								r := slog.NewRecord(tz, level, "m", 0)
								r.Add("v", k.v, "z", 1)
								logger.NewJsonHandler(c, logger.NewOptions(logger.LevelDebug, false, false)).Handle(context.Background(), r)
							} else {
								l.Log(nil, level, "m", "v", k.v, "z", 1)
							}
						case "with":
							l.With("v", k.v).Log(nil, level, "m", "z", 1)
						default:
							l.WithGroup("g").Log(nil, level, "m", slog.Group("h", slog.Any("v", k.v)), "z", 1)
						}
					}()
					line, ok := oneLine(c)
					toks, _ := lex(line)
					recTimeOK := true
					if tz, isT := k.v.(time.Time); isT && k.name == "timeZ" && where == "site" && !addSource && len(toks) > 3 {
						g, err := time.Parse(time.RFC3339Nano, toks[3].X)
						recTimeOK = err == nil && g.Equal(tz)
					}
					maskTime(toks)
					shorten(toks)
					rt := true
					if f, isF := k.v.(float64); isF && !math.IsNaN(f) && !math.IsInf(f, 0) {
						rt = false
						for i := range toks {
							if toks[i].T == "s" && toks[i].X == "v" && i+2 < len(toks) {
								if g, err := strconv.ParseFloat(toks[i+2].X, 64); err == nil && g == f {
									rt = true
								}
							}
						}
					}
					if k.name == "time" || k.name == "timeZ" {
						rt = false
						for i := range toks {
							if toks[i].T == "s" && toks[i].X == "v" && i+2 < len(toks) {
								if g, err := time.Parse(time.RFC3339Nano, toks[i+2].X); err == nil && g.Equal(t0) {
									rt = recTimeOK
								}
							}
						}
					}
					w.Put(map[string]any{"mode": "values", "kind": k.name, "where": where, "source": addSource, "level": levelName(level), "toks": toks, "oneline": ok, "roundtrip": rt})
				}
			}
		}
	}
}

// runCallSites logs through every output method of Logger from call sites with known file and line (package sites)
func runCallSites(w *vio.Writer) {
	for _, derived := range []bool{false, true} {
		for _, st := range sites.Sites {
			c := &capture{}
			l := logger.New(logger.NewJsonHandler(c, logger.NewOptions(logger.LevelDebug, false, true)))
			if derived {
				l = l.With("w", 1).WithGroup("g")
			}
			st.Call(l)
			line, ok := oneLine(c)
			toks, _ := lex(line)
			maskTime(toks)
			w.Put(map[string]any{"mode": "callsite", "method": st.Method, "file": st.File, "line": strconv.Itoa(st.Line), "level": st.Level, "derived": derived, "toks": toks, "oneline": ok})
		}
	}
}

func bytes20k() []byte { return make([]byte, 15000) } // base64: 20000 x 'A'

// shorten collapses an oversize literal made of one repeated byte (checked here) to "<n c>", so that TLC need not walk it
func shorten(toks []tok) {
	for i := range toks {
		if len(toks[i].B) > 4000 {
			same := true
			for _, b := range toks[i].B {
				if b != toks[i].B[0] {
					same = false
					break
				}
			}
			if same {
				toks[i].X = fmt.Sprintf("<%d %c>", len(toks[i].B), rune(toks[i].B[0]))
				toks[i].B = []int{}
			}
		}
	}
}

func levelName(l slog.Level) string {
	return map[slog.Level]string{logger.LevelDebug: "DEBUG", logger.LevelInfo: "INFO", logger.LevelWarn: "WARN", logger.LevelError: "ERROR", logger.LevelFatal: "FATAL"}[l]
}

// ---- strings mode

var shapes = map[string]string{
	"msg":   "{s:s,s:s,s:s}",
	"key":   "{s:s,s:s,s:s,s:s}",
	"value": "{s:s,s:s,s:s,s:s}",
	"with":  "{s:s,s:s,s:s,s:s}",
	"group": "{s:s,s:s,s:s,s:{s:s}}",
}
var litIndex = map[string]int{"msg": 11, "key": 13, "value": 15, "with": 15, "group": 13}

func runStrings(out string, tier string, rng *rand.Rand) {
	w := vio.Create(out)
	defer w.Close()
	positions := []string{"msg", "key", "value", "with", "group"}
	n := 0
	emit := func(s string, pos string) {
		if pos == "group" && s == "" {
			pos = "value"
		}
		c := &capture{}
		l := logger.New(logger.NewJsonHandler(c, logger.NewOptions(logger.LevelInfo, false, false)))
		switch pos {
		case "msg":
			l.Info(s)
		case "key":
			l.Info("m", s, "v")
		case "value":
			l.Info("m", "k", s)
		case "with":
			l.With("k", s).Info("m")
		case "group":
			l.WithGroup(s).Info("m", "k", "v")
		}
		line, ok := oneLine(c)
		toks, raws := lex(line)
		shape := ""
		for _, t := range toks {
			if t.T == "bad" {
				shape += "!"
			} else {
				shape += t.T
			}
		}
		var lit []int
		if idx := litIndex[pos]; idx < len(raws) && raws[idx] != nil {
			lit = vio.Ints(string(raws[idx]))
		} else {
			lit = []int{}
			shape += "?"
		}
		w.Put(map[string]any{"mode": "strings", "in": vio.Ints(s), "lit": lit, "pos": pos, "shape": shape, "want": shapes[pos], "oneline": ok})
		n++
	}
	emit("", "msg")
	emit("", "key")
	emit("", "value")
	for b := 0; b < 256; b++ {
		for _, p := range positions {
			emit(string([]byte{byte(b)}), p)
		}
	}
	reps := []byte{0, 9, 10, 31, 32, 34, 92, 97, 127, 128, 191, 194, 224, 160, 226, 168, 237, 240, 144, 244, 143, 255}
	if tier == "thorough" {
		for a := 0; a < 256; a++ {
			for b := 0; b < 256; b++ {
				emit(string([]byte{byte(a), byte(b)}), positions[(a+b)%5])
			}
		}
	} else {
		for _, a := range reps {
			for b := 0; b < 256; b++ {
				emit(string([]byte{a, byte(b)}), positions[(int(a)+b)%5])
			}
		}
	}
	// Unicode scalar values: all (thorough) or class boundaries + seeded sample (quick), plus 3-byte neighbourhoods of U+2028
	var cps []rune
	if tier == "thorough" {
		for r := rune(0); r <= utf8.MaxRune; r++ {
			if r < 0xD800 || r > 0xDFFF {
				cps = append(cps, r)
			}
		}
	} else {
		for _, r := range []rune{0, 0x1f, 0x20, 0x22, 0x5c, 0x7e, 0x7f, 0x80, 0x9f, 0xa0, 0x7ff, 0x800, 0x2027, 0x2028, 0x2029, 0x202a, 0xd7ff, 0xe000, 0xfffd, 0xfffe, 0xffff, 0x10000, 0x10ffff} {
			cps = append(cps, r)
		}
		for i := 0; i < 6000; i++ {
			r := rune(rng.Intn(0x110000))
			if r < 0xD800 || r > 0xDFFF {
				cps = append(cps, r)
			}
		}
	}
	for i, r := range cps {
		emit(string(r), positions[i%5])
		if i%97 == 0 {
			emit("x"+string(r)+"\xff"+string(r), positions[(i/97)%5])
		}
	}
	// truncated and overlong sequences
	for _, s := range []string{"\xe2\x80", "\xe2\x80\xa8", "\xe2\x80\xa9x", "\xf0\x9f\x98", "\xc0\xaf", "\xe0\x80\xaf", "\xed\xa0\x80", "\xf4\x90\x80\x80", "a\xe2\x80\xa8b\xe2\x80\xa9", "\\u0041", "\\\"", "\"}", "\n{"} {
		for _, p := range positions {
			emit(s, p)
		}
	}
	fmt.Println(n)
}

func main() {
	mode := flag.String("mode", "struct", "")
	in := flag.String("in", "scen.ndjson", "")
	out := flag.String("out", "cases.ndjson", "")
	tier := flag.String("tier", "quick", "")
	flag.Parse()
	rng := rand.New(rand.NewSource(vio.Seed()))
	switch *mode {
	case "struct":
		runStruct(*in, *out, rng)
	case "values":
		runValues(*out)
	default:
		runStrings(*out, *tier, rng)
	}
}
