// Command progress records traces of the real ioutil.ProgressWriter: scripted wrapped writers (full,
// short, failing, with or without io.StringWriter), a writer goroutine issuing Write / WriteString /
// Close and reading Size(), and scripted consumers of Status() (absent until Close, slow, fast, late).
// "Never stalls" is judged on stable states: the writer parked inside Write/WriteString with nothing
// else able to run.  TLC (spec/util/ProgressCases.tla) judges every trace.
package main

import (
	"bytes"
	"errors"
	"flag"
	"fmt"
	"io"
	"math/rand"
	"runtime"
	"strings"
	"sync/atomic"
	"time"
	"unsafe"

	"github.com/whoisnian/glb/util/ioutil"
	"verif/harness/internal/evlog"
	"verif/harness/internal/vio"
)

type ev struct {
	E    string `json:"e"`    // u (underlying write reported n), wb, we, size, cb (Close begins), ce, r (receive), stalled
	N    int    `json:"n"`    // u: bytes reported; we: bytes returned by Write; size: Size(); r: value
	Req  int    `json:"req"`  // wb: len(p)
	Err  bool   `json:"err"`  // u / we: error returned
	OK   bool   `json:"ok"`   // r: channel still open
	Kind string `json:"kind"` // wb: Write | WriteString
}

type step struct {
	n   int  // bytes reported
	err bool // error returned
}

type under struct {
	b      *evlog.Buf
	script []step
	i      int
	unit   int  // byte counts are recorded in this unit (1, or 1 MiB in the multi-gigabyte run)
	quiet  bool // tight run: no event per write, only the running total (recorded once at the end)
	total  int
}

// scaled converts a byte count to the run's unit; a count that is not a whole number of units is recorded as an impossible value
func scaled(n, unit int) int {
	if unit <= 1 {
		return n
	}
	if n%unit != 0 || n < 0 {
		return 99999999
	}
	return n / unit
}

func (u *under) next(req int) (int, error) {
	st := step{n: req}
	if u.i < len(u.script) {
		st = u.script[u.i]
	}
	u.i++
	if st.n > req {
		st.n = req
	}
	if u.quiet {
		u.total += st.n
	} else {
		u.b.Emit(ev{E: "u", N: scaled(st.n, u.unit), Err: st.err, Req: scaled(req, u.unit)})
	}
	if st.err {
		return st.n, errors.New("scripted failure")
	}
	return st.n, nil
}

type plainWriter struct{ u *under }

func (p plainWriter) Write(b []byte) (int, error) { return p.u.next(len(b)) }

type stringWriter struct{ u *under }

func (p stringWriter) Write(b []byte) (int, error)       { return p.u.next(len(b)) }
func (p stringWriter) WriteString(s string) (int, error) { return p.u.next(len(s)) }

// rfWriter: a wrapped writer with a ReadFrom of its own (as *os.File, *bufio.Writer, net.TCPConn have): it pulls the source
// in chunks and accepts of each chunk what the script says
type rfWriter struct{ u *under }

func (p rfWriter) Write(b []byte) (int, error) { return p.u.next(len(b)) }
func (p rfWriter) ReadFrom(r io.Reader) (int64, error) {
	buf := make([]byte, 8<<10)
	var total int64
	for {
		n, rerr := r.Read(buf)
		if n > 0 {
			a, werr := p.u.next(n)
			total += int64(a)
			if werr != nil {
				return total, werr
			}
			if a < n {
				return total, io.ErrShortWrite
			}
		}
		if rerr == io.EOF {
			return total, nil
		}
		if rerr != nil {
			return total, rerr
		}
	}
}

// seekWriter: a wrapped writer that knows its position (a file opened for appending / a resumed transfer): not at 0
type seekWriter struct {
	u   *under
	pos int64
}

func (p *seekWriter) Write(b []byte) (int, error) {
	n, err := p.u.next(len(b))
	p.pos += int64(n)
	return n, err
}
func (p *seekWriter) Seek(off int64, whence int) (int64, error) {
	if whence == io.SeekStart {
		p.pos = off
	} else if whence == io.SeekCurrent {
		p.pos += off
	}
	return p.pos, nil
}

func parkedInWrite() bool {
	buf := make([]byte, 1<<18)
	n := runtime.Stack(buf, true)
	for _, g := range strings.Split(string(buf[:n]), "\n\n") {
		if strings.Contains(g, "ioutil.(*ProgressWriter).sum") {
			hdr := g[:strings.IndexByte(g+"\n", '\n')]
			if strings.Contains(hdr, "[chan send") || strings.Contains(hdr, "[chan receive") || strings.Contains(hdr, "[select") {
				return true
			}
		}
	}
	return false
}

func main() {
	out := flag.String("out", "traces.ndjson", "")
	runs := flag.Int("runs", 200, "")
	flag.Parse()
	rng := rand.New(rand.NewSource(vio.Seed()))
	w := vio.Create(*out)
	defer w.Close()
	bigBuf := make([]byte, 64<<20) // never touched: the scripted writers only report counts
	bigStr := unsafe.String(&bigBuf[0], len(bigBuf))
	hung := 0
	for run := 0; run < *runs; run++ {
		log := evlog.New()
		wb, cb, mb := log.Buf(), log.Buf(), log.Buf()
		nw := 1 + rng.Intn(30)
		if run%5 == 0 {
			nw = 200 + rng.Intn(300) // many small writes against a concurrently draining consumer
		}
		u := &under{b: wb, unit: 1}
		// paced: as tight, but the consumer is now slower, now faster than the writer (it spins for a random short while between two
		// receives), so that the writer keeps finding the previous value not yet taken - and the consumer takes it at any moment
		paced := run == *runs/3 || run == *runs/4 || run == *runs-3
		tight := paced || run == *runs-2 || run == *runs/2 // tens of thousands of tiny writes against a consumer receiving in a tight loop, nothing in between
		if tight {
			nw = 30000
			u.quiet = true
		}
		huge := run == *runs-1 // one run moves more than 4 GiB: totals beyond 2^32 (a large download), counted in MiB
		if huge {
			nw = 90
			u.unit = 1 << 20
		}
		for i := 0; i < nw; i++ {
			if huge {
				switch i % 3 {
				case 2:
					u.script = append(u.script, step{(1 + rng.Intn(40)) << 20, true}) // short and failed
				default:
					u.script = append(u.script, step{64 << 20, false})
				}
				continue
			}
			switch rng.Intn(6) {
			case 0:
				u.script = append(u.script, step{rng.Intn(8), false}) // short write
			case 1:
				u.script = append(u.script, step{rng.Intn(5), true}) // failed write that still wrote some bytes
			case 2:
				u.script = append(u.script, step{0, true})
			default:
				u.script = append(u.script, step{1 << 20, false}) // full
			}
		}
		var pw *ioutil.ProgressWriter
		isSW := rng.Intn(2) == 0
		viaCopy := !tight && !huge && run%7 == 3 // the writes arrive through io.Copy(pw, source), the wrapped writer has a ReadFrom of its own
		switch {
		case viaCopy:
			pw = ioutil.NewProgressWriter(rfWriter{u})
		case !tight && !huge && run%7 == 5:
			pw = ioutil.NewProgressWriter(&seekWriter{u: u, pos: int64(4096 + rng.Intn(100000))})
		case isSW:
			pw = ioutil.NewProgressWriter(stringWriter{u})
		default:
			pw = ioutil.NewProgressWriter(plainWriter{u})
		}
		wb.Emit(ev{E: "size", N: pw.Size()}) // nothing written yet
		consumer := []string{"absent", "fast", "slow", "late"}[run%4]
		if tight {
			consumer = "fast"
		}
		var writerDone, closing atomic.Bool
		done := make(chan struct{})
		go func() { // writer
			defer close(done)
			if viaCopy {
				for i := 0; i < 1+nw/8; i++ {
					src := struct{ io.Reader }{bytes.NewReader(bigBuf[:1+rng.Intn(200<<10)])} // no WriteTo: io.Copy has to go through pw
					io.Copy(pw, src)
					wb.Emit(ev{E: "size", N: pw.Size()})
				}
				writerDone.Store(true)
				closing.Store(true)
				wb.Emit(ev{E: "cb"})
				pw.Close()
				wb.Emit(ev{E: "ce"})
				return
			}
			for i := 0; i < nw; i++ {
				if tight {
					pw.Write(bigBuf[:1+i%7])
					if i == nw-1 {
						wb.Emit(ev{E: "u", N: u.total, Req: u.total}) // all the counts the wrapped writer reported, in one event
						wb.Emit(ev{E: "size", N: pw.Size()})
					}
					continue
				}
				req := 1 + rng.Intn(12)
				if huge {
					req = 64 << 20
				}
				if rng.Intn(2) == 0 {
					wb.Emit(ev{E: "wb", Req: scaled(req, u.unit), Kind: "Write"})
					buf := bigBuf[:0]
					if huge {
						buf = bigBuf
					} else {
						buf = make([]byte, req)
					}
					n, err := pw.Write(buf)
					wb.Emit(ev{E: "we", N: scaled(n, u.unit), Err: err != nil})
				} else {
					wb.Emit(ev{E: "wb", Req: scaled(req, u.unit), Kind: "WriteString"})
					str := bigStr
					if !huge {
						str = strings.Repeat("x", req)
					}
					n, err := pw.WriteString(str)
					wb.Emit(ev{E: "we", N: scaled(n, u.unit), Err: err != nil})
				}
				wb.Emit(ev{E: "size", N: scaled(pw.Size(), u.unit)})
			}
			writerDone.Store(true)
			closing.Store(true)
			wb.Emit(ev{E: "cb"})
			pw.Close()
			wb.Emit(ev{E: "ce"})
		}()
		cdone := make(chan struct{})
		go func() { // consumer
			defer close(cdone)
			switch consumer {
			case "absent":
				for !closing.Load() {
					time.Sleep(50 * time.Microsecond)
				}
			case "late":
				time.Sleep(time.Duration(100+rng.Intn(400)) * time.Microsecond)
			}
			lastV, anyV := 0, false
			rng2 := rand.New(rand.NewSource(int64(run) + vio.Seed()))
			spin := 0
			_ = spin
			for {
				v, ok := <-pw.Status()
				if tight && ok {
					if paced {
						for k, n := 0, rng2.Intn(400); k < n; k++ {
							spin++
						}
						if rng2.Intn(8) == 0 {
							runtime.Gosched()
						}
					}
					if v < lastV {
						cb.Emit(ev{E: "r", N: lastV, OK: true}) // a decrease is recorded with its predecessor
						cb.Emit(ev{E: "r", N: v, OK: true})
					}
					lastV, anyV = v, true // tight run: received values are not recorded one by one
					continue
				}
				if tight && anyV {
					cb.Emit(ev{E: "r", N: lastV, OK: true})
				}
				cb.Emit(ev{E: "r", N: scaled(v, u.unit), OK: ok})
				if !ok {
					return
				}
				if consumer == "slow" {
					time.Sleep(time.Duration(rng.Intn(80)) * time.Microsecond)
				}
			}
		}()
		// watchdog: a writer parked inside Write/WriteString in a stable state is a stall
		stalled := false
		for waited := 0; ; waited++ {
			select {
			case <-done:
			case <-time.After(20 * time.Millisecond):
				if !writerDone.Load() && parkedInWrite() {
					n1 := log.Count()
					time.Sleep(30 * time.Millisecond)
					if !writerDone.Load() && parkedInWrite() && log.Count() == n1 {
						mb.Emit(ev{E: "stalled"})
						stalled = true
					}
				}
				if !stalled && waited < 400 {
					continue
				}
			}
			break
		}
		if !stalled {
			select {
			case <-cdone:
			case <-time.After(3 * time.Second):
				mb.Emit(ev{E: "consumer-stuck"})
				hung++ // each such run costs seconds: a few are enough evidence
			}
		}
		w.Put(map[string]any{"evs": log.Merge(), "consumer": consumer, "stringwriter": isSW, "note": fmt.Sprintf("writes=%d", nw)})
		select {
		case <-done:
		default:
			hung++ // the writer never came back from Write / Close: its goroutine is lost
		}
		if stalled {
			hung++
		}
		if hung >= 3 {
			break // three runs with a writer that never returned are enough evidence; each further one costs seconds
		}
	}
}
