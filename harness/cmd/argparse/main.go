// Command argparse runs the real config.NewFlagSet + Parse on every argument vector of length
// <= maxlen over the token alphabet (tokens.ndjson) plus seeded vectors of arbitrary byte tokens,
// and records error-ness, panics, resulting field values, ShowUsage() and Args().
// TLC (spec/config/ArgParseCases.tla) judges each record against the documented grammar.
package main

import (
	"bufio"
	"encoding/json"
	"flag"
	"fmt"
	"math/rand"
	"os"
	"strings"

	"github.com/whoisnian/glb/config"
	"verif/harness/internal/vio"
)

type Cfg struct {
	B bool   `flag:"b,false,a boolean flag"`
	T bool   `flag:"t,true,a boolean flag that is on by default"`
	S string `flag:"s,d,a string flag"`
	I int    `flag:"i,3,an int flag"`
}

type rec struct {
	V     [][]int `json:"v"`
	Err   bool    `json:"err"`
	Panic bool    `json:"panic"`
	B     bool    `json:"b"`
	T     bool    `json:"t"`
	S     []int   `json:"s"`
	I     int     `json:"i"`
	Help  bool    `json:"help"`
	Rest  [][]int `json:"rest"`
	Msg   string  `json:"msg,omitempty"`
}

func run(args []string) (r rec) {
	r.V = make([][]int, len(args))
	for i, a := range args {
		r.V[i] = vio.Ints(a)
	}
	r.S, r.Rest = []int{}, [][]int{}
	defer func() {
		if p := recover(); p != nil {
			r.Panic = true
			r.Msg = fmt.Sprint(p)
		}
	}()
	var c Cfg
	fs, err := config.NewFlagSet(&c)
	if err != nil {
		vio.Fatal("NewFlagSet: %v", err)
	}
	in := append([]string(nil), args...)
	if err := fs.Parse(in); err != nil {
		r.Err = true
		r.Msg = err.Error()
		return r
	}
	r.B, r.T, r.S, r.Help = c.B, c.T, vio.Ints(c.S), fs.ShowUsage()
	if c.I > 1<<30 || c.I < -(1<<30) {
		r.I = 1 << 30 // outside the model's integer range; the model marks such texts "unknown"
	} else {
		r.I = c.I
	}
	for _, a := range fs.Args() {
		r.Rest = append(r.Rest, vio.Ints(a))
	}
	return r
}

func main() {
	maxlen := flag.Int("maxlen", 3, "")
	extra := flag.Int("extra", 2000, "")
	tokfile := flag.String("tokens", "tokens.ndjson", "")
	out := flag.String("out", "cases.ndjson", "")
	flag.Parse()
	for _, e := range os.Environ() {
		if strings.HasPrefix(e, "CFG_") {
			os.Unsetenv(strings.SplitN(e, "=", 2)[0])
		}
	}
	if err := os.WriteFile("cfg.json", []byte("{}"), 0o644); err != nil {
		vio.Fatal("cfg.json: %v", err)
	}
	var toks []string
	f, err := os.Open(*tokfile)
	if err != nil {
		vio.Fatal("%v", err)
	}
	sc := bufio.NewScanner(f)
	for sc.Scan() {
		var a []int
		if json.Unmarshal(sc.Bytes(), &a) == nil {
			toks = append(toks, vio.Bytes(a))
		}
	}
	w := vio.Create(*out)
	defer w.Close()
	var gen func(v []string)
	gen = func(v []string) {
		w.Put(run(v))
		if len(v) < *maxlen {
			for _, t := range toks {
				gen(append(v[:len(v):len(v)], t))
			}
		}
	}
	gen(nil)
	// one-byte names that differ from a defined one-letter flag by the top bit, by case plus top bit, or in one low bit (a name
	// looked up in a table indexed by a masked byte): all of them are undefined flags
	for _, c := range []byte("btsiu") {
		for _, x := range []byte{c | 0x80, (c ^ 0x20) | 0x80, c ^ 0x01, c ^ 0x40} {
			for _, form := range []string{"-%s", "--%s", "-%s=v", "-%s=7", "-%s=true", "--%s=false"} {
				tok := fmt.Sprintf(form, string([]byte{x}))
				w.Put(run([]string{tok}))
				w.Put(run([]string{tok, "v"}))
				w.Put(run([]string{"-b", tok}))
				w.Put(run([]string{"-s=keep", tok, "-i=7"}))
			}
		}
	}
	rng := rand.New(rand.NewSource(vio.Seed()))
	pieces := []string{"-", "--", "=", "b", "t", "s", "i", "help", "config", "u", "true", "false", "0", "1", "7", "-5", "x", "v", " ", "\x00", "\xff", "é", "=="}
	for k := 0; k < *extra; k++ {
		n := 1 + rng.Intn(5)
		v := make([]string, n)
		for j := range v {
			switch rng.Intn(4) {
			case 0:
				v[j] = toks[rng.Intn(len(toks))]
			default:
				m := rng.Intn(5)
				for q := 0; q < m; q++ {
					if rng.Intn(12) == 0 {
						v[j] += string([]byte{byte(rng.Intn(256))})
					} else {
						v[j] += pieces[rng.Intn(len(pieces))]
					}
				}
			}
		}
		w.Put(run(v))
	}
}
