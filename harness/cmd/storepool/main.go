// Command storepool drives one httpd.Mux per history: registrations and requests in sequence
// (one goroutine: maximal sync.Pool reuse) or requests from several goroutines with registrations
// between batches.  Inside the relay handler, the route / no-route handler and after the handler
// returned, it records what Store exposes (selected route, every RouteParam, RouteParamAny,
// W.Status, GetID).  TLC (spec/httpd/StorePoolCases.tla) judges every history: each observation
// must equal what the same request observes on a fresh Mux with the same routes.
package main

import (
	"context"
	"flag"
	"fmt"
	"math/rand"
	"net/http"
	"net/http/httptest"
	"net/url"
	"runtime"
	"sort"
	"sync"
	"time"

	"github.com/whoisnian/glb/httpd"
	"verif/harness/internal/vio"
)

type route struct{ pat, method string }

var universe = []route{{"/u/:a/:b", "GET"}, {"/a/:x", "GET"}, {"/b/:x/:y", "GET"}, {"/s", "*"}, {"/w/*", "GET"}, {"/a/:x", "POST"}, {"/:y", "GET"}, {"/s", "GET"}, {"/s/", "POST"}}
var paths = []string{"/u/1/2", "/a/7", "/b/3/4", "/s", "/zz", "/u/9", "/w/q/r", "/b/5", "/", "/zz/1/2/3", "//s", "/s/", "/w/*", "/w/*/r", "/*", "/a/:x", "/u/:a/*"}
var methods = []string{"GET", "POST"}
var behaviours = []string{"ok", "status", "panic", "escape", "nest"}
var names = []string{"a", "b", "x", "y", "/:any"}

type snap struct {
	ID  int     `json:"id"`
	V   [][]int `json:"v"`
	St  int     `json:"st"`
	Gid []int   `json:"gid"`
}
type op struct {
	Op      string `json:"op"` // reg | req
	U       int    `json:"u"`  // reg: index into the universe (1-based)
	Acc     bool   `json:"acc"`
	P       []int  `json:"p"`
	M       string `json:"m"`
	Beh     string `json:"beh"`
	Relay   snap   `json:"relay"`
	Handler snap   `json:"handler"`
	GidExit []int  `json:"gidexit"`
	Reused  bool   `json:"reused"`
	Crash   string `json:"crash"`
	Cnt     int    `json:"cnt"`  // hreq: how many requests of the hammer phase made exactly this observation
	Dups    int    `json:"dups"` // hsum: request ids handed out twice / ids that changed during a request
	Changed int    `json:"changed"`
}
type history struct {
	Ops  []op   `json:"ops"`
	Kind string `json:"kind"`
}

type world struct {
	frozen  bool // hammer phase: the route table no longer changes, handlers take no lock
	mux     *httpd.Mux
	mu      sync.Mutex
	ids     map[*httpd.RouteInfo]int
	seen    map[*httpd.Store]bool
	regID   map[string]int
	handler httpd.HandlerFunc
}

func take(w *world, s *httpd.Store) snap {
	sn := snap{V: make([][]int, len(names))}
	if !w.frozen {
		w.mu.Lock()
		defer w.mu.Unlock()
	}
	if s.I != nil {
		if s.I.Path == "" && s.I.Method == "" {
			sn.ID = 0
		} else {
			sn.ID = w.regID[s.I.Method+" "+s.I.Path]
		}
	} else {
		sn.ID = -1
	}
	for i, n := range names {
		if n == "/:any" {
			sn.V[i] = vio.Ints(s.RouteParamAny())
		} else {
			sn.V[i] = vio.Ints(s.RouteParam(n))
		}
	}
	sn.St = s.W.Status
	sn.Gid = vio.Ints(string(append([]byte(nil), s.GetID()...)))
	return sn
}

type reqCtx struct {
	o     *op
	beh   string
	inner bool
}

func newWorld() *world {
	w := &world{mux: httpd.NewMux(), ids: map[*httpd.RouteInfo]int{}, seen: map[*httpd.Store]bool{}, regID: map[string]int{}}
	h := func(s *httpd.Store) {
		rc := s.R.Context().Value(ctxKey{}).(*reqCtx)
		rc.o.Handler = take(w, s)
		switch rc.beh {
		case "status":
			s.W.WriteHeader(201)
		case "panic", "escape":
			panic("boom")
		case "nest":
			// an internal re-dispatch: the handler serves another (unrecorded) request through the same Mux, handing
			// it its own ResponseWriter, then goes on
			if !rc.inner {
				scratch := op{}
				inner := (&http.Request{Method: "GET", URL: &url.URL{Path: "/zz"}, Header: http.Header{}}).WithContext(
					contextWith(&reqCtx{o: &scratch, beh: "status", inner: true}))
				w.mux.ServeHTTP(s.W, inner)
			}
		}
	}
	w.mux.HandleNoRoute(h)
	w.mux.HandleRelay(func(s *httpd.Store) {
		rc := s.R.Context().Value(ctxKey{}).(*reqCtx)
		if !w.frozen {
			w.mu.Lock()
			rc.o.Reused = w.seen[s]
			w.seen[s] = true
			w.mu.Unlock()
		}
		rc.o.Relay = take(w, s)
		defer func() {
			rc.o.GidExit = vio.Ints(string(append([]byte(nil), s.GetID()...)))
			if rc.beh == "panic" {
				recover() // a recovering relay (like logger.Relay): ServeHTTP goes on to reset and Put
			}
		}()
		s.I.HandlerFunc(s)
	})
	w.handler = h
	return w
}

type ctxKey struct{}

func (w *world) register(u int) (ok bool) {
	r := universe[u-1]
	defer func() {
		if recover() != nil {
			ok = false
		}
	}()
	w.mux.Handle(r.pat, r.method, w.handler)
	w.mu.Lock()
	w.regID[r.method+" "+r.pat] = u
	w.mu.Unlock()
	return true
}

// clientHeaders: what clients and proxies in front of the server send along - the same values on every request (a retry, a
// client that numbers its requests itself); nothing the Store reports may be taken from them
func clientHeaders() http.Header {
	h := http.Header{}
	for _, k := range []string{"X-Request-Id", "X-Request-ID", "Request-Id", "X-Correlation-Id", "X-Trace-Id", "X-Amzn-Trace-Id", "Traceparent", "X-Forwarded-For", "X-Real-Ip"} {
		h.Set(k, "client-chosen-1")
	}
	return h
}

func (w *world) serve(p, m, beh string) op {
	o := op{Op: "req", P: vio.Ints(p), M: m, Beh: beh, GidExit: []int{}}
	o.Relay = snap{ID: -2, V: [][]int{}, Gid: []int{}}
	o.Handler = snap{ID: -2, V: [][]int{}, Gid: []int{}}
	req := (&http.Request{Method: m, URL: &url.URL{Path: p}, Header: clientHeaders()}).WithContext(
		contextWith(&reqCtx{o: &o, beh: beh}))
	func() {
		defer func() {
			if e := recover(); e != nil {
				if beh != "escape" || fmt.Sprint(e) != "boom" {
					o.Crash = fmt.Sprint(e)
				}
			}
		}()
		w.mux.ServeHTTP(httptest.NewRecorder(), req)
	}()
	return o
}

func main() {
	out := flag.String("out", "cases.ndjson", "")
	depth := flag.Int("depth", 3, "exhaustive sequential history length")
	long := flag.Int("long", 300, "seeded long sequential histories")
	conc := flag.Int("conc", 40, "seeded concurrent histories")
	nham := flag.Int("hammer", 1500, "milliseconds per hammer phase")
	flag.Parse()
	wr := vio.Create(*out)
	defer wr.Close()
	rng := rand.New(rand.NewSource(vio.Seed()))

	type step struct {
		reg  int
		p, m string
		beh  string
	}
	var alphabet []step
	for u := range universe {
		alphabet = append(alphabet, step{reg: u + 1})
	}
	for _, p := range paths[:8] {
		for _, b := range behaviours[:3] {
			alphabet = append(alphabet, step{p: p, m: "GET", beh: b})
		}
	}
	play := func(steps []step, kind string) {
		w := newWorld()
		h := history{Kind: kind}
		for _, st := range steps {
			if st.reg > 0 {
				h.Ops = append(h.Ops, op{Op: "reg", U: st.reg, Acc: w.register(st.reg), P: []int{}, GidExit: []int{},
					Relay: snap{V: [][]int{}, Gid: []int{}}, Handler: snap{V: [][]int{}, Gid: []int{}}})
			} else {
				h.Ops = append(h.Ops, w.serve(st.p, st.m, st.beh))
			}
		}
		wr.Put(h)
	}
	// one OS thread => the goroutine keeps hitting the same P-local pool slot: maximal Store reuse
	runtime.GOMAXPROCS(1)
	var gen func(cur []step)
	gen = func(cur []step) {
		if len(cur) > 0 {
			play(cur, "seq")
		}
		if len(cur) < *depth {
			for _, s := range alphabet {
				gen(append(cur[:len(cur):len(cur)], s))
			}
		}
	}
	gen(nil)
	for i := 0; i < *long; i++ {
		n := 5 + rng.Intn(10)
		steps := make([]step, n)
		for j := range steps {
			if rng.Intn(4) == 0 {
				steps[j] = step{reg: 1 + rng.Intn(len(universe))}
			} else {
				steps[j] = step{p: paths[rng.Intn(len(paths))], m: methods[rng.Intn(len(methods))], beh: behaviours[rng.Intn(len(behaviours))]}
			}
		}
		play(steps, "long")
	}
	// the same request before and after a later registration (whatever a Mux remembers about a request it has served must
	// not outlive a change of the route table): every ordered pair of registrations x every path x both methods
	for u1 := 1; u1 <= len(universe); u1++ {
		for u2 := 1; u2 <= len(universe); u2++ {
			if u1 == u2 {
				continue
			}
			for pi, p := range paths {
				m := methods[(u1+u2+pi)%len(methods)]
				play([]step{{reg: u1}, {p: p, m: m, beh: "ok"}, {reg: u2}, {p: p, m: m, beh: "ok"}, {p: p, m: methods[(u1+u2+pi+1)%len(methods)], beh: "ok"}}, "rereq")
			}
		}
	}
	// concurrent: batches of requests from 8 goroutines, registrations between batches
	runtime.GOMAXPROCS(runtime.NumCPU())
	for i := 0; i < *conc; i++ {
		w := newWorld()
		h := history{Kind: "conc"}
		for batch := 0; batch < 4; batch++ {
			for k := 0; k < 1+rng.Intn(3); k++ {
				u := 1 + rng.Intn(len(universe))
				h.Ops = append(h.Ops, op{Op: "reg", U: u, Acc: w.register(u), P: []int{}, GidExit: []int{},
					Relay: snap{V: [][]int{}, Gid: []int{}}, Handler: snap{V: [][]int{}, Gid: []int{}}})
			}
			var wg sync.WaitGroup
			var mu sync.Mutex
			for g := 0; g < 8; g++ {
				wg.Add(1)
				seed := rng.Int63()
				go func() {
					defer wg.Done()
					r := rand.New(rand.NewSource(seed))
					for q := 0; q < 12; q++ {
						o := w.serve(paths[r.Intn(len(paths))], methods[r.Intn(len(methods))], behaviours[r.Intn(len(behaviours))])
						mu.Lock()
						h.Ops = append(h.Ops, o)
						mu.Unlock()
						if r.Intn(3) == 0 {
							runtime.Gosched()
						}
					}
				}()
			}
			wg.Wait()
		}
		wr.Put(h)
	}
	for i := 0; i < 3; i++ {
		hammer(wr, rng, time.Duration(*nham)*time.Millisecond)
	}
}

// hammer: many goroutines (4 per CPU) serve requests through one Mux with a fixed route table for a fixed time.
// Requests are few in kind, so the distinct observations (route, every parameter lookup, initial status - in the relay
// and in the handler) are few as well: each distinct one is recorded once with its count and judged by TLC like any
// other request ("hreq"); request ids are compared among all requests here (too many to hand over) and only the totals
// are recorded ("hsum").  The handlers are as light as possible so that most of the time is spent in ServeHTTP itself.
type lightObs struct {
	id int
	v  [5]string
	st int
}
type hamKey struct {
	pi, mi, bi     int
	relay, handler lightObs
}
type hamCtx struct {
	bi             int
	relay, handler lightObs
	gid1, gid2, gx string
}
type hamCtxKey struct{}

func hammer(wr *vio.Writer, rng *rand.Rand, dur time.Duration) {
	G := 4 * runtime.NumCPU()
	mux := httpd.NewMux()
	h := history{Kind: "hammer"}
	regID := map[string]int{}
	light := func(s *httpd.Store) (o lightObs) {
		switch {
		case s.I == nil:
			o.id = -1
		case s.I.Path == "" && s.I.Method == "":
			o.id = 0
		default:
			o.id = regID[s.I.Method+" "+s.I.Path]
		}
		for i, n := range names {
			if n == "/:any" {
				o.v[i] = s.RouteParamAny()
			} else {
				o.v[i] = s.RouteParam(n)
			}
		}
		o.st = s.W.Status
		return
	}
	handler := func(s *httpd.Store) {
		rc := s.R.Context().Value(hamCtxKey{}).(*hamCtx)
		rc.handler = light(s)
		rc.gid2 = string(append([]byte(nil), s.GetID()...))
		if rc.bi == 1 {
			s.W.WriteHeader(201)
		}
	}
	mux.HandleNoRoute(handler)
	mux.HandleRelay(func(s *httpd.Store) {
		rc := s.R.Context().Value(hamCtxKey{}).(*hamCtx)
		rc.relay = light(s)
		rc.gid1 = string(append([]byte(nil), s.GetID()...))
		s.I.HandlerFunc(s)
		rc.gx = string(append([]byte(nil), s.GetID()...))
	})
	for k := 0; k < 6; k++ {
		u := 1 + rng.Intn(len(universe))
		acc := func() (ok bool) {
			defer func() {
				if recover() != nil {
					ok = false
				}
			}()
			mux.Handle(universe[u-1].pat, universe[u-1].method, handler)
			return true
		}()
		if acc {
			regID[universe[u-1].method+" "+universe[u-1].pat] = u
		}
		h.Ops = append(h.Ops, op{Op: "reg", U: u, Acc: acc, P: []int{}, GidExit: []int{},
			Relay: snap{V: [][]int{}, Gid: []int{}}, Handler: snap{V: [][]int{}, Gid: []int{}}})
	}
	dicts := make([]map[hamKey]int, G)
	gids := make([][]string, G)
	changed := make([]int, G)
	crashes := make([]string, G)
	deadline := time.Now().Add(dur)
	var wg sync.WaitGroup
	for g := 0; g < G; g++ {
		wg.Add(1)
		seed := rng.Int63()
		go func(g int) {
			defer wg.Done()
			r := rand.New(rand.NewSource(seed))
			d := map[hamKey]int{}
			rw := &nopWriter{h: http.Header{}}
			for q := 0; ; q++ {
				if q&255 == 0 && time.Now().After(deadline) {
					break
				}
				pi, mi, bi := r.Intn(len(paths)), r.Intn(len(methods)), r.Intn(2)
				rc := &hamCtx{bi: bi}
				req := (&http.Request{Method: methods[mi], URL: &url.URL{Path: paths[pi]}, Header: clientHeaders()}).WithContext(
					context.WithValue(context.Background(), hamCtxKey{}, rc))
				func() {
					defer func() {
						if e := recover(); e != nil && crashes[g] == "" {
							crashes[g] = fmt.Sprint(e)
						}
					}()
					mux.ServeHTTP(rw, req)
				}()
				func() {
					// a value read from a Store that another request was writing at the same moment can be torn
					// (a string header with a length but no data): using it faults - which is an observation, too
					defer func() {
						if e := recover(); e != nil && crashes[g] == "" {
							crashes[g] = "a value read through the Store was torn: " + fmt.Sprint(e)
						}
					}()
					if rc.gid1 != rc.gid2 || rc.gid1 != rc.gx || len(rc.gid1) <= 9 {
						changed[g]++
					}
					gids[g] = append(gids[g], rc.gid1)
					d[hamKey{pi, mi, bi, rc.relay, rc.handler}]++
				}()
			}
			dicts[g] = d
		}(g)
	}
	wg.Wait()
	merged := map[hamKey]int{}
	total := 0
	for _, d := range dicts {
		for k, c := range d {
			merged[k] += c
			total += c
		}
	}
	toSnap := func(o lightObs) snap {
		sn := snap{ID: o.id, St: o.st, Gid: []int{}, V: make([][]int, len(names))}
		for i := range names {
			sn.V[i] = vio.Ints(o.v[i])
		}
		return sn
	}
	var ops []op
	for k, c := range merged {
		ops = append(ops, op{Op: "hreq", P: vio.Ints(paths[k.pi]), M: methods[k.mi], Beh: behaviours[k.bi], Relay: toSnap(k.relay), Handler: toSnap(k.handler),
			GidExit: []int{}, Cnt: c})
	}
	sort.Slice(ops, func(i, j int) bool { return ops[i].Cnt > ops[j].Cnt })
	crash := ""
	for _, c := range crashes {
		if c != "" {
			crash = c
		}
	}
	h.Ops = append(h.Ops, ops...)
	seen := make(map[string]bool, total)
	dups, ch := 0, 0
	for g := range gids {
		ch += changed[g]
		for _, id := range gids[g] {
			if seen[id] {
				dups++
			}
			seen[id] = true
		}
	}
	h.Ops = append(h.Ops, op{Op: "hsum", Dups: dups, Changed: ch, Cnt: total, Crash: crash, P: []int{}, GidExit: []int{},
		Relay: snap{V: [][]int{}, Gid: []int{}}, Handler: snap{V: [][]int{}, Gid: []int{}}})
	wr.Put(h)
}

type nopWriter struct{ h http.Header }

func (w *nopWriter) Header() http.Header         { return w.h }
func (w *nopWriter) WriteHeader(int)             {}
func (w *nopWriter) Write(b []byte) (int, error) { return len(b), nil }

func contextWith(rc *reqCtx) context.Context {
	return context.WithValue(context.Background(), ctxKey{}, rc)
}
