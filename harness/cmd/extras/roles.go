package main

import (
	"fmt"
	"os"
	"os/exec"
	"strings"
	"syscall"
	"time"

	"github.com/whoisnian/glb/daemon"
	"verif/harness/internal/vio"
)

// daemon.Run role dispatch and Launch outcomes for daemons off the protocol (DaemonRole.tla).
// Every process of this binary goes through init below, as a program using the package would.

func note(s string) {
	if p := os.Getenv("VERIF_X11_OUT"); p != "" {
		f, err := os.OpenFile(p, os.O_APPEND|os.O_WRONLY|os.O_CREATE, 0o644)
		if err == nil {
			f.WriteString(s + "\n")
			f.Close()
		}
	}
}

func init() {
	daemon.Register("x11-done", func() {
		note("handler x11-done")
		daemon.Done()
		time.Sleep(8 * time.Second)
	})
	daemon.Register("x11-exit0", func() { note("handler x11-exit0") })
	daemon.Register("x11-exit1", func() { note("handler x11-exit1"); os.Exit(1) })
	if os.Getenv("VERIF_X11_ROLEPROBE") != "" && os.Getenv("ENV_DAEMON_FLAG") == "isLauncher" {
		// role probe: the launcher would start a real daemon; record that this branch was taken by letting it run
		note("launcher-branch")
	}
	ret := daemon.Run()
	if os.Getenv("VERIF_X11_ROLEPROBE") != "" {
		note(fmt.Sprintf("run=%v", ret))
		os.Exit(0)
	}
	if ret || os.Getenv("ENV_DAEMON_NAME") != "" {
		os.Exit(0) // a child of Launch / launch never goes on into this harness' main program, whatever Run() said
	}
}

// zombie: still in the process table, only waiting to be collected by its parent
func zombie(pid int) bool {
	b, err := os.ReadFile(fmt.Sprintf("/proc/%d/stat", pid))
	if err != nil {
		return true
	}
	s := string(b)
	i := strings.LastIndexByte(s, ')')
	return i >= 0 && i+2 < len(s) && (s[i+2] == 'Z' || s[i+2] == 'X')
}

func roles(out string) {
	w := vio.Create(out)
	defer w.Close()
	self, _ := os.Executable()
	tmp, _ := os.MkdirTemp("", "x11_")
	defer os.RemoveAll(tmp)
	n := 0
	// Run(): every combination of name set / registered / flag value, in a child process
	for _, name := range []string{"", "x11-exit0", "nosuch"} {
		for _, flagv := range []string{"", "isLauncher", "isDaemon", "other"} {
			n++
			of := fmt.Sprintf("%s/run%d", tmp, n)
			cmd := exec.Command(self)
			cmd.Env = append(os.Environ(), "VERIF_X11_ROLEPROBE=1", "VERIF_X11_OUT="+of)
			if name != "" {
				cmd.Env = append(cmd.Env, "ENV_DAEMON_NAME="+name)
			}
			if flagv != "" {
				cmd.Env = append(cmd.Env, "ENV_DAEMON_FLAG="+flagv)
			}
			cmd.Run()
			time.Sleep(150 * time.Millisecond) // a launcher branch starts a daemon process which writes its own note
			b, _ := os.ReadFile(of)
			s := string(b)
			ran := "none"
			if strings.Contains(s, "handler x11-exit0") && flagv == "isDaemon" {
				ran = "handler"
			} else if strings.Contains(s, "handler x11-exit0") && flagv == "isLauncher" {
				ran = "launcher" // the launcher ran: it started the daemon, whose handler left the note
			}
			w.Put(map[string]any{"kind": "run", "nameset": name != "", "registered": name == "x11-exit0", "flag": flagv, "ret": strings.Contains(s, "run=true"), "ran": ran,
				"behaviour": "", "ok": false, "alive": false, "panicked": false})
		}
	}
	// Launch(): daemons that follow the protocol or not
	for _, b := range []string{"done", "exit0", "exit1", "unregistered"} {
		name := "x11-" + b
		os.Setenv("VERIF_X11_OUT", tmp+"/launch-"+b)
		pid, err := daemon.Launch(name)
		time.Sleep(200 * time.Millisecond)
		alive := err == nil && pid > 1 && syscall.Kill(pid, 0) == nil && !zombie(pid)
		w.Put(map[string]any{"kind": "launch", "nameset": false, "registered": false, "flag": "", "ret": false, "ran": "", "behaviour": b, "ok": err == nil, "alive": alive, "panicked": false})
		if alive {
			syscall.Kill(pid, syscall.SIGKILL)
		}
	}
	os.Unsetenv("VERIF_X11_OUT")
	// Register twice
	panicked := false
	func() {
		defer func() { panicked = recover() != nil }()
		daemon.Register("x11-done", func() {})
	}()
	w.Put(map[string]any{"kind": "register", "nameset": false, "registered": false, "flag": "", "ret": false, "ran": "", "behaviour": "", "ok": false, "alive": false, "panicked": panicked})
}
