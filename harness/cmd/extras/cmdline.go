package main

import (
	"bytes"
	"encoding/json"
	"fmt"
	"io"
	"math/rand"
	"os"
	"os/exec"
	"runtime"
	"strings"
	"sync"

	"github.com/whoisnian/glb/config"
	"github.com/whoisnian/glb/util/ioutil"
	"verif/harness/internal/vio"
)

// config.FromCommandLine observed in child processes (CmdLine.tla, judged with the grammar of ArgParse.tla), and
// ioutil.SeekAndReadAll over histories of one open file (SeekRead.tla).

type x13Cfg struct {
	B bool   `flag:"b,false,a boolean flag"`
	T bool   `flag:"t,true,a boolean flag that is on by default"`
	S string `flag:"s,d,a string flag"`
	I int    `flag:"i,3,an int flag"`
}

// cmdChild is the observed program: os.Args[1:] is the vector under test
func cmdChild() {
	var c x13Cfg
	args, err := config.FromCommandLine(&c)
	if err != nil {
		os.Stdout.WriteString("ERR\n")
		os.Exit(3)
	}
	if args == nil {
		args = []string{}
	}
	i := c.I
	if i > 1<<30 || i < -(1<<30) {
		i = 1 << 30
	}
	b, _ := json.Marshal(map[string]any{"args": args, "b": c.B, "t": c.T, "s": c.S, "i": i})
	os.Stdout.Write(append(b, '\n'))
	os.Exit(0)
}

func cmdline(out string, maxlen int) {
	w := vio.Create(out)
	defer w.Close()
	self, _ := os.Executable()
	dir, _ := os.MkdirTemp("", "x13_")
	defer os.RemoveAll(dir)
	os.WriteFile(dir+"/cfg.json", []byte("{}"), 0o644)
	toks := []string{"-b", "-b=false", "-b=x", "-t", "-t=false", "-s", "-s=v", "--s=a=b", "-i=7", "-i=010", "-i=x", "-i", "-u", "--", "-", "v", "true", "0",
		"-help", "--help=false", "-help=true", "-help=x", "-config=cfg.json", "-config=nosuch.json", "-config=", "", "-=v", "-HELP"}
	var vecs [][]string
	var gen func(v []string)
	gen = func(v []string) {
		vecs = append(vecs, append([]string{}, v...))
		if len(v) < maxlen {
			for _, t := range toks {
				gen(append(v[:len(v):len(v)], t))
			}
		}
	}
	gen(nil)
	type rec struct {
		V         [][]int `json:"v"`
		Kind      string  `json:"kind"`
		Exit      int     `json:"exit"`
		Usage     bool    `json:"usage"`
		Continued bool    `json:"continued"`
		Rest      [][]int `json:"rest"`
		B         bool    `json:"b"`
		T         bool    `json:"t"`
		S         []int   `json:"s"`
		I         int     `json:"i"`
	}
	recs := make([]rec, len(vecs))
	sem := make(chan struct{}, 2*runtime.NumCPU())
	var wg sync.WaitGroup
	for k, v := range vecs {
		wg.Add(1)
		sem <- struct{}{}
		go func(k int, v []string) {
			defer wg.Done()
			defer func() { <-sem }()
			r := rec{V: make([][]int, len(v)), Rest: [][]int{}, S: []int{}}
			for j, a := range v {
				r.V[j] = vio.Ints(a)
			}
			cmd := exec.Command(self, v...)
			cmd.Dir = dir
			cmd.Env = []string{"VERIF_X13_CHILD=1", "PATH=" + os.Getenv("PATH"), "HOME=" + dir}
			var so, se bytes.Buffer
			cmd.Stdout, cmd.Stderr = &so, &se
			err := cmd.Run()
			r.Exit = 0
			if ee, ok := err.(*exec.ExitError); ok {
				r.Exit = ee.ExitCode()
			} else if err != nil {
				r.Exit = -1
			}
			// the usage text: one line per flag, each beginning with "  -<name>"
			r.Usage = strings.Contains(se.String(), "  -help") && strings.Contains(se.String(), "  -config") && strings.Contains(se.String(), "  -b ")
			var o struct {
				Args []string `json:"args"`
				B    bool     `json:"b"`
				T    bool     `json:"t"`
				S    string   `json:"s"`
				I    int      `json:"i"`
			}
			switch {
			case strings.HasPrefix(so.String(), "ERR"):
				r.Kind = "error"
			case json.Unmarshal(so.Bytes(), &o) == nil && so.Len() > 0:
				r.Kind, r.Continued = "args", true
				for _, a := range o.Args {
					r.Rest = append(r.Rest, vio.Ints(a))
				}
				r.B, r.T, r.S, r.I = o.B, o.T, vio.Ints(o.S), o.I
			default:
				r.Kind = "usage"
			}
			recs[k] = r
		}(k, v)
	}
	wg.Wait()
	for _, r := range recs {
		w.Put(r)
	}
	fmt.Fprintf(os.Stderr, "x13: %d child runs\n", len(recs))
}

// seekread: seeded histories over one file held open by the function's caller while another handle changes it
func seekread(out string, rng *rand.Rand) {
	w := vio.Create(out)
	defer w.Close()
	dir, _ := os.MkdirTemp("", "x13f_")
	defer os.RemoveAll(dir)
	for h := 0; h < 300; h++ {
		path := fmt.Sprintf("%s/f%d", dir, h)
		os.WriteFile(path, nil, 0o644)
		fi, err := os.Open(path)
		if err != nil {
			vio.Fatal("%v", err)
		}
		var ops []map[string]any
		rnd := func(n int) []byte {
			b := make([]byte, n)
			for i := range b {
				b[i] = byte('a' + rng.Intn(26))
			}
			return b
		}
		for k := 0; k < 3+rng.Intn(10); k++ {
			op := map[string]any{"op": "", "bytes": []int{}, "k": 0, "got": []int{}, "err": false, "posafter": 0}
			switch rng.Intn(6) {
			case 0:
				b := rnd(rng.Intn(40))
				f, _ := os.OpenFile(path, os.O_WRONLY|os.O_APPEND, 0)
				f.Write(b)
				f.Close()
				op["op"], op["bytes"] = "append", vio.Ints(string(b))
			case 1:
				b := rnd(rng.Intn(30))
				os.WriteFile(path, b, 0o644) // truncates and rewrites: the file may now be shorter than the handle's offset
				op["op"], op["bytes"] = "rewrite", vio.Ints(string(b))
			case 2:
				n := rng.Intn(25)
				io.ReadFull(fi, make([]byte, n))
				op["op"], op["k"] = "read", n
			case 3:
				p := rng.Intn(60)
				fi.Seek(int64(p), io.SeekStart)
				pos, _ := fi.Seek(0, io.SeekCurrent)
				op["op"], op["k"], op["posafter"] = "seek", p, int(pos)
			default:
				got, err := ioutil.SeekAndReadAll(fi)
				pos, _ := fi.Seek(0, io.SeekCurrent)
				op["op"], op["got"], op["err"], op["posafter"] = "reload", vio.Ints(string(got)), err != nil, int(pos)
			}
			ops = append(ops, op)
		}
		fi.Close()
		w.Put(map[string]any{"ops": ops})
	}
}
