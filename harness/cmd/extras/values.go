package main

import (
	"bytes"
	"math/rand"
	"os"
	"reflect"
	"strconv"
	"time"

	"github.com/whoisnian/glb/config"
	"verif/harness/internal/vio"
)

// Config value layer and usage text (ValueLit.tla).

var litTypes = map[string]reflect.Type{
	"bool": reflect.TypeOf(false), "int": reflect.TypeOf(int(0)), "int64": reflect.TypeOf(int64(0)),
	"uint": reflect.TypeOf(uint(0)), "uint64": reflect.TypeOf(uint64(0)),
	"string": reflect.TypeOf(""), "float64": reflect.TypeOf(float64(0)), "duration": reflect.TypeOf(time.Duration(0)), "bytes": reflect.TypeOf([]byte(nil)),
}

func mkStruct(fields []reflect.StructField) reflect.Value {
	return reflect.New(reflect.StructOf(fields))
}

func fieldInt(v reflect.Value) int64 {
	switch v.Kind() {
	case reflect.Bool:
		if v.Bool() {
			return 1
		}
		return 0
	case reflect.Uint, reflect.Uint64:
		return int64(v.Uint())
	default:
		return v.Int()
	}
}

// one text through the three routes; returns ok/value per route
func litRoutes(ty string, s string) (okA bool, vA int64, okE bool, vE int64, okD bool, vD int64) {
	plain := reflect.StructField{Name: "V", Type: litTypes[ty], Tag: reflect.StructTag(`flag:` + strconv.Quote("|v||u"))}
	// command line
	p := mkStruct([]reflect.StructField{plain})
	os.Unsetenv("CFG_V")
	fs, err := config.NewFlagSet(p.Interface())
	if err != nil {
		vio.Fatal("NewFlagSet: %v", err)
	}
	okA = fs.Parse([]string{"-v=" + s}) == nil
	vA = fieldInt(p.Elem().Field(0))
	// environment
	p = mkStruct([]reflect.StructField{plain})
	os.Setenv("CFG_V", s)
	fs, err = config.NewFlagSet(p.Interface())
	if err != nil {
		vio.Fatal("NewFlagSet: %v", err)
	}
	okE = fs.Parse(nil) == nil
	vE = fieldInt(p.Elem().Field(0))
	os.Unsetenv("CFG_V")
	// default in the tag
	withDef := reflect.StructField{Name: "V", Type: litTypes[ty], Tag: reflect.StructTag(`flag:` + strconv.Quote("|v|"+s+"|u"))}
	p = mkStruct([]reflect.StructField{withDef})
	fs, err = config.NewFlagSet(p.Interface())
	okD = err == nil
	if okD {
		okD = fs.Parse(nil) == nil
	}
	vD = fieldInt(p.Elem().Field(0))
	return
}

func values(out string, maxlen int, rng *rand.Rand) {
	w := vio.Create(out)
	defer w.Close()
	os.Unsetenv("CFG_CONFIG_B64")
	os.Unsetenv("CFG_CONFIG")
	os.Unsetenv("CFG_HELP")
	one := func(ty, s string) {
		okA, vA, okE, vE, okD, vD := litRoutes(ty, s)
		w.Put(map[string]any{"kind": "lit", "ty": ty, "s": vio.Ints(s), "argok": okA, "argv": vA, "envok": okE, "envv": vE, "defok": okD, "defv": vD})
	}
	alpha := []byte("+-0179afxXbo_")
	var gen func(p []byte)
	gen = func(p []byte) {
		for _, ty := range []string{"int", "uint"} {
			one(ty, string(p))
		}
		if len(p) < maxlen {
			for _, c := range alpha {
				gen(append(p[:len(p):len(p)], c))
			}
		}
	}
	gen(nil)
	for _, s := range []string{"0b101", "0B11", "0o17", "0O7", "017", "0_17", "1_000", "1__0", "_1", "1_", "0x_ff", "0xf_f", "0x", "0b", "0o", "0b2", "0o8", "08", "09", "00", "-0", "+0",
		"-0x1F", "+0b1", "0XaB", "12345", "-99999", "1e3", " 1", "1 ", "0x1g", "٣"} {
		for _, ty := range []string{"int", "int64", "uint", "uint64"} {
			one(ty, s)
		}
	}
	for i := 0; i < 4000; i++ {
		n := 1 + rng.Intn(6)
		b := make([]byte, n)
		for j := range b {
			b[j] = "+-0123456789abcdefxXbBoO_"[rng.Intn(25)]
		}
		one([]string{"int", "int64", "uint", "uint64"}[i%4], string(b))
	}
	for _, s := range []string{"", "1", "t", "T", "TRUE", "true", "True", "0", "f", "F", "FALSE", "false", "False", "tRUE", "yes", "no", "on", "2", "-1", "truee", " true", "TrUe", "fALSE", "y", "n"} {
		one("bool", s)
	}

	// usage text
	names := []string{"a", "port", "listen-addr", "x", "a-very-long-flag-name-that-goes-on-and-on-for-more-than-sixty-four-characters", "日本"}
	usages := []string{"", "plain usage", "two\nlines", "a\nb\nc", "trailing\n"}
	type fdef struct {
		ty, def string
	}
	defs := []fdef{{"bool", ""}, {"bool", "false"}, {"bool", "true"}, {"bool", "0"}, {"int", ""}, {"int", "0"}, {"int", "00"}, {"int", "42"}, {"int", "0x10"}, {"int64", "-7"}, {"uint", "0"}, {"uint", "9"},
		{"uint64", "18"}, {"string", ""}, {"string", "text"}, {"string", "with \"quotes\" and \\"}, {"string", "0"}, {"float64", ""}, {"float64", "0"}, {"float64", "0.0"}, {"float64", "1.5"},
		{"duration", ""}, {"duration", "0s"}, {"duration", "0ms"}, {"duration", "90s"}, {"bytes", ""}, {"bytes", "aGVsbG8="}}
	for n := 0; n < 400; n++ {
		k := 1 + rng.Intn(4)
		var fields []reflect.StructField
		var flags []map[string]any
		flags = append(flags, map[string]any{"name": vio.Ints("help"), "ty": vio.Ints("bool"), "tyname": "bool", "usage": vio.Ints("Show usage message and quit"), "env": []int{}, "def": vio.Ints("false"), "defraw": vio.Ints("false")},
			map[string]any{"name": vio.Ints("config"), "ty": vio.Ints("string"), "tyname": "string", "usage": vio.Ints("Specify file path of custom configuration json"), "env": []int{}, "def": vio.Ints(`""`), "defraw": []int{}})
		used := map[string]bool{}
		for j := 0; j < k; j++ {
			name := names[rng.Intn(len(names))]
			if used[name] {
				continue
			}
			used[name] = true
			d := defs[rng.Intn(len(defs))]
			u := usages[rng.Intn(len(usages))]
			fname := "F" + string(rune('a'+j)) + "Name"
			fields = append(fields, reflect.StructField{Name: fname, Type: litTypes[d.ty], Tag: reflect.StructTag(`flag:` + strconv.Quote("|"+name+"|"+d.def+"|"+u))})
			flags = append(flags, map[string]any{"name": name, "ty": d.ty, "def": d.def, "usage": u, "field": fname})
		}
		p := mkStruct(fields)
		fs, err := config.NewFlagSet(p.Interface())
		if err != nil {
			vio.Fatal("NewFlagSet(usage): %v", err)
		}
		// the texts the usage must show: the canonical text of the default (Flag.DefValue is documented "default value (as text); for usage message")
		for j := 2; j < len(flags); j++ {
			f := flags[j]
			fl := fs.Lookup(f["name"].(string))
			shown := fl.DefValue
			if f["ty"].(string) == "string" {
				shown = strconv.Quote(shown)
			}
			flags[j] = map[string]any{"name": vio.Ints(f["name"].(string)), "ty": vio.Ints(f["ty"].(string)), "tyname": f["ty"], "usage": vio.Ints(f["usage"].(string)),
				"env": vio.Ints(fl.Env), "def": vio.Ints(shown), "defraw": vio.Ints(fl.DefValue)}
		}
		cw := &countW{}
		fs.PrintUsage(cw, false)
		w.Put(map[string]any{"kind": "usage", "flags": flags, "out": vio.Ints(cw.String()), "writes": cw.n})
		_ = bytes.MinRead
	}
}
