// Command extras records real results for the behaviour specified beyond the listed properties:
// string helpers (Camelize, Underscore, IsDigitString, SplitHostPort, ExpandHomeDir), Store.GetClientIP,
// FirstIP / LastIP, and the Nano handler's line format.  TLC judges each family with its module.
package main

import (
	"bufio"
	"bytes"
	"encoding/json"
	"flag"
	"log/slog"
	"math/rand"
	"net"
	"net/http"
	"net/http/httptest"
	"os"
	"strings"
	"time"

	"github.com/whoisnian/glb/httpd"
	"github.com/whoisnian/glb/logger"
	"github.com/whoisnian/glb/util/fsutil"
	"github.com/whoisnian/glb/util/netutil"
	"github.com/whoisnian/glb/util/strutil"
	"verif/harness/internal/vio"
)

func strs(out string, maxlen int, rng *rand.Rand) {
	w := vio.Create(out)
	defer w.Close()
	alpha := []byte{'a', 'b', 'A', 'B', '0', '_', '-', ':', '[', ']', '~', '/', '.'}
	home := "/home/verif"
	os.Setenv("HOME", home)
	put := func(f string, s string, up bool, r, r2 string) {
		w.Put(map[string]any{"f": f, "s": vio.Ints(s), "up": up, "home": vio.Ints(home), "r": vio.Ints(r), "r2": vio.Ints(r2)})
	}
	one := func(s string) {
		for _, up := range []bool{false, true} {
			put("camelize", s, up, strutil.Camelize(s, up), "")
			put("underscore", s, up, strutil.Underscore(s, up), "")
		}
		d := "0"
		if strutil.IsDigitString(s) {
			d = "1"
		}
		put("isdigit", s, false, d, "")
		func() {
			defer func() {
				if recover() != nil {
					put("splithostport", s, false, "<panic>", "<panic>")
				}
			}()
			h, p := netutil.SplitHostPort(s)
			put("splithostport", s, false, h, p)
		}()
		if e, err := fsutil.ExpandHomeDir(s); err == nil {
			put("expandhome", s, false, e, "")
		}
	}
	var gen func(p []byte)
	gen = func(p []byte) {
		one(string(p))
		if len(p) < maxlen {
			for _, c := range alpha {
				gen(append(p[:len(p):len(p)], c))
			}
		}
	}
	gen(nil)
	for _, s := range []string{"HTTPServer", "ListenAddr", "userID", "X9Y", "already_snake_case", "__a__b__", "[::1]:80", "[fe80::1%eth0]:443", "1.2.3.4:5", "host", ":80",
		"a:b:c", "[]:1", "~", "~/a/../b", "~user/x", "~\\win", "a/./b//c", "JSONToXMLv2Parser", "é:1"} {
		one(s)
	}
	for i := 0; i < 3000; i++ {
		n := rng.Intn(12)
		b := make([]byte, n)
		for j := range b {
			b[j] = "abzABZ019_-.: /[]~\\"[rng.Intn(19)]
		}
		one(string(b))
	}
}

func clientip(out string) {
	w := vio.Create(out)
	defer w.Close()
	vals := map[string][]string{
		"xc":  {"", "9.9.9.9"},
		"xff": {"", "1.1.1.1", "2.2.2.2, 3.3.3.3", ",4.4.4.4", "5.5.5.5,"},
		"xr":  {"", "7.7.7.7"},
	}
	for _, xc := range vals["xc"] {
		for _, xff := range vals["xff"] {
			for _, xr := range vals["xr"] {
				for _, ra := range []string{"10.0.0.1:1234", "[2001:db8::1]:80", "nohostport"} {
					r := &http.Request{Header: http.Header{}, RemoteAddr: ra}
					if xc != "" {
						r.Header.Set("X-Client-IP", xc)
					}
					if xff != "" {
						r.Header.Set("X-Forwarded-For", xff)
					}
					if xr != "" {
						r.Header.Set("X-Real-IP", xr)
					}
					host, _ := netutil.SplitHostPort(ra) // SplitHostPort itself is judged by StrUtil
					s := &httpd.Store{R: r}
					w.Put(map[string]any{"xc": vio.Ints(xc), "xff": vio.Ints(xff), "xr": vio.Ints(xr), "host": vio.Ints(host), "r": vio.Ints(s.GetClientIP())})
				}
			}
		}
	}
}

func bits(ip net.IP) []int {
	ip = ip.To4()
	b := make([]int, 32)
	for i := 0; i < 32; i++ {
		b[i] = int(ip[i/8]>>(7-i%8)) & 1
	}
	return b
}

func iprange(out string, rng *rand.Rand) {
	w := vio.Create(out)
	defer w.Close()
	for l := 0; l <= 32; l++ {
		for k := 0; k < 12; k++ {
			ip := make(net.IP, 4)
			rng.Read(ip)
			c := &net.IPNet{IP: ip, Mask: net.CIDRMask(l, 32)}
			w.Put(map[string]any{"ip": bits(ip), "len": l, "first": bits(netutil.FirstIP(c)), "last": bits(netutil.LastIP(c))})
		}
	}
}

type node struct {
	T  string `json:"t"`
	K  string `json:"k"`
	X  string `json:"x"`
	C  []node `json:"c"`
	XB []int  `json:"xb"`
}
type item struct {
	Op   string `json:"op"`
	F    []node `json:"f"`
	Name string `json:"name"`
}
type scenario struct {
	Chain []item `json:"chain"`
	Site  []node `json:"site"`
}
type lazy struct{ v slog.Value }

func (l lazy) LogValue() slog.Value { return l.v }
func toAttr(n node, rng *rand.Rand, top bool) slog.Attr {
	if n.T == "leaf" {
		return slog.String(n.K, n.X)
	}
	var kids []slog.Attr
	for _, c := range n.C {
		kids = append(kids, toAttr(c, rng, false))
	}
	if len(n.C) == 0 && !(top && rng.Intn(2) == 0) {
		return slog.Attr{Key: n.K, Value: slog.AnyValue(lazy{slog.GroupValue()})}
	}
	return slog.Attr{Key: n.K, Value: slog.GroupValue(kids...)}
}
func fill(ns []node) {
	for i := range ns {
		ns[i].XB = vio.Ints(ns[i].X)
		if ns[i].C == nil {
			ns[i].C = []node{}
		}
		fill(ns[i].C)
	}
}

type capture struct{ writes [][]byte }

func (c *capture) Write(p []byte) (int, error) {
	c.writes = append(c.writes, append([]byte(nil), p...))
	return len(p), nil
}

func nano(in, out string, rng *rand.Rand) {
	f, err := os.Open(in)
	if err != nil {
		vio.Fatal("%v", err)
	}
	w := vio.Create(out)
	defer w.Close()
	sc := bufio.NewScanner(f)
	sc.Buffer(make([]byte, 1<<20), 1<<24)
	n := 0
	for sc.Scan() {
		var s scenario
		if json.Unmarshal(sc.Bytes(), &s) != nil {
			vio.Fatal("bad scenario")
		}
		n++
		fill(s.Site)
		for i := range s.Chain {
			if s.Chain[i].F == nil {
				s.Chain[i].F = []node{}
			}
			fill(s.Chain[i].F)
		}
		c := &capture{}
		l := logger.New(logger.NewNanoHandler(c, logger.NewOptions(logger.LevelInfo, false, false)))
		for _, it := range s.Chain {
			parent := l
			if it.Op == "group" {
				l = l.WithGroup(it.Name)
			} else {
				var args []any
				for _, nd := range it.F {
					args = append(args, toAttr(nd, rng, true))
				}
				l = l.With(args...)
			}
			_ = parent.With("decoy", strings.Repeat("#", 1+rng.Intn(40)))
		}
		var args []any
		for _, nd := range s.Site {
			args = append(args, toAttr(nd, rng, false))
		}
		msg := []string{"m", "", "two words"}[n%3]
		l.Info(msg, args...)
		one := len(c.writes) == 1
		var tail []int
		head := false
		if one {
			line := c.writes[0]
			if len(line) >= 23 {
				if _, err := time.Parse("2006-01-02 15:04:05", string(line[:19])); err == nil && bytes.HasPrefix(line[19:], []byte(" [I]")) {
					head = true
					tail = vio.Ints(string(line[23:]))
				}
			}
		}
		if tail == nil {
			tail = []int{}
		}
		w.Put(map[string]any{"chain": s.Chain, "site": s.Site, "msg": vio.Ints(msg), "tail": tail, "onewrite": one, "head": head})
	}
}

type call struct {
	H    string `json:"h"`
	Code int    `json:"code"`
}

func helpers(out string) {
	w := vio.Create(out)
	defer w.Close()
	alphabet := []call{{"WriteHeader", 201}, {"WriteHeader", 404}, {"Write", 0}, {"Flush", 0}, {"Respond200", 0}, {"Respond200Body", 0},
		{"RespondJson", 0}, {"Redirect", 302}, {"Error404", 0}, {"Error500", 0}}
	var gen func(cur []call)
	gen = func(cur []call) {
		rr := httptest.NewRecorder()
		req := httptest.NewRequest("GET", "/x", nil)
		s := &httpd.Store{W: &httpd.ResponseWriter{Origin: rr}, R: req}
		for _, c := range cur {
			switch c.H {
			case "WriteHeader":
				s.W.WriteHeader(c.Code)
			case "Write":
				s.W.Write([]byte("b"))
			case "Flush":
				s.W.Flush()
			case "Respond200":
				s.Respond200(nil)
			case "Respond200Body":
				s.Respond200([]byte("body"))
			case "RespondJson":
				s.RespondJson(map[string]int{"a": 1})
			case "Redirect":
				s.Redirect("/elsewhere", c.Code)
			case "Error404":
				s.Error404("nope")
			case "Error500":
				s.Error500("oops")
			}
		}
		calls := append([]call{}, cur...)
		w.Put(map[string]any{"calls": calls, "status": s.W.Status, "wire": rr.Code})
		if len(cur) < 3 {
			for _, c := range alphabet {
				gen(append(cur[:len(cur):len(cur)], c))
			}
		}
	}
	gen(nil)
}

func main() {
	if os.Getenv("VERIF_X13_CHILD") != "" {
		cmdChild() // os.Args[1:] is the vector under test, nothing of it is for this harness
	}
	mode := flag.String("mode", "strs", "")
	in := flag.String("in", "scen.ndjson", "")
	out := flag.String("out", "cases.ndjson", "")
	maxlen := flag.Int("maxlen", 3, "")
	fm := flag.String("m", "Fatal", "")
	fmin := flag.Int("min", 0, "")
	fshape := flag.String("shape", "", "")
	flag.Parse()
	rng := rand.New(rand.NewSource(vio.Seed()))
	switch *mode {
	case "strs":
		strs(*out, *maxlen, rng)
	case "clientip":
		clientip(*out)
	case "iprange":
		iprange(*out, rng)
	case "nano":
		nano(*in, *out, rng)
	case "helpers":
		helpers(*out)
	case "values":
		values(*out, *maxlen, rng)
	case "misc":
		misc(*out, rng)
	case "colour":
		colour(*out, rng)
	case "dispatch":
		dispatch(*out)
	case "tags":
		tags(*out, *maxlen)
	case "roles":
		roles(*out)
	case "front":
		front(*out)
	case "cmdline":
		cmdline(*out, *maxlen)
	case "seekread":
		seekread(*out, rng)
	case "waitfor":
		waitfor(*out, *maxlen)
	case "waitchild":
		waitChild(*fm, *fshape)
	case "fatalchild":
		fatalChild(*fm, *fmin, *fshape)
	}
}
