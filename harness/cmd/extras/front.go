package main

import (
	"bytes"
	"context"
	"encoding/json"
	"fmt"
	"log/slog"
	"os"
	"os/exec"
	"strconv"
	"strings"

	"github.com/whoisnian/glb/logger"
	"verif/harness/internal/vio"
)

// Logger front end (LogFront.tla): level gate, labels, argument pairing, formatted variants, Panic, Fatal.

type farg struct {
	T string `json:"t"`
	K string `json:"k"`
	X string `json:"x"`
}

type fattr struct {
	K  string `json:"k"`
	V  string `json:"v"`
	Vt string `json:"vt"`
}

type countW struct {
	bytes.Buffer
	n int
}

func (c *countW) Write(p []byte) (int, error) { c.n++; return c.Buffer.Write(p) }

func mkArgs(shape string, base int) []farg {
	out := []farg{}
	for i, ch := range shape {
		n := strconv.Itoa(base + i)
		switch ch {
		case 's':
			out = append(out, farg{"s", "", "k" + n})
		case 'a':
			out = append(out, farg{"a", "a" + n, "v" + n})
		default:
			out = append(out, farg{"o", "", strconv.Itoa(100 + base + i)})
		}
	}
	return out
}

func realArgs(a []farg) []any {
	out := []any{}
	for _, x := range a {
		switch x.T {
		case "s":
			out = append(out, x.X)
		case "a":
			out = append(out, slog.String(x.K, x.X))
		default:
			n, _ := strconv.Atoi(x.X)
			out = append(out, n)
		}
	}
	return out
}

// parseTop reads one JSON line and returns level, msg and the ordered top-level members after msg.
func parseTop(line []byte) (level, msg string, attrs []fattr, ok bool) {
	attrs = []fattr{}
	dec := json.NewDecoder(bytes.NewReader(line))
	dec.UseNumber()
	if t, err := dec.Token(); err != nil || t != json.Delim('{') {
		return
	}
	idx := 0
	for dec.More() {
		kt, err := dec.Token()
		if err != nil {
			return
		}
		key, _ := kt.(string)
		var raw json.RawMessage
		if err := dec.Decode(&raw); err != nil {
			return
		}
		v, vt := "", "x"
		var s string
		var num json.Number
		if json.Unmarshal(raw, &s) == nil && len(raw) > 0 && raw[0] == '"' {
			v, vt = s, "s"
		} else if d := json.NewDecoder(bytes.NewReader(raw)); true {
			d.UseNumber()
			if d.Decode(&num) == nil && len(raw) > 0 && raw[0] != '"' && raw[0] != '{' && raw[0] != '[' {
				v, vt = num.String(), "n"
			}
		}
		switch {
		case idx == 0 && key == "time":
		case idx == 1 && key == "level":
			level = v
		case idx == 2 && key == "msg":
			msg = v
		default:
			attrs = append(attrs, fattr{key, v, vt})
		}
		idx++
	}
	ok = idx >= 3
	return
}

func shapes(alpha string, maxlen int) []string {
	out := []string{""}
	for lo := 0; lo < len(out); lo++ {
		if len(out[lo]) < maxlen {
			for _, c := range alpha {
				out = append(out, out[lo]+string(c))
			}
		}
	}
	return out
}

var frontLevels = []slog.Level{logger.LevelDebug, logger.LevelInfo, logger.LevelWarn, logger.LevelError, logger.LevelFatal}

func frontCall(l *logger.Logger, m string, lvl slog.Level, msg string, args []farg) (panicked bool, pmsg string) {
	defer func() {
		if r := recover(); r != nil {
			panicked, pmsg = true, fmt.Sprint(r)
		}
	}()
	ra := realArgs(args)
	format := "m" + strings.Repeat("%v|", len(args))
	ctx := context.Background()
	switch m {
	case "Debug":
		l.Debug(msg, ra...)
	case "Info":
		l.Info(msg, ra...)
	case "Warn":
		l.Warn(msg, ra...)
	case "Error":
		l.Error(msg, ra...)
	case "Panic":
		l.Panic(msg, ra...)
	case "Fatal":
		l.Fatal(msg, ra...)
	case "Log":
		l.Log(ctx, lvl, msg, ra...)
	case "LogAttrs":
		at := []slog.Attr{}
		for _, a := range args {
			at = append(at, slog.String(a.K, a.X))
		}
		l.LogAttrs(ctx, lvl, msg, at...)
	case "Debugf":
		l.Debugf(format, ra...)
	case "Infof":
		l.Infof(format, ra...)
	case "Warnf":
		l.Warnf(format, ra...)
	case "Errorf":
		l.Errorf(format, ra...)
	case "Panicf":
		l.Panicf(format, ra...)
	case "Fatalf":
		l.Fatalf(format, ra...)
	case "Logf":
		l.Logf(ctx, lvl, format, ra...)
	}
	return
}

func isF(m string) bool { return strings.HasSuffix(m, "f") }

func wantMsg(m string, args []farg) string {
	if !isF(m) {
		return "msg"
	}
	s := "m"
	for _, a := range args {
		s += a.X + "|"
	}
	return s
}

func front(out string) {
	w := vio.Create(out)
	defer w.Close()
	withs := []string{"", "so", "a", "s", "oss"}
	type meth struct {
		m     string
		alpha string
		max   int
		lv    bool
	}
	meths := []meth{{"Debug", "sao", 4, false}, {"Info", "sao", 4, false}, {"Warn", "sao", 3, false}, {"Error", "sao", 3, false}, {"Panic", "sao", 3, false},
		{"Log", "sao", 3, true}, {"LogAttrs", "a", 3, true},
		{"Debugf", "so", 2, false}, {"Infof", "so", 3, false}, {"Warnf", "so", 2, false}, {"Errorf", "so", 2, false}, {"Panicf", "so", 2, false}, {"Logf", "so", 2, true}}
	for _, me := range meths {
		lvls := []slog.Level{0}
		if me.lv {
			lvls = frontLevels
		}
		for _, sh := range shapes(me.alpha, me.max) {
			for _, lvl := range lvls {
				for _, min := range frontLevels {
					for wi, ws := range withs {
						if wi > 0 && len(sh) > 2 {
							continue
						}
						wa := mkArgs(ws, 50)
						args := mkArgs(sh, 0)
						jw, nw := &countW{}, &countW{}
						jl := logger.New(logger.NewJsonHandler(jw, logger.NewOptions(min, false, false))).With(realArgs(wa)...)
						nl := logger.New(logger.NewNanoHandler(nw, logger.NewOptions(min, false, false))).With(realArgs(wa)...)
						p1, pm1 := frontCall(jl, me.m, lvl, "msg", args)
						p2, pm2 := frontCall(nl, me.m, lvl, "msg", args)
						lab, msg, attrs, ok := parseTop(jw.Bytes())
						if !ok {
							attrs = []fattr{}
						}
						nlabel := ""
						if nb := nw.Bytes(); len(nb) >= 23 {
							nlabel = string(nb[20:23])
						}
						writes := jw.n
						if nw.n != jw.n {
							writes = -1
						}
						w.Put(map[string]any{"m": me.m, "l": int(lvl), "min": int(min), "with": wa, "args": args, "writes": writes, "jlabel": lab, "nlabel": nlabel,
							"attrs": attrs, "msg": msg, "wantmsg": wantMsg(me.m, args), "panicked": p1 && p2, "pmsg": map[bool]string{true: pm1, false: pm1 + "/" + pm2}[pm1 == pm2], "exit": -1})
					}
				}
			}
		}
	}
	// Fatal / Fatalf end the process: run them in a child
	self, err := os.Executable()
	if err != nil {
		vio.Fatal("executable: %v", err)
	}
	for _, m := range []string{"Fatal", "Fatalf"} {
		for _, min := range frontLevels {
			for _, sh := range []string{"", "so", "s"} {
				cmd := exec.Command(self, "-mode", "fatalchild", "-m", m, "-min", strconv.Itoa(int(min)), "-shape", sh)
				var so bytes.Buffer
				cmd.Stdout = &so
				err := cmd.Run()
				code := 0
				if ee, ok := err.(*exec.ExitError); ok {
					code = ee.ExitCode()
				} else if err != nil {
					vio.Fatal("child: %v", err)
				}
				lines := bytes.Count(so.Bytes(), []byte("\n"))
				first := so.Bytes()
				if i := bytes.IndexByte(first, '\n'); i >= 0 {
					first = first[:i+1]
				}
				lab, msg, attrs, ok := parseTop(first)
				if !ok {
					attrs = []fattr{}
				}
				args := mkArgs(sh, 0)
				w.Put(map[string]any{"m": m, "l": 0, "min": int(min), "with": []farg{}, "args": args, "writes": lines, "jlabel": lab, "nlabel": "[F]",
					"attrs": attrs, "msg": msg, "wantmsg": wantMsg(m, args), "panicked": false, "pmsg": "", "exit": code})
			}
		}
	}
}

func fatalChild(m string, min int, shape string) {
	l := logger.New(logger.NewJsonHandler(os.Stdout, logger.NewOptions(slog.Level(min), false, false)))
	frontCall(l, m, 0, "msg", mkArgs(shape, 0))
	fmt.Println("SURVIVED")
	os.Exit(0)
}
