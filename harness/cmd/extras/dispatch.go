package main

// Extras X16: the dispatch protocol of httpd.Mux (spec/httpd/Dispatch.tla) - HandleRelay / HandleNoRoute installed at any
// time, requests that match a route or not, who gets invoked and with which RouteInfo; Store.CookieValue.

import (
	"net/http"
	"net/http/httptest"

	"github.com/whoisnian/glb/httpd"
	"verif/harness/internal/vio"
)

type dOp struct {
	Op      string `json:"op"`
	K       int    `json:"k"`
	M       bool   `json:"m"`
	Seen    []dWho `json:"seen"`
	Wire    int    `json:"wire"`
	IPath   []int  `json:"ipath"`
	IMethod []int  `json:"imethod"`
	RPath   []int  `json:"rpath"`
	RMethod []int  `json:"rmethod"`
}
type dWho struct {
	Who string `json:"who"`
	K   int    `json:"k"`
}

func dispatch(out string) {
	w := vio.Create(out)
	defer w.Close()
	// alphabet of operations
	var alpha []dOp
	for _, k := range []int{0, 1, 2, -1} {
		alpha = append(alpha, dOp{Op: "relay", K: k})
	}
	for _, k := range []int{0, 1, 2} {
		alpha = append(alpha, dOp{Op: "noroute", K: k})
	}
	alpha = append(alpha, dOp{Op: "req", M: true}, dOp{Op: "req", M: false})
	const rpath, rmethod = "/item/:id", http.MethodGet
	var run func(hist []dOp)
	run = func(hist []dOp) {
		mux := httpd.NewMux()
		var seen []dWho
		var ipath, imethod string
		note := func(who string, k int, s *httpd.Store) {
			seen = append(seen, dWho{who, k})
			if who == "relay" || len(seen) == 1 {
				ipath, imethod = s.I.Path, s.I.Method
			}
		}
		mux.Handle(rpath, rmethod, func(s *httpd.Store) { note("route", 0, s) })
		mux.HandleNoRoute(func(s *httpd.Store) { note("noroute", 0, s); s.Error404("404 not found") }) // NewMux's own, plus the note
		ops := make([]dOp, len(hist))
		copy(ops, hist)
		for i := range ops {
			op := &ops[i]
			op.Seen, op.IPath, op.IMethod, op.RPath, op.RMethod = []dWho{}, []int{}, []int{}, vio.Ints(rpath), vio.Ints(rmethod)
			switch op.Op {
			case "relay":
				k := op.K
				switch {
				case k == 0:
					mux.HandleRelay(func(s *httpd.Store) { s.I.HandlerFunc(s) }) // what NewMux installs
				case k > 0:
					mux.HandleRelay(func(s *httpd.Store) { note("relay", k, s); s.I.HandlerFunc(s) })
				default:
					mux.HandleRelay(func(s *httpd.Store) { note("relay", k, s) })
				}
			case "noroute":
				k := op.K
				if k == 0 {
					mux.HandleNoRoute(func(s *httpd.Store) { note("noroute", 0, s); s.Error404("404 not found") }) // what NewMux installs, plus the note
				} else {
					mux.HandleNoRoute(func(s *httpd.Store) { note("noroute", k, s) })
				}
			default:
				seen, ipath, imethod = nil, "", ""
				target := "/item/7"
				if !op.M {
					target = "/nothing/here"
				}
				rr := httptest.NewRecorder()
				mux.ServeHTTP(rr, httptest.NewRequest(http.MethodGet, target, nil))
				op.Seen = append([]dWho{}, seen...)
				op.Wire, op.IPath, op.IMethod = rr.Code, vio.Ints(ipath), vio.Ints(imethod)
			}
		}
		w.Put(map[string]any{"kind": "hist", "ops": ops})
	}
	var gen func(h []dOp)
	gen = func(h []dOp) {
		if len(h) > 0 && h[len(h)-1].Op == "req" {
			run(h)
		}
		if len(h) < 4 {
			for _, a := range alpha {
				gen(append(h[:len(h):len(h)], a))
			}
		}
	}
	gen(nil)
	// the default no-route handler of a fresh Mux (never replaced): 404, nobody of ours invoked
	{
		mux := httpd.NewMux()
		rr := httptest.NewRecorder()
		mux.ServeHTTP(rr, httptest.NewRequest(http.MethodGet, "/nothing", nil))
		w.Put(map[string]any{"kind": "hist", "ops": []dOp{{Op: "req", M: false, Seen: []dWho{{"noroute", 0}}, Wire: rr.Code, IPath: []int{}, IMethod: []int{}, RPath: vio.Ints(rpath), RMethod: vio.Ints(rmethod)}}})
	}
	// cookies
	names := []string{"a", "b", "sid"}
	vals := []string{"1", "", "x y", "v=w"}
	type ck struct {
		N []int `json:"n"`
		V []int `json:"v"`
	}
	for n := 0; n <= 3; n++ {
		total := 1
		for i := 0; i < n; i++ {
			total *= len(names) * len(vals)
		}
		for v := 0; v < total; v++ {
			req := httptest.NewRequest(http.MethodGet, "/item/7", nil)
			cs, x := []ck{}, v
			for i := 0; i < n; i++ {
				nm, vl := names[x%len(names)], vals[x/len(names)%len(vals)]
				x /= len(names) * len(vals)
				req.AddCookie(&http.Cookie{Name: nm, Value: vl})
				// what the request carries is what net/http's own reader finds in the header it wrote
				cs = append(cs, ck{vio.Ints(nm), nil})
			}
			for i, c := range req.Cookies() {
				if i < len(cs) {
					cs[i] = ck{vio.Ints(c.Name), vio.Ints(c.Value)}
				}
			}
			for _, want := range append(names, "zz") {
				mux := httpd.NewMux()
				got := ""
				mux.Handle("/item/:id", http.MethodGet, func(s *httpd.Store) { got = s.CookieValue(want) })
				mux.ServeHTTP(httptest.NewRecorder(), req)
				w.Put(map[string]any{"kind": "cookie", "cs": cs, "name": vio.Ints(want), "got": vio.Ints(got)})
			}
		}
	}
}
