package main

import (
	"bufio"
	"fmt"
	"os"
	"os/exec"
	"os/signal"
	"runtime"
	"sort"
	"strings"
	"sync"
	"sync/atomic"
	"syscall"
	"time"

	"github.com/whoisnian/glb/util/osutil"
	"verif/harness/internal/vio"
)

// osutil.WaitFor / WaitForInterrupt / WaitForStop observed in child processes (WaitFor.tla): the parent
// delivers a sequence of signals, one at a time, and records what each one did - WaitFor returned, another
// handler of the program got it, or the process died of it.

var x12sigs = map[string]syscall.Signal{"HUP": syscall.SIGHUP, "INT": syscall.SIGINT, "TERM": syscall.SIGTERM, "USR1": syscall.SIGUSR1, "USR2": syscall.SIGUSR2}
var x12names = []string{"HUP", "INT", "TERM", "USR1", "USR2"}

func x12name(s os.Signal) string {
	for k, v := range x12sigs {
		if v == s {
			return k
		}
	}
	return "?"
}

// waitChild is the observed program: one goroutine blocks in the function under test, the rest of the
// program has its own handler for the signals listed in elsewhere.
func waitChild(fn, elsewhere string) {
	var mu sync.Mutex
	say := func(s string) {
		mu.Lock()
		os.Stdout.WriteString(s + "\n")
		mu.Unlock()
	}
	var done atomic.Bool
	parked := func() bool {
		buf := make([]byte, 1<<16)
		st := string(buf[:runtime.Stack(buf, true)])
		for _, g := range strings.Split(st, "\n\n") {
			// parked = blocked with a frame of package osutil on top (the header's wait reason alone can be stale
			// while the goroutine is already running signal.Stop)
			ls := strings.SplitN(g, "\n", 3)
			if len(ls) >= 2 && (strings.Contains(ls[0], "[chan receive") || strings.Contains(ls[0], "[select")) &&
				strings.HasPrefix(ls[1], "github.com/whoisnian/glb/util/osutil.") {
				return true
			}
		}
		return false
	}
	bg := make(chan os.Signal, 16)
	l := []os.Signal{syscall.SIGWINCH}
	if elsewhere != "" {
		for _, n := range strings.Split(elsewhere, ",") {
			l = append(l, x12sigs[n])
		}
	}
	signal.Notify(bg, l...)
	go func() {
		for s := range bg {
			if s != syscall.SIGWINCH {
				say("got " + x12name(s))
				continue
			}
			// the parent's sync mark, queued by the runtime after the signal sent before it: everything that signal
			// did to the program's channels has been done; wait until WaitFor has either
			// returned or is parked on its channel again
			for !done.Load() && !parked() {
				time.Sleep(time.Millisecond)
			}
			say("sync")
		}
	}()
	go func() {
		switch fn {
		case "interrupt":
			osutil.WaitForInterrupt()
		case "stop":
			osutil.WaitForStop()
		case "usr1":
			osutil.WaitFor(syscall.SIGUSR1)
		case "usr1hup":
			osutil.WaitFor(syscall.SIGUSR1, syscall.SIGHUP)
		}
		say("returned")
		done.Store(true)
	}()
	// ready = the goroutine is parked on the channel receive inside WaitFor, i.e. its Notify has been done
	for k := 0; k < 20000; k++ {
		if parked() {
			say("ready")
			break
		}
		time.Sleep(time.Millisecond)
	}
	time.Sleep(60 * time.Second)
}

type x12case struct {
	Fn        string     `json:"fn"`
	Elsewhere []string   `json:"elsewhere"`
	Sigs      []string   `json:"sigs"`
	Obs       [][]string `json:"obs"`
	Ready     bool       `json:"ready"`
}

func x12run(self string, c *x12case, wait time.Duration) {
	cmd := exec.Command(self, "-mode", "waitchild", "-m", c.Fn, "-shape", strings.Join(c.Elsewhere, ","))
	stdout, _ := cmd.StdoutPipe()
	if err := cmd.Start(); err != nil {
		vio.Fatal("start child: %v", err)
	}
	lines := make(chan string, 16)
	go func() {
		sc := bufio.NewScanner(stdout)
		for sc.Scan() {
			lines <- sc.Text()
		}
		close(lines)
	}()
	dead := make(chan string, 1)
	go func() {
		err := cmd.Wait()
		if ee, ok := err.(*exec.ExitError); ok {
			if ws, ok := ee.Sys().(syscall.WaitStatus); ok && ws.Signaled() {
				dead <- "died " + x12name(ws.Signal())
				return
			}
		}
		dead <- "exited"
	}()
	next := func(d time.Duration) string {
		t := time.NewTimer(d)
		defer t.Stop()
		select {
		case l, ok := <-lines:
			if ok {
				return l
			}
			select {
			case s := <-dead:
				return s
			case <-t.C:
				return "nothing"
			}
		case <-t.C:
			return "nothing"
		}
	}
	c.Obs = [][]string{}
	c.Ready = next(30*time.Second) == "ready"
	if c.Ready {
	sigs:
		for _, s := range c.Sigs {
			// both go to the child's main thread: one thread takes its pending signals one handler at a time, lowest
			// number first, so the runtime has queued s before the sync mark (process-directed signals may be taken
			// by different threads in either order)
			syscall.Tgkill(cmd.Process.Pid, cmd.Process.Pid, x12sigs[s])
			syscall.Tgkill(cmd.Process.Pid, cmd.Process.Pid, syscall.SIGWINCH)
			cur := []string{}
			for {
				o := next(wait)
				if o == "sync" {
					break
				}
				switch {
				case o == "got "+s:
					o = "got"
				case o == "died "+s:
					o = "died"
				}
				cur = append(cur, o)
				if o == "died" || o == "exited" || o == "nothing" || strings.HasPrefix(o, "died") {
					sort.Strings(cur)
					c.Obs = append(c.Obs, cur)
					break sigs
				}
			}
			sort.Strings(cur)
			c.Obs = append(c.Obs, cur)
		}
	}
	cmd.Process.Kill()
}

func waitfor(out string, maxlen int) {
	w := vio.Create(out)
	defer w.Close()
	self, _ := os.Executable()
	var cases []*x12case
	elsewheres := [][]string{{}, {"HUP", "INT", "TERM", "USR1", "USR2"}, {"HUP", "USR2"}, {"INT", "USR1"}}
	for _, fn := range []string{"interrupt", "stop", "usr1", "usr1hup"} {
		for _, el := range elsewheres {
			var gen func(cur []string)
			gen = func(cur []string) {
				if len(cur) > 0 {
					cases = append(cases, &x12case{Fn: fn, Elsewhere: el, Sigs: append([]string{}, cur...)})
				}
				if len(cur) < maxlen {
					for _, s := range x12names {
						gen(append(cur[:len(cur):len(cur)], s))
					}
				}
			}
			gen(nil)
		}
	}
	// a sequence that is a proper prefix of another one adds nothing unless it ends the run; keep maximal ones and
	// the ones of length 1
	sem := make(chan struct{}, 2*runtime.NumCPU())
	var wg sync.WaitGroup
	for _, c := range cases {
		if len(c.Sigs) != maxlen && len(c.Sigs) != 1 {
			continue
		}
		wg.Add(1)
		sem <- struct{}{}
		go func(c *x12case) {
			defer wg.Done()
			defer func() { <-sem }()
			x12run(self, c, 30*time.Second)
		}(c)
	}
	wg.Wait()
	for _, c := range cases {
		if len(c.Sigs) != maxlen && len(c.Sigs) != 1 {
			continue
		}
		w.Put(c)
	}
	fmt.Fprintf(os.Stderr, "x12: %d child runs\n", w.N)
}
