package main

import (
	"reflect"
	"strconv"

	"github.com/whoisnian/glb/config"
	"verif/harness/internal/vio"
)

// Struct tag syntax (TagParse.tla): every tag body over a small alphabet, on a string field named "Fa".

func tags(out string, maxlen int) {
	w := vio.Create(out)
	defer w.Close()
	alpha := []byte{',', '|', 'a', 'B', ' ', '-', '='}
	field := "Fa"
	one := func(tag string) {
		p := mkStruct([]reflect.StructField{{Name: field, Type: reflect.TypeOf(""), Tag: reflect.StructTag(`flag:` + strconv.Quote(tag))}})
		fs, err := config.NewFlagSet(p.Interface())
		rec := map[string]any{"tag": vio.Ints(tag), "field": vio.Ints(field), "rejected": err != nil, "found": false, "name": []int{}, "def": []int{}, "usage": []int{}}
		if err == nil {
			// the flag is looked up under every candidate name: every substring of the tag and the lower-cased field name
			cands := map[string]bool{"fa": true}
			for i := 0; i <= len(tag); i++ {
				for j := i; j <= len(tag); j++ {
					cands[tag[i:j]] = true
				}
			}
			n := 0
			for c := range cands {
				if c == "help" || c == "config" {
					continue
				}
				if fl := fs.Lookup(c); fl != nil {
					n++
					rec["name"], rec["def"], rec["usage"] = vio.Ints(fl.Name), vio.Ints(fl.DefValue), vio.Ints(fl.Usage)
				}
			}
			rec["found"] = n == 1
		}
		w.Put(rec)
	}
	var gen func(p []byte)
	gen = func(p []byte) {
		one(string(p))
		if len(p) < maxlen {
			for _, c := range alpha {
				gen(append(p[:len(p):len(p)], c))
			}
		}
	}
	gen(nil)
	for _, t := range []string{"name,value,usage", "|name|value|usage", "l,0.0.0.0:80,Server listen addr", "|l|a,b|usage, with | both", "n,v,u,extra,commas", "|n|v|u|extra|bars", ",,", "||", "|||", ",v", "|,|", "help,x,y", "|config|x|y", "|",
		",", "a", "-x,1,u", "a=b,1,u", "|a b|c d|e f"} {
		one(t)
	}
}
