package main

import (
	"bytes"
	"context"
	"fmt"
	"log/slog"
	"math/rand"
	"time"

	"github.com/whoisnian/glb/ansi"
	"github.com/whoisnian/glb/logger"
	"verif/harness/internal/vio"
)

// Colour on versus colour off (Colour.tla).

func colourAttr(rng *rand.Rand, depth int, n *int) slog.Attr {
	key := fmt.Sprintf("k%d", rng.Intn(50))
	switch r := rng.Intn(8); {
	case r == 0:
		pre := []string{"", ansi.RedFG, ansi.BlueFG, ansi.GreenBG, ansi.Bold}[rng.Intn(5)]
		if pre != "" {
			*n++
		}
		return slog.Any(key, logger.AnsiString{Prefix: pre, Value: []string{"REQ_END", "", "two words", "q\"uote", "=eq"}[rng.Intn(5)]})
	case r == 1:
		return slog.Int(key, rng.Intn(1000))
	case r == 2 && depth > 0:
		m := rng.Intn(3)
		as := []any{}
		for i := 0; i < m; i++ {
			as = append(as, colourAttr(rng, depth-1, n))
		}
		if rng.Intn(4) == 0 {
			key = ""
		}
		return slog.Group(key, as...)
	case r == 3:
		return slog.Any(key, fmt.Errorf("err %d", rng.Intn(9)))
	case r == 4:
		return slog.Bool(key, rng.Intn(2) == 0)
	case r == 5:
		return slog.Duration(key, time.Duration(rng.Intn(5000))*time.Millisecond)
	}
	return slog.String(key, []string{"v", "two words", "", "a=b", "q\"", "tab\t", "ünï"}[rng.Intn(7)])
}

func colour(out string, rng *rand.Rand) {
	w := vio.Create(out)
	defer w.Close()
	tm := time.Date(2024, 2, 29, 23, 59, 58, 123456789, time.UTC)
	levels := []slog.Level{logger.LevelDebug, logger.LevelInfo, logger.LevelWarn, logger.LevelError, logger.LevelFatal}
	for n := 0; n < 3000; n++ {
		kind := []string{"nano", "text", "json"}[n%3]
		lvl := levels[rng.Intn(5)]
		nansi := 0
		type step struct {
			group string
			attrs []slog.Attr
		}
		var chain []step
		for i := rng.Intn(3); i > 0; i-- {
			if rng.Intn(2) == 0 {
				chain = append(chain, step{group: fmt.Sprintf("g%d", rng.Intn(4))})
			} else {
				st := step{}
				for j := 1 + rng.Intn(2); j > 0; j-- {
					st.attrs = append(st.attrs, colourAttr(rng, 1, &nansi))
				}
				chain = append(chain, st)
			}
		}
		var site []slog.Attr
		for j := rng.Intn(4); j > 0; j-- {
			site = append(site, colourAttr(rng, 2, &nansi))
		}
		msg := []string{"m", "", "two words", "q\"x"}[rng.Intn(4)]
		lines := [2][]byte{}
		for ci, colourful := range []bool{false, true} {
			var buf bytes.Buffer
			o := logger.NewOptions(logger.LevelDebug, colourful, false)
			var h logger.Handler
			switch kind {
			case "nano":
				h = logger.NewNanoHandler(&buf, o)
			case "text":
				h = logger.NewTextHandler(&buf, o)
			default:
				h = logger.NewJsonHandler(&buf, o)
			}
			for _, st := range chain {
				if st.group != "" {
					h = h.WithGroup(st.group)
				} else {
					h = h.WithAttrs(st.attrs)
				}
			}
			r := slog.NewRecord(tm, lvl, msg, 0)
			r.AddAttrs(site...)
			h.Handle(context.Background(), r)
			lines[ci] = buf.Bytes()
		}
		w.Put(map[string]any{"kind": kind, "plain": vio.Ints(string(lines[0])), "colour": vio.Ints(string(lines[1])), "nansi": nansi})
	}
}
