package main

import (
	randv2 "math/rand/v2"

	"math/rand"

	"github.com/whoisnian/glb/ansi"
	"github.com/whoisnian/glb/util/ioutil"
	"github.com/whoisnian/glb/util/strutil"
	"verif/harness/internal/vio"
)

// Small helpers (Misc.tla): ReadRand, ansi cursor/scroll texts, SliceContain.

type recSource struct {
	rng   *rand.Rand
	draws [][]int
}

func (s *recSource) Uint64() uint64 {
	v := s.rng.Uint64()
	b := make([]int, 8)
	for i := range b {
		b[i] = int(byte(v >> (8 * i)))
	}
	s.draws = append(s.draws, b)
	return v
}

func misc(out string, rng *rand.Rand) {
	w := vio.Create(out)
	defer w.Close()
	for n := 0; n <= 70; n++ {
		for rep := 0; rep < 3; rep++ {
			src := &recSource{rng: rng, draws: [][]int{}}
			r := randv2.New(src)
			// the buffer is a window of a larger array: bytes outside it must stay untouched
			back := make([]byte, n+16)
			for i := range back {
				back[i] = 0xA5
			}
			got, err := ioutil.ReadRand(r, back[8:8+n])
			kept := true
			for i := range back {
				if (i < 8 || i >= 8+n) && back[i] != 0xA5 {
					kept = false
				}
			}
			w.Put(map[string]any{"kind": "readrand", "len": n, "n": got, "errnil": err == nil, "drawn": len(src.draws), "draws": src.draws,
				"buf": vio.Ints(string(back[8 : 8+n])), "tailkept": kept})
		}
	}
	for _, n := range []int{-3, -1, 0, 1, 2, 3, 7, 40} {
		w.Put(map[string]any{"kind": "scrollup", "a": n, "b": 0, "out": vio.Ints(ansi.ScrollUpN(n))})
		w.Put(map[string]any{"kind": "scrolldown", "a": n, "b": 0, "out": vio.Ints(ansi.ScrollDownN(n))})
	}
	for _, r := range []int{-5, 0, 1, 2, 10, 24, 999} {
		for _, c := range []int{-1, 0, 1, 9, 80, 1200} {
			w.Put(map[string]any{"kind": "cursor", "a": r, "b": c, "out": vio.Ints(ansi.SetCursorPos(r, c))})
		}
	}
	words := []string{"", "a", "b", "ab", "A"}
	for i := 0; i < 300; i++ {
		k := rng.Intn(5)
		sl := []string{}
		for j := 0; j < k; j++ {
			sl = append(sl, words[rng.Intn(len(words))])
		}
		v := words[rng.Intn(len(words))]
		w.Put(map[string]any{"kind": "contain", "slice": sl, "v": v, "r": strutil.SliceContain(sl, v)})
	}
}
