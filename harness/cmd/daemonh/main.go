// Command daemonh exercises the real daemon.Launch handshake with three kinds of processes, all this
// binary re-executed: the harness (no role), callers (VERIF_ROLE=caller: call daemon.Launch, possibly
// several times concurrently with different names, report, exit) and - through the library itself -
// launchers and daemons.  Every process appends its events to one O_APPEND file, whose order is a
// total order across processes.  Schedules: daemon reaching Done() immediately or after a delay x
// launcher paused after starting the daemon (verif pause point) or not x 1 or 3 concurrent launches.
// After the caller has exited the harness checks that the returned pid is alive, is not a child of the
// caller and that the launcher is gone.  TLC (spec/daemon/DaemonCases.tla) judges the event files.
package main

import (
	"bufio"
	"encoding/json"
	"flag"
	"fmt"
	"os"
	"os/exec"
	"strconv"
	"strings"
	"sync"
	"sync/atomic"
	"syscall"
	"time"

	"github.com/whoisnian/glb/daemon"
	"verif/harness/internal/vio"
)

var names = []string{"verifd-A", "verifd-B", "verifd-C"}

// dyingName: a daemon that dies before it calls Done() - Launch(dyingName) fails, which is outside the property
const dyingName = "verifd-X"

func appendEvent(m map[string]any) {
	path := os.Getenv("VERIF_EVENT_FILE")
	if path == "" {
		return
	}
	b, _ := json.Marshal(m)
	f, err := os.OpenFile(path, os.O_APPEND|os.O_WRONLY|os.O_CREATE, 0o644)
	if err != nil {
		return
	}
	f.Write(append(b, '\n')) // one write per event: O_APPEND makes it atomic and totally ordered
	f.Close()
}

func handlerFor(name string) func() {
	return func() {
		appendEvent(map[string]any{"e": "started", "name": name, "pid": os.Getpid(), "ppid": os.Getppid()})
		if ms, _ := strconv.Atoi(os.Getenv("VERIF_DAEMON_DELAY_MS")); ms > 0 {
			time.Sleep(time.Duration(ms) * time.Millisecond)
		}
		appendEvent(map[string]any{"e": "marker", "name": name, "pid": os.Getpid(), "ppid": os.Getppid()})
		appendEvent(map[string]any{"e": "donebegin", "pid": os.Getpid()})
		if name == "verifd-B" {
			// the "ready" callback of a server: Done() is called from a goroutine the handler started, not from the
			// goroutine (and thread) that ran the package init functions
			ready := make(chan struct{})
			go func() { daemon.Done(); close(ready) }()
			<-ready
		} else {
			daemon.Done()
		}
		appendEvent(map[string]any{"e": "doneend", "pid": os.Getpid()})
		// a daemon keeps using its standard streams after start-up (logging): whatever they are connected to must still work
		for b := 0; b < 4; b++ {
			fmt.Fprintf(os.Stderr, "%s: heartbeat %d on stderr\n", name, b)
			fmt.Fprintf(os.Stdout, "%s: heartbeat %d on stdout\n", name, b)
			time.Sleep(40 * time.Millisecond)
		}
		life, _ := strconv.Atoi(os.Getenv("VERIF_DAEMON_LIFE_MS"))
		if life <= 0 {
			life = 20000
		}
		time.Sleep(time.Duration(life) * time.Millisecond) // keeps running; the harness kills it by pid
	}
}

func init() {
	for _, n := range names {
		daemon.Register(n, handlerFor(n))
	}
	daemon.Register(dyingName, func() {
		appendEvent(map[string]any{"e": "dying", "name": dyingName, "pid": os.Getpid()})
		os.Exit(3)
	})
	if daemon.Run() {
		os.Exit(0)
	}
}

func caller() {
	n, _ := strconv.Atoi(os.Getenv("VERIF_NLAUNCH"))
	// a caller that has changed its own environment before launching (dropped credentials, set a marker)
	os.Unsetenv("VERIF_SECRET_1")
	os.Setenv("VERIF_CALLER_MARK", "set-by-caller")
	os.Unsetenv("VERIF_SECRET_2")
	os.Unsetenv("VERIF_SECRET_3")
	launch := func(k int, name string) {
		appendEvent(map[string]any{"e": "begin", "name": name, "k": k})
		pid, err := daemon.Launch(name)
		msg := ""
		if err != nil {
			msg = err.Error()
		}
		appendEvent(map[string]any{"e": "ret", "name": name, "k": k, "pid": pid, "ok": err == nil, "err": msg, "callerpid": os.Getpid()})
	}
	switch os.Getenv("VERIF_CALLER_MODE") {
	case "failfirst":
		// the first daemon dies before Done(): that Launch fails (no verdict on it); the launches after it are ordinary ones
		launch(100, dyingName)
		for k := 0; k < n; k++ {
			launch(k, names[k%len(names)])
			if k == 0 {
				launch(101, dyingName)
			}
		}
		return
	case "rounds":
		for r := 0; r < n/3; r++ {
			var wg sync.WaitGroup
			var ready atomic.Int32
			for j := 0; j < 3; j++ {
				wg.Add(1)
				go func(k int) {
					defer wg.Done()
					ready.Add(1)
					for ready.Load() < 3 { // spin barrier: the three calls begin together
					}
					launch(k, names[k%len(names)])
				}(r*3 + j)
			}
			wg.Wait()
		}
		return
	}
	var wg sync.WaitGroup
	for k := 0; k < n; k++ {
		wg.Add(1)
		go func(k int) {
			defer wg.Done()
			launch(k, names[k%len(names)])
		}(k)
	}
	wg.Wait()
}

// alive: the process exists and is not a zombie waiting to be reaped (a daemon killed by a signal stays in the process
// table until its new parent collects it)
func alive(pid int) bool {
	if pid <= 1 || syscall.Kill(pid, 0) != nil {
		return false
	}
	b, err := os.ReadFile(fmt.Sprintf("/proc/%d/stat", pid))
	if err != nil {
		return false
	}
	s := string(b)
	if i := strings.LastIndexByte(s, ')'); i >= 0 && i+2 < len(s) {
		return s[i+2] != 'Z' && s[i+2] != 'X'
	}
	return true
}

func ppidOf(pid int) int {
	b, err := os.ReadFile(fmt.Sprintf("/proc/%d/stat", pid))
	if err != nil {
		return -1
	}
	s := string(b)
	i := strings.LastIndexByte(s, ')')
	f := strings.Fields(s[i+1:])
	if len(f) < 2 {
		return -1
	}
	p, _ := strconv.Atoi(f[1])
	return p
}

func readEvents(path string) []map[string]any {
	f, err := os.Open(path)
	if err != nil {
		return nil
	}
	defer f.Close()
	var out []map[string]any
	sc := bufio.NewScanner(f)
	for sc.Scan() {
		var m map[string]any
		if json.Unmarshal(sc.Bytes(), &m) == nil {
			out = append(out, m)
		}
	}
	return out
}

func main() {
	if os.Getenv("VERIF_ROLE") == "caller" {
		caller()
		return
	}
	out := flag.String("out", "traces.ndjson", "")
	work := flag.String("work", ".", "")
	reps := flag.Int("reps", 1, "")
	rounds := flag.Int("rounds", 8, "rounds of three concurrent launches in the rounds schedule")
	slow := flag.Int("slow", 6000, "delay (ms) of the one slow-daemon schedule; 0 = none")
	flag.Parse()
	w := vio.Create(*out)
	defer w.Close()
	self, _ := os.Executable()
	run := 0
	schedule := func(delay, pause, nl int, mode string) {
		{
			{
				{
					run++
					evfile := fmt.Sprintf("%s/daemon_events_%d.ndjson", *work, run)
					os.Remove(evfile)
					cmd := exec.Command(self)
					cmd.Env = append(os.Environ(), "VERIF_ROLE=caller", "VERIF_EVENT_FILE="+evfile,
						fmt.Sprintf("VERIF_DAEMON_DELAY_MS=%d", delay), fmt.Sprintf("VERIF_LAUNCHER_PAUSE_MS=%d", pause),
						"VERIF_CALLER_MODE="+mode, "VERIF_SECRET_1=s1", "VERIF_SECRET_2=s2", "VERIF_SECRET_3=s3", fmt.Sprintf("VERIF_NLAUNCH=%d", nl), fmt.Sprintf("VERIF_DAEMON_LIFE_MS=%d", 12000+delay))
					cmd.Start()
					callerPid := cmd.Process.Pid
					done := make(chan struct{})
					go func() { cmd.Wait(); close(done) }()
					hung := false
					select {
					case <-done:
					case <-time.After(time.Duration(8000+delay+nl/3*2500) * time.Millisecond): // Done() happens within ~0.4 s + delay (per round of launches)
						hung = true
						cmd.Process.Kill()
						<-done
					}
					time.Sleep(400 * time.Millisecond) // the daemons go on for a while (heartbeats on their standard streams) before they are looked at
					evs := readEvents(evfile)
					var extra []map[string]any
					var daemons []int
					launcherOf := map[int]int{}
					for _, e := range evs {
						if e["e"] == "marker" {
							pid := int(e["pid"].(float64))
							daemons = append(daemons, pid)
							launcherOf[pid] = int(e["ppid"].(float64))
						}
					}
					returned := map[int]bool{}
					for _, e := range evs {
						if e["e"] == "ret" {
							returned[int(e["k"].(float64))] = true
							if e["ok"] == true {
								pid := int(e["pid"].(float64))
								lp, known := launcherOf[pid]
								extra = append(extra, map[string]any{"e": "obs", "name": e["name"], "k": e["k"], "pid": pid, "alive": alive(pid),
									"ppid": ppidOf(pid), "launchergone": !known || !alive(lp) || ppidOf(lp) != callerPid && lp != ppidOf(pid), "callerpid": callerPid})
							}
						}
					}
					if hung {
						for _, e := range evs { // calls that began and never returned
							kf, _ := e["k"].(float64)
							if k := int(kf); e["e"] == "begin" && !returned[k] && e["name"] != dyingName {
								extra = append(extra, map[string]any{"e": "hang", "name": e["name"], "k": k})
							}
						}
					}
					for _, pid := range daemons { // daemons are tracked by pid and killed individually
						if alive(pid) {
							syscall.Kill(pid, syscall.SIGKILL)
						}
					}
					for _, e := range append(evs, extra...) { // uniform records for the judge
						for _, k := range []string{"name", "err"} {
							if _, ok := e[k]; !ok {
								e[k] = ""
							}
						}
						for _, k := range []string{"pid", "ppid", "k", "callerpid"} {
							if _, ok := e[k]; !ok {
								e[k] = 0
							}
						}
						for _, k := range []string{"ok", "alive", "launchergone"} {
							if _, ok := e[k]; !ok {
								e[k] = false
							}
						}
					}
					w.Put(map[string]any{"evs": append(evs, extra...), "delay": delay, "pause": pause, "launches": nl, "mode": mode})
					os.Remove(evfile)
				}
			}
		}
	}
	for rep := 0; rep < *reps; rep++ {
		delays := []int{0, 50}
		if rep == 0 && *slow > 0 {
			delays = append(delays, *slow) // "however slowly the daemon reaches Done()"
		}
		for _, delay := range delays {
			for _, pause := range []int{0, 300} {
				for _, nl := range []int{1, 3} {
					if delay > 1000 && (pause != 0 || nl != 1) {
						continue
					}
					schedule(delay, pause, nl, "")
				}
			}
		}
		// a launch that fails (its daemon dies before Done()) followed, in the same process, by launches of healthy daemons
		schedule(0, 0, 3, "failfirst")
		// many rounds of three launches of different names released together from a spin barrier
		schedule(0, 0, 3**rounds, "rounds")
	}
}
