// Command logsink records what the destination io.Writer of a glb logger sees while many goroutines
// log, derive and log again: every Write call is logged at entry and exit (global atomic sequence
// numbers) and dwells inside Write, so missing serialisation shows as overlap.  Each record carries
// a unique id; its payload is compared byte for byte (timestamp masked) with the line the same call
// writes on a fresh identical chain logged alone.  TLC (spec/logger/LogSinkCases.tla) judges the trace.
package main

import (
	"context"
	"flag"
	"fmt"
	"log/slog"
	"math/rand"
	"regexp"
	"runtime"
	"strconv"
	"strings"
	"sync"
	"time"

	"github.com/whoisnian/glb/logger"
	"verif/harness/internal/evlog"
	"verif/harness/internal/vio"
)

type ev struct {
	E    string `json:"e"`    // lb le wb we
	G    int    `json:"g"`    // goroutine
	R    int    `json:"r"`    // record id (wb: parsed from the payload, 0 = unparsable)
	En   bool   `json:"en"`   // lb: record is at an enabled level
	Same bool   `json:"same"` // wb: payload is exactly the line of record R logged alone
	NL   int    `json:"nl"`   // wb: number of newline bytes in the payload
	Last bool   `json:"last"` // wb: payload ends with a newline
	N    int    `json:"n"`    // wb: payload length
}

type dest struct {
	log     *evlog.Log
	bufs    sync.Map
	expect  sync.Map // record id -> masked expected line
	kind    string
	dwellNs int64
	rngMu   sync.Mutex
	rng     *rand.Rand
}

var idRe = regexp.MustCompile(`rec#(\d+)#`)

func goid() int64 {
	var b [64]byte
	n := runtime.Stack(b[:], false)
	var id int64
	for _, c := range b[len("goroutine "):n] {
		if c < '0' || c > '9' {
			break
		}
		id = id*10 + int64(c-'0')
	}
	return id
}

func (d *dest) buf() (*evlog.Buf, int) {
	id := goid()
	if b, ok := d.bufs.Load(id); ok {
		return b.(*evlog.Buf), int(id)
	}
	b := d.log.Buf()
	d.bufs.Store(id, b)
	return b, int(id)
}

func mask(kind, line string) string {
	switch kind {
	case "nano":
		if len(line) >= 19 {
			return "T" + line[19:]
		}
	case "text":
		if i := strings.IndexByte(line, ' '); i > 0 && strings.HasPrefix(line, "time=") {
			return "time=T" + line[i:]
		}
	case "json":
		const p = `{"time":"`
		if strings.HasPrefix(line, p) {
			if i := strings.IndexByte(line[len(p):], '"'); i >= 0 {
				return p + "T" + line[len(p)+i:]
			}
		}
	}
	return line
}

func (d *dest) Write(p []byte) (int, error) {
	b, g := d.buf()
	s := string(p)
	e := ev{E: "wb", G: g, N: len(p), NL: strings.Count(s, "\n"), Last: strings.HasSuffix(s, "\n")}
	if m := idRe.FindStringSubmatch(s); m != nil {
		e.R, _ = strconv.Atoi(m[1])
		if want, ok := d.expect.Load(e.R); ok {
			e.Same = mask(d.kind, s) == want.(string)
		}
	}
	b.Emit(e)
	d.rngMu.Lock()
	x := d.rng.Intn(10)
	d.rngMu.Unlock()
	switch {
	case x < 4:
		runtime.Gosched()
	case x < 7:
		time.Sleep(time.Duration(d.dwellNs))
	}
	// the payload must still be what it was at entry (a recycled buffer would change under us)
	if string(p) != s {
		b.Emit(ev{E: "wchanged", G: g, R: e.R, N: len(p)})
	}
	b.Emit(ev{E: "we", G: g})
	return len(p), nil
}

type captureOne struct{ line string }

func (c *captureOne) Write(p []byte) (int, error) { c.line += string(p); return len(p), nil }

func mkHandler(kind string, w interface{ Write([]byte) (int, error) }, level slog.Level) logger.Handler {
	o := logger.NewOptions(level, false, false)
	switch kind {
	case "nano":
		return logger.NewNanoHandler(w, o)
	case "text":
		return logger.NewTextHandler(w, o)
	}
	return logger.NewJsonHandler(w, o)
}

type chainItem struct {
	group string
	attrs []any
}

func apply(l *logger.Logger, chain []chainItem) *logger.Logger {
	for _, c := range chain {
		if c.group != "" {
			l = l.WithGroup(c.group)
		} else {
			l = l.With(c.attrs...)
		}
	}
	return l
}

var levels = []slog.Level{logger.LevelDebug, logger.LevelInfo, logger.LevelWarn, logger.LevelError, logger.LevelFatal}

func main() {
	out := flag.String("out", "traces.ndjson", "")
	runs := flag.Int("runs", 3, "runs per handler kind")
	ng := flag.Int("goroutines", 8, "")
	nrec := flag.Int("records", 120, "records per goroutine")
	flag.Parse()
	rng := rand.New(rand.NewSource(vio.Seed()))
	w := vio.Create(*out)
	defer w.Close()
	for run := 0; run < *runs; run++ {
		for _, kind := range []string{"nano", "text", "json"} {
			threshold := levels[rng.Intn(4)]
			d := &dest{log: evlog.New(), kind: kind, dwellNs: int64(20+rng.Intn(200)) * 1000, rng: rand.New(rand.NewSource(rng.Int63()))}
			root := logger.New(mkHandler(kind, d, threshold))
			// loggers derived before the run
			pre := [][]chainItem{{}, {{attrs: []any{"svc", "api", slog.Int("shard", 3)}}}, {{group: "req"}, {attrs: []any{"k", strings.Repeat("v", 40)}}}}
			var nextID int64
			var idMu sync.Mutex
			var wg sync.WaitGroup
			for g := 0; g < *ng; g++ {
				wg.Add(1)
				seed := rng.Int63()
				go func(g int) {
					defer wg.Done()
					r := rand.New(rand.NewSource(seed))
					b, gid := d.buf()
					chain := append([]chainItem(nil), pre[r.Intn(len(pre))]...)
					l := apply(root, chain)
					for k := 0; k < *nrec; k++ {
						if r.Intn(6) == 0 { // derive during the run
							it := chainItem{attrs: []any{fmt.Sprintf("d%d", k), r.Intn(1000)}}
							if r.Intn(3) == 0 {
								it = chainItem{group: fmt.Sprintf("g%d", r.Intn(3))}
							}
							chain = append(chain[:len(chain):len(chain)], it)
							l = apply(apply(root, nil), chain)
							if len(chain) > 4 {
								chain = append([]chainItem(nil), pre[r.Intn(len(pre))]...)
								l = apply(root, chain)
							}
						}
						idMu.Lock()
						nextID++
						id := int(nextID)
						idMu.Unlock()
						level := levels[r.Intn(len(levels))]
						if level == logger.LevelFatal {
							level = logger.LevelError
						}
						size := []int{0, 10, 100, 900, 1100, 5000, 17000, 40000, 66000}[r.Intn(9)]
						if r.Intn(4) > 0 && size > 1100 {
							size = 100
						}
						msg := fmt.Sprintf("rec#%d#", id)
						args := []any{"pad", strings.Repeat(string(rune('a'+id%26)), size), slog.Int("n", id)}
						enabled := level >= threshold
						if enabled { // what this very call writes when logged alone on a fresh identical chain
							c := &captureOne{}
							apply(logger.New(mkHandler(kind, c, threshold)), chain).Log(context.Background(), level, msg, args...)
							d.expect.Store(id, mask(kind, c.line))
						}
						b.Emit(ev{E: "lb", G: gid, R: id, En: enabled})
						l.Log(context.Background(), level, msg, args...)
						b.Emit(ev{E: "le", G: gid, R: id})
					}
				}(g)
			}
			wg.Wait()
			w.Put(map[string]any{"kind": kind, "evs": d.log.Merge(), "threshold": int(threshold)})
		}
	}
}
