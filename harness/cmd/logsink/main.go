// Command logsink records what the destination io.Writer of a glb logger sees while many goroutines
// log, derive and log again: every Write call is logged at entry and exit (global atomic sequence
// numbers) and dwells inside Write, so missing serialisation shows as overlap.  Each record carries
// a unique id; its payload is compared byte for byte (timestamp masked) with the line the same call
// writes on a fresh identical chain logged alone.  TLC (spec/logger/LogSinkCases.tla) judges the trace.
package main

import (
	"context"
	"errors"
	"flag"
	"fmt"
	"log/slog"
	"math/rand"
	"regexp"
	"runtime"
	"strconv"
	"strings"
	"sync"
	"sync/atomic"
	"time"

	"github.com/whoisnian/glb/logger"
	"verif/harness/internal/evlog"
	"verif/harness/internal/vio"
)

type ev struct {
	E    string `json:"e"`    // lb le wb we
	G    int    `json:"g"`    // goroutine
	R    int    `json:"r"`    // record id (wb: parsed from the payload, 0 = unparsable)
	En   bool   `json:"en"`   // lb: record is at an enabled level
	Same bool   `json:"same"` // wb: payload is exactly the line of record R logged alone
	NL   int    `json:"nl"`   // wb: number of newline bytes in the payload
	Last bool   `json:"last"` // wb: payload ends with a newline
	N    int    `json:"n"`    // wb: payload length
}

type dest struct {
	log       *evlog.Log
	bufs      sync.Map
	expect    sync.Map // record id -> masked expected line
	kind      string
	dwellNs   int64
	failEvery int
	fast      bool
	rngMu     sync.Mutex
	rng       *rand.Rand
}

var idRe = regexp.MustCompile(`rec#(\d+)#`)

func goid() int64 {
	var b [64]byte
	n := runtime.Stack(b[:], false)
	var id int64
	for _, c := range b[len("goroutine "):n] {
		if c < '0' || c > '9' {
			break
		}
		id = id*10 + int64(c-'0')
	}
	return id
}

func (d *dest) buf() (*evlog.Buf, int) {
	id := goid()
	if b, ok := d.bufs.Load(id); ok {
		return b.(*evlog.Buf), int(id)
	}
	b := d.log.Buf()
	d.bufs.Store(id, b)
	return b, int(id)
}

func mask(kind, line string) string {
	switch kind {
	case "nano":
		if len(line) >= 19 {
			return "T" + line[19:]
		}
	case "text":
		if i := strings.IndexByte(line, ' '); i > 0 && strings.HasPrefix(line, "time=") {
			return "time=T" + line[i:]
		}
	case "json":
		const p = `{"time":"`
		if strings.HasPrefix(line, p) {
			if i := strings.IndexByte(line[len(p):], '"'); i >= 0 {
				return p + "T" + line[len(p)+i:]
			}
		}
	}
	return line
}

func (d *dest) Write(p []byte) (int, error) {
	b, g := d.buf()
	s := string(p)
	e := ev{E: "wb", G: g, N: len(p), NL: strings.Count(s, "\n"), Last: strings.HasSuffix(s, "\n")}
	if m := idRe.FindStringSubmatch(s); m != nil {
		e.R, _ = strconv.Atoi(m[1])
		if want, ok := d.expect.Load(e.R); ok {
			e.Same = mask(d.kind, s) == want.(string)
		}
	}
	b.Emit(e)
	d.rngMu.Lock()
	x := d.rng.Intn(10)
	if d.fast {
		x = 8 // no dwell: the goroutines spend their time formatting concurrently instead of queueing at the lock
	}
	d.rngMu.Unlock()
	switch {
	case x < 4:
		runtime.Gosched()
	case x < 7:
		time.Sleep(time.Duration(d.dwellNs))
	}
	fail := d.failEvery > 0 && x == 9 && d.rng.Intn(d.failEvery) == 0
	// the payload must still be what it was at entry (a recycled buffer would change under us)
	if string(p) != s {
		b.Emit(ev{E: "wchanged", G: g, R: e.R, N: len(p)})
	}
	b.Emit(ev{E: "we", G: g})
	if fail {
		return 0, errors.New("destination failure (injected)") // the record still counts as written once
	}
	return len(p), nil
}

type captureOne struct{ line string }

func (c *captureOne) Write(p []byte) (int, error) { c.line += string(p); return len(p), nil }

func mkHandler(kind string, w interface{ Write([]byte) (int, error) }, level slog.Level) logger.Handler {
	o := logger.NewOptions(level, false, false)
	switch kind {
	case "nano":
		return logger.NewNanoHandler(w, o)
	case "text":
		return logger.NewTextHandler(w, o)
	}
	return logger.NewJsonHandler(w, o)
}

type chainItem struct {
	group string
	attrs []any
}

func apply(l *logger.Logger, chain []chainItem) *logger.Logger {
	for _, c := range chain {
		if c.group != "" {
			l = l.WithGroup(c.group)
		} else {
			l = l.With(c.attrs...)
		}
	}
	return l
}

var levels = []slog.Level{logger.LevelDebug, logger.LevelInfo, logger.LevelWarn, logger.LevelError, logger.LevelFatal}

// hammer: 8 goroutines log a few fixed records several hundred thousand times through loggers SHARED by all of
// them (root, With-derived, WithGroup-derived, nested groups), each goroutine with its own keys.  The
// destination checks every payload against the lines those records give when logged alone; only anomalies
// and the totals go into the trace (TLC rules "hbad" / "hsum").
type hammerDest struct {
	kind   string
	legal  map[string]bool
	mu     sync.Mutex
	writes int
	inside int
	bad    []string
}

func (h *hammerDest) Write(p []byte) (int, error) {
	h.mu.Lock()
	h.inside++
	if h.inside > 1 && len(h.bad) < 5 {
		h.bad = append(h.bad, "two Write calls overlap")
	}
	h.writes++
	if !h.legal[mask(h.kind, string(p))] && len(h.bad) < 5 {
		s := string(p)
		if len(s) > 300 {
			s = s[:300]
		}
		h.bad = append(h.bad, s)
	}
	h.inside--
	h.mu.Unlock()
	return len(p), nil
}

var cancelledCtx, expiredCtx = func() (context.Context, context.Context) {
	c, cancel := context.WithCancel(context.Background())
	cancel()
	e, cancel2 := context.WithDeadline(context.Background(), time.Unix(1, 0))
	_ = cancel2
	return c, e
}()

// emit logs one record through one of the front-end entry points (all of them are "logging a record")
func emit(l *logger.Logger, variant int, level slog.Level, msg string, args []any) {
	ctx := context.Background()
	switch variant % 5 {
	case 3: // a context that is already cancelled: logging is not an operation a context can call off
		l.Log(cancelledCtx, level, msg, args...)
	case 4:
		l.Logf(expiredCtx, level, "%s", msg)
	case 0:
		l.Log(ctx, level, msg, args...)
	case 1:
		switch level {
		case logger.LevelDebug:
			l.Debug(msg, args...)
		case logger.LevelInfo:
			l.Info(msg, args...)
		case logger.LevelWarn:
			l.Warn(msg, args...)
		case logger.LevelFatal: // Fatal() itself ends the process (observed in a child process by extras X06)
			l.Log(ctx, level, msg, args...)
		default:
			l.Error(msg, args...)
		}
	default:
		switch level {
		case logger.LevelDebug:
			l.Debugf("%s", msg)
		case logger.LevelInfo:
			l.Infof("%s", msg)
		case logger.LevelWarn:
			l.Warnf("%s", msg)
		case logger.LevelFatal:
			l.Logf(ctx, level, "%s", msg)
		default:
			l.Errorf("%s", msg)
		}
	}
}

func hammer(kind string, perG int, rng *rand.Rand) map[string]any {
	const G = 8
	hd := &hammerDest{kind: kind, legal: map[string]bool{}}
	root := logger.New(mkHandler(kind, hd, logger.LevelInfo))
	chains := [][]chainItem{{}, {{group: "grp"}}, {{attrs: []any{"svc", "api"}}}, {{group: "app"}, {group: strings.Repeat("d", 20)}}, {{group: "g"}, {attrs: []any{"k", "v"}}}}
	var shared []*logger.Logger
	for _, ch := range chains {
		shared = append(shared, apply(root, ch))
	}
	{
		wp := root.With("svc", "api")
		for _, name := range []string{"alpha", "delta"} {
			chains = append(chains, []chainItem{{attrs: []any{"svc", "api"}}, {group: name}})
			shared = append(shared, wp.WithGroup(name))
		}
	}
	type rec struct {
		lg   *logger.Logger
		msg  string
		args []any
	}
	recs := make([][]rec, G)
	for g := 0; g < G; g++ {
		for j := 0; j < 6; j++ {
			ci := rng.Intn(len(chains))
			key := strings.Repeat(string(rune('a'+g)), 4+rng.Intn(24)) // every goroutine has its own keys
			msg := fmt.Sprintf("hammer-%d-%d", g, j)
			args := []any{key, g*100 + j, slog.String(key+"2", strings.Repeat(string(rune('A'+g)), rng.Intn(12)))}
			c := &captureOne{}
			apply(logger.New(mkHandler(kind, c, logger.LevelInfo)), chains[ci]).Info(msg, args...)
			hd.legal[mask(kind, c.line)] = true
			recs[g] = append(recs[g], rec{shared[ci], msg, args})
		}
	}
	var wg sync.WaitGroup
	start := make(chan struct{})
	for g := 0; g < G; g++ {
		wg.Add(1)
		go func(g int) {
			defer wg.Done()
			<-start
			for i := 0; i < perG; i++ {
				r := recs[g][i%len(recs[g])]
				r.lg.Info(r.msg, r.args...)
			}
		}(g)
	}
	close(start)
	wg.Wait()
	// first use of a freshly derived logger by several goroutines at once: whatever a handler postpones from
	// derivation to first use happens here under contention
	fresh := 0
	for t := 0; t < perG/40; t++ {
		chain := append(append([]chainItem(nil), chains[rng.Intn(len(chains))]...), chainItem{attrs: []any{fmt.Sprintf("fresh%d", t), t, "svc", "api"}})
		if t%3 == 0 {
			chain = append(chain, chainItem{group: fmt.Sprintf("fg%d", t%5)})
		}
		lg := apply(root, chain)
		msgs := make([]string, G)
		for g := 0; g < G; g++ {
			msgs[g] = fmt.Sprintf("fresh-%d-%d", t, g)
			c := &captureOne{}
			apply(logger.New(mkHandler(kind, c, logger.LevelInfo)), chain).Info(msgs[g], "k", g)
			hd.mu.Lock()
			hd.legal[mask(kind, c.line)] = true
			hd.mu.Unlock()
		}
		var ready, go_ atomic.Int32
		var fw sync.WaitGroup
		for g := 0; g < G; g++ {
			fw.Add(1)
			go func(g int) {
				defer fw.Done()
				ready.Add(1)
				for go_.Load() == 0 {
				}
				lg.Info(msgs[g], "k", g)
			}(g)
		}
		for ready.Load() < G {
			runtime.Gosched()
		}
		go_.Store(1)
		fw.Wait()
		fresh += G
	}
	evs := []any{}
	for _, b := range hd.bad {
		evs = append(evs, map[string]any{"e": "hbad", "g": 0, "r": 0, "en": false, "same": false, "nl": 0, "last": false, "n": 0, "x": b})
	}
	evs = append(evs, map[string]any{"e": "hsum", "g": 0, "r": hd.writes, "en": false, "same": false, "nl": 0, "last": false, "n": G*perG + fresh, "x": ""})
	return map[string]any{"kind": kind, "evs": evs, "threshold": 4, "hammer": true}
}

func main() {
	hammerN := flag.Int("hammer", 40000, "records per goroutine in the hammer phase")
	out := flag.String("out", "traces.ndjson", "")
	runs := flag.Int("runs", 3, "runs per handler kind")
	ng := flag.Int("goroutines", 8, "")
	nrec := flag.Int("records", 120, "records per goroutine")
	flag.Parse()
	rng := rand.New(rand.NewSource(vio.Seed()))
	w := vio.Create(*out)
	defer w.Close()
	// size sweep first (the buffer pool is still empty): one goroutine, message lengths 850..1750 in steps of one, so the
	// finished line takes every length around the pooled buffer's initial capacity (1 KiB) and its first regrowth
	for _, kind := range []string{"nano", "text", "json"} {
		d := &dest{log: evlog.New(), kind: kind, rng: rand.New(rand.NewSource(rng.Int63())), fast: true}
		l := logger.New(mkHandler(kind, d, logger.LevelInfo))
		b, gid := d.buf()
		lens := []int{16300, 16384, 16385, 17000, 40000, 66000, 200000} // the message alone beyond the pooled-buffer limit (16 KiB)
		for n := 850; n <= 1750; n++ {
			lens = append(lens, n)
		}
		for _, n := range lens {
			id := n
			msg := fmt.Sprintf("rec#%d#", id) + strings.Repeat("s", n)
			c := &captureOne{}
			logger.New(mkHandler(kind, c, logger.LevelInfo)).Info(msg)
			d.expect.Store(id, mask(kind, c.line))
			b.Emit(ev{E: "lb", G: gid, R: id, En: true})
			l.Info(msg)
			b.Emit(ev{E: "le", G: gid, R: id})
		}
		w.Put(map[string]any{"kind": kind, "evs": d.log.Merge(), "threshold": 4, "sweep": true})
	}
	for _, kind := range []string{"nano", "text", "json"} {
		w.Put(hammer(kind, *hammerN, rng))
	}
	// the last two runs are short ones at thresholds at and above LevelFatal (the usual way to silence a logger)
	for run := 0; run < *runs+2; run++ {
		for kindIdx, kind := range []string{"nano", "text", "json"} {
			// every threshold occurs once per two runs (6 run x handler combinations), rotated by the seed
			threshold := []slog.Level{-4, logger.LevelWarn, logger.LevelDebug, -8, logger.LevelInfo, logger.LevelError}[(run*3+kindIdx+int(vio.Seed()))%6]
			short := run >= *runs
			if short {
				threshold = []slog.Level{logger.LevelFatal, 17, 20, 100, 1 << 20, 24}[((run-*runs)*3+kindIdx+int(vio.Seed()))%6]
			}
			d := &dest{log: evlog.New(), kind: kind, dwellNs: int64(20+rng.Intn(200)) * 1000, rng: rand.New(rand.NewSource(rng.Int63()))}
			if run%2 == 1 {
				d.failEvery = 3 // some Write calls report an error
			}
			d.fast = false
			nrecRun := *nrec
			if d.fast {
				nrecRun = *nrec * 3
			}
			if short {
				nrecRun = 40
			}
			root := logger.New(mkHandler(kind, d, threshold))
			// loggers derived before the run
			pre := [][]chainItem{{}, {{attrs: []any{"svc", "api", slog.Int("shard", 3)}}}, {{group: "req"}, {attrs: []any{"k", strings.Repeat("v", 40)}}},
				{{attrs: []any{"blob", strings.Repeat("w", 1100)}}}, {{group: "big"}, {attrs: []any{"blob", strings.Repeat("x", 5000), "n", 7}}}, {{attrs: []any{"huge", strings.Repeat("y", 20000)}}}}
			// loggers shared by all goroutines (derived once, before the run)
			type sharedLogger struct {
				l     *logger.Logger
				chain []chainItem
			}
			var shared []sharedLogger
			for _, ch := range [][]chainItem{{}, {{group: "req"}}, {{group: "app"}, {group: "db"}}, {{attrs: []any{"svc", "api"}}, {group: "g"}},
				{{attrs: []any{"blob", strings.Repeat("z", 1500)}}}} {
				shared = append(shared, sharedLogger{apply(root, ch), ch})
			}
			{
				// several sibling groups derived from one parent that carries attributes / an open group: a record through an earlier
				// sibling must still be that sibling's line
				wp := root.With("svc", "api")
				gp := root.WithGroup("svc")
				for _, name := range []string{"alpha", "beta", "r c", "delta"} {
					shared = append(shared, sharedLogger{wp.WithGroup(name), []chainItem{{attrs: []any{"svc", "api"}}, {group: name}}})
					shared = append(shared, sharedLogger{gp.WithGroup(name), []chainItem{{group: "svc"}, {group: name}}})
				}
			}
			var fastBarrier sync.WaitGroup
			fastBarrier.Add(*ng)
			var nextID int64
			var idMu sync.Mutex
			var wg sync.WaitGroup
			for g := 0; g < *ng; g++ {
				wg.Add(1)
				seed := rng.Int63()
				go func(g int) {
					defer wg.Done()
					r := rand.New(rand.NewSource(seed))
					b, gid := d.buf()
					chain := append([]chainItem(nil), pre[r.Intn(len(pre))]...)
					l := apply(root, chain)
					if d.fast {
						// precompute the records, then hammer the shared loggers in a tight loop (maximal overlap of formatting)
						type prepared struct {
							id    int
							lg    *logger.Logger
							level slog.Level
							msg   string
							args  []any
							en    bool
						}
						var recs []prepared
						for k := 0; k < nrecRun; k++ {
							idMu.Lock()
							nextID++
							id := int(nextID)
							idMu.Unlock()
							level := levels[1+r.Intn(3)]
							sh := shared[1+r.Intn(len(shared)-1)]
							msg := fmt.Sprintf("rec#%d#", id)
							args := []any{fmt.Sprintf("key%d", id%11), id, slog.String(fmt.Sprintf("s%d", id%13), strings.Repeat("v", id%9))}
							en := level >= threshold
							if en {
								c := &captureOne{}
								apply(logger.New(mkHandler(kind, c, threshold)), sh.chain).Log(context.Background(), level, msg, args...)
								d.expect.Store(id, mask(kind, c.line))
							}
							recs = append(recs, prepared{id, sh.l, level, msg, args, en})
						}
						fastBarrier.Done()
						fastBarrier.Wait()
						for _, p := range recs {
							b.Emit(ev{E: "lb", G: gid, R: p.id, En: p.en})
							p.lg.Log(context.Background(), p.level, p.msg, p.args...)
							b.Emit(ev{E: "le", G: gid, R: p.id})
						}
						return
					}
					for k := 0; k < nrecRun; k++ {
						if r.Intn(6) == 0 { // derive during the run
							it := chainItem{attrs: []any{fmt.Sprintf("d%d", k), r.Intn(1000)}}
							if r.Intn(3) == 0 {
								it = chainItem{group: fmt.Sprintf("g%d", r.Intn(3))}
							}
							chain = append(chain[:len(chain):len(chain)], it)
							l = apply(apply(root, nil), chain)
							if len(chain) > 4 {
								chain = append([]chainItem(nil), pre[r.Intn(len(pre))]...)
								l = apply(root, chain)
							}
						}
						idMu.Lock()
						nextID++
						id := int(nextID)
						idMu.Unlock()
						level := levels[r.Intn(len(levels))]
						size := []int{0, 10, 100, 900, 1100, 5000, 17000, 40000, 66000}[r.Intn(9)]
						if r.Intn(4) > 0 && size > 1100 {
							size = 100
						}
						if d.fast && size > 100 {
							size = r.Intn(30)
						}
						msg := fmt.Sprintf("rec#%d#", id)
						// keys differ from record to record, so key bytes of one record showing up in another are visible
						args := []any{fmt.Sprintf("pad%d", id%7), strings.Repeat(string(rune('a'+id%26)), size), slog.Int(fmt.Sprintf("n%d", id%5), id)}
						useLogger, useChain := l, chain
						if r.Intn(2) == 0 { // through a logger object shared with the other goroutines
							sh := shared[r.Intn(len(shared))]
							useLogger, useChain = sh.l, sh.chain
						}
						enabled := level >= threshold
						variant := r.Intn(5)
						if enabled { // what this very call writes when logged alone on a fresh identical chain
							c := &captureOne{}
							emit(apply(logger.New(mkHandler(kind, c, threshold)), useChain), variant, level, msg, args)
							d.expect.Store(id, mask(kind, c.line))
						}
						b.Emit(ev{E: "lb", G: gid, R: id, En: enabled})
						emit(useLogger, variant, level, msg, args)
						b.Emit(ev{E: "le", G: gid, R: id})
					}
				}(g)
			}
			wg.Wait()
			w.Put(map[string]any{"kind": kind, "evs": d.log.Merge(), "threshold": int(threshold)})
		}
	}
}
