// Command ipconc records traces of the real netutil.IPv4Filter under concurrency: writers that each
// own a /8 keep an anchor range present and churn sub-ranges across the list-to-maps switch (one of
// them toggles 0.0.0.0/0), readers probe always-present, never-present and churning addresses.
// A verif hook dwells inside the critical sections - in particular in the half-migrated state - so a
// reader that got in without the lock would see it.  Built with -race; TLC
// (spec/netutil/IPv4FilterConcCases.tla) judges every trace with the interval bookkeeping of the spec.
package main

import (
	"encoding/binary"
	"flag"
	"fmt"
	"math/rand"
	"net"
	"os"
	"runtime"
	"strings"
	"sync"
	"sync/atomic"
	"time"

	"github.com/whoisnian/glb/util/netutil"
	"verif/harness/internal/evlog"
	"verif/harness/internal/vio"
)

type ev struct {
	Cs  [][]int `json:"cs,omitempty"` // bulk: ranges added (sequentially, before anything else happens)
	K   string  `json:"k"`
	P   int     `json:"p"`
	Op  string  `json:"op,omitempty"`
	C   []int   `json:"c"`
	IP  []int   `json:"ip"`
	Res bool    `json:"res"`
	Err bool    `json:"err"`
}

func bits(v uint32, n int) []int {
	b := make([]int, n)
	for i := 0; i < n; i++ {
		b[i] = int(v>>(31-i)) & 1
	}
	return b
}
func ip4(v uint32) net.IP { b := make(net.IP, 4); binary.BigEndian.PutUint32(b, v); return b }

var dwell atomic.Int64 // ns to stay inside a critical section (seeded per run)

type procInfo struct {
	b *evlog.Buf
	p int
}

var procs sync.Map // goroutine id -> procInfo

func goid() int64 {
	var b [64]byte
	n := runtime.Stack(b[:], false)
	var id int64
	for _, c := range b[len("goroutine "):n] {
		if c < '0' || c > '9' {
			break
		}
		id = id*10 + int64(c-'0')
	}
	return id
}

// switchRace: a filter one Add away from the list-to-maps switch; removers of present ranges and the switching Add are
// released together from a spin barrier, trial after trial; afterwards every touched range is probed.
func switchRace(w *vio.Writer, rng *rand.Rand, trials int) {
	for t := 0; t < trials; t++ {
		log := evlog.New()
		flt := netutil.NewIPv4Filter()
		main := log.Buf()
		procs.Range(func(k, _ any) bool { procs.Delete(k); return true })
		var cs [][]int
		var present []uint32
		for i := 0; i < 256; i++ {
			v := uint32(20+t%50)<<24 | uint32(i)<<8
			flt.Add(&net.IPNet{IP: ip4(v), Mask: net.CIDRMask(24, 32)})
			cs = append(cs, bits(v, 24))
			present = append(present, v)
		}
		main.Emit(ev{K: "bulk", Cs: cs, C: []int{}, IP: []int{}})
		const R = 3
		var ready atomic.Int32
		var wg sync.WaitGroup
		victims := rng.Perm(256)[:R]
		newRange := uint32(90)<<24 | uint32(t%250)<<16
		for g := 0; g <= R; g++ {
			wg.Add(1)
			go func(g int) {
				defer wg.Done()
				b := log.Buf()
				ready.Add(1)
				for ready.Load() <= R {
				}
				if g == R { // the Add that finds the list full and migrates
					b.Emit(ev{K: "wb", P: 100 + g, Op: "add", C: bits(newRange, 16), IP: []int{}})
					err := flt.Add(&net.IPNet{IP: ip4(newRange), Mask: net.CIDRMask(16, 32)})
					b.Emit(ev{K: "we", P: 100 + g, Op: "add", C: bits(newRange, 16), IP: []int{}, Err: err != nil})
					return
				}
				v := present[victims[g]]
				b.Emit(ev{K: "wb", P: 100 + g, Op: "remove", C: bits(v, 24), IP: []int{}})
				err := flt.Remove(&net.IPNet{IP: ip4(v), Mask: net.CIDRMask(24, 32)})
				b.Emit(ev{K: "we", P: 100 + g, Op: "remove", C: bits(v, 24), IP: []int{}, Err: err != nil})
			}(g)
		}
		// readers looking up ranges that are present throughout, while the switch happens
		for rd := 0; rd < 2; rd++ {
			wg.Add(1)
			go func(rd int) {
				defer wg.Done()
				b := log.Buf()
				v := present[(victims[0]+1+rd*7)%256]
				for _, vv := range victims {
					if present[vv] == v {
						v = present[(vv+3)%256]
					}
				}
				for _, vv := range victims { // still a victim after one shift: skip this reader
					if present[vv] == v {
						return
					}
				}
				for ready.Load() <= R {
				}
				for k := 0; k < 30; k++ {
					b.Emit(ev{K: "rb", P: 60 + rd, C: []int{}, IP: bits(v|uint32(k), 32)})
					res := flt.Contains(ip4(v | uint32(k)))
					b.Emit(ev{K: "re", P: 60 + rd, C: []int{}, IP: bits(v|uint32(k), 32), Res: res})
				}
			}(rd)
		}
		wg.Wait()
		probe := func(v uint32) {
			main.Emit(ev{K: "rb", P: 50, C: []int{}, IP: bits(v, 32)})
			main.Emit(ev{K: "re", P: 50, C: []int{}, IP: bits(v, 32), Res: flt.Contains(ip4(v))})
		}
		for g := 0; g < R; g++ {
			probe(present[victims[g]] | 7)
		}
		probe(newRange | 0x1234)
		probe(present[(victims[0]+1)%256] | 9)
		maps, index := flt.VerifState()
		w.Put(map[string]any{"evs": log.Merge(), "maps": maps, "index": index, "run": -1, "note": "switchrace"})
	}
}

// removeRace: a small filter; two readers look up an address of range A in a tight loop while A is removed; afterwards
// the address is probed again - whatever a lookup remembers must not outlive the removal.
func removeRace(w *vio.Writer, rng *rand.Rand, trials int) {
	for t := 0; t < trials; t++ {
		log := evlog.New()
		flt := netutil.NewIPv4Filter()
		main := log.Buf()
		procs.Range(func(k, _ any) bool { procs.Delete(k); return true })
		a := uint32(30+t%60)<<24 | uint32(rng.Intn(250))<<16
		others := []uint32{uint32(130)<<24 | uint32(t%250)<<16, uint32(140)<<24 | uint32(t%250)<<16}
		var cs [][]int
		for _, v := range append([]uint32{a}, others...) {
			flt.Add(&net.IPNet{IP: ip4(v), Mask: net.CIDRMask(16, 32)})
			cs = append(cs, bits(v, 16))
		}
		main.Emit(ev{K: "bulk", Cs: cs, C: []int{}, IP: []int{}})
		var ready atomic.Int32
		var wg sync.WaitGroup
		const R = 2
		for g := 0; g <= R; g++ {
			wg.Add(1)
			go func(g int) {
				defer wg.Done()
				b := log.Buf()
				ready.Add(1)
				for ready.Load() <= R {
				}
				if g == R {
					b.Emit(ev{K: "wb", P: 100, Op: "remove", C: bits(a, 16), IP: []int{}})
					err := flt.Remove(&net.IPNet{IP: ip4(a), Mask: net.CIDRMask(16, 32)})
					b.Emit(ev{K: "we", P: 100, Op: "remove", C: bits(a, 16), IP: []int{}, Err: err != nil})
					return
				}
				for k := 0; k < 25; k++ {
					v := a | uint32(k)
					b.Emit(ev{K: "rb", P: 60 + g, C: []int{}, IP: bits(v, 32)})
					res := flt.Contains(ip4(v))
					b.Emit(ev{K: "re", P: 60 + g, C: []int{}, IP: bits(v, 32), Res: res})
				}
			}(g)
		}
		wg.Wait()
		for k := 0; k < 3; k++ {
			v := a | uint32(100+k)
			main.Emit(ev{K: "rb", P: 50, C: []int{}, IP: bits(v, 32)})
			main.Emit(ev{K: "re", P: 50, C: []int{}, IP: bits(v, 32), Res: flt.Contains(ip4(v))})
		}
		v := others[0] | 9
		main.Emit(ev{K: "rb", P: 50, C: []int{}, IP: bits(v, 32)})
		main.Emit(ev{K: "re", P: 50, C: []int{}, IP: bits(v, 32), Res: flt.Contains(ip4(v))})
		maps, index := flt.VerifState()
		w.Put(map[string]any{"evs": log.Merge(), "maps": maps, "index": index, "run": -2, "note": "removerace"})
	}
}

// slowReader: one lookup stays inside its critical section for a long time (a descheduled or page-faulting thread) while
// several updates queue up behind it, the first of which finds the list full and migrates.  However long the writers
// had to wait, they enter one at a time.
var slowGoid atomic.Int64
var slowIn = make(chan struct{}, 1)

func slowReader(w *vio.Writer, rng *rand.Rand, trials int) {
	for t := 0; t < trials; t++ {
		log := evlog.New()
		flt := netutil.NewIPv4Filter()
		main := log.Buf()
		procs.Range(func(k, _ any) bool { procs.Delete(k); return true })
		var cs [][]int
		var present []uint32
		for i := 0; i < 256; i++ {
			v := uint32(40+t%50)<<24 | uint32(i)<<8
			flt.Add(&net.IPNet{IP: ip4(v), Mask: net.CIDRMask(24, 32)})
			cs = append(cs, bits(v, 24))
			present = append(present, v)
		}
		main.Emit(ev{K: "bulk", Cs: cs, C: []int{}, IP: []int{}})
		dwell.Store(int64(15 * time.Millisecond)) // the migrating Add stays in the half-migrated state for 60 ms
		var wg sync.WaitGroup
		wg.Add(1)
		go func() {
			defer wg.Done()
			b := log.Buf()
			slowGoid.Store(goid())
			v := present[7] | 1
			b.Emit(ev{K: "rb", P: 60, C: []int{}, IP: bits(v, 32)})
			res := flt.Contains(ip4(v)) // the hook keeps this call inside the read lock for 160 ms
			b.Emit(ev{K: "re", P: 60, C: []int{}, IP: bits(v, 32), Res: res})
			slowGoid.Store(0)
		}()
		select {
		case <-slowIn:
		case <-time.After(5 * time.Second):
		}
		const W = 3
		var added []uint32
		for g := 0; g < W; g++ {
			nv := uint32(95)<<24 | uint32(t%250)<<16 | uint32(g)<<8
			added = append(added, nv)
			wg.Add(1)
			go func(g int, nv uint32) {
				defer wg.Done()
				b := log.Buf()
				defer func() {
					if e := recover(); e != nil {
						b.Emit(ev{K: "crash", P: 100 + g, Op: fmt.Sprint(e), C: []int{}, IP: []int{}})
					}
				}()
				b.Emit(ev{K: "wb", P: 100 + g, Op: "add", C: bits(nv, 24), IP: []int{}})
				err := flt.Add(&net.IPNet{IP: ip4(nv), Mask: net.CIDRMask(24, 32)})
				b.Emit(ev{K: "we", P: 100 + g, Op: "add", C: bits(nv, 24), IP: []int{}, Err: err != nil})
			}(g, nv)
		}
		done := make(chan struct{})
		go func() {
			wg.Wait()
			dwell.Store(0)
			defer close(done)
			defer func() {
				if e := recover(); e != nil {
					main.Emit(ev{K: "crash", P: 50, Op: fmt.Sprint(e), C: []int{}, IP: []int{}})
				}
			}()
			for _, v := range append(added, present[3], present[200]) {
				main.Emit(ev{K: "rb", P: 50, C: []int{}, IP: bits(v|5, 32)})
				main.Emit(ev{K: "re", P: 50, C: []int{}, IP: bits(v|5, 32), Res: flt.Contains(ip4(v | 5))})
			}
		}()
		select {
		case <-done:
		case <-time.After(20 * time.Second):
			log.Buf().Emit(ev{K: "stuck", P: W, Op: "updates queued behind a slow lookup, or the lookups after them, never returned", C: []int{}, IP: []int{}})
			w.Put(map[string]any{"evs": log.Merge(), "maps": false, "index": 0, "run": -3, "note": "slowreader deadlock"})
			w.Close()
			os.Exit(0)
		}
		maps, index := flt.VerifState()
		w.Put(map[string]any{"evs": log.Merge(), "maps": maps, "index": index, "run": -3, "note": "slowreader"})
	}
}

var recent [32]atomic.Uint32
var recentN atomic.Uint32

func main() {
	trials := flag.Int("switchrace", 200, "trials of the remove-across-the-switch race")
	out := flag.String("out", "traces.ndjson", "")
	runs := flag.Int("runs", 10, "")
	nslow := flag.Int("slowreader", 3, "trials with one lookup held inside its critical section")
	nw := flag.Int("writers", 5, "")
	nr := flag.Int("readers", 6, "")
	churn := flag.Int("churn", 90, "updates per writer")
	flag.Parse()
	rng := rand.New(rand.NewSource(vio.Seed()))
	netutil.VerifHook = func(f *netutil.IPv4Filter, e string) {
		// linearisation point: emitted while the lock is held, so the order of these events is the order of the critical sections
		if e != "add.migrating" {
			if pi, ok := procs.Load(goid()); ok {
				pi.(procInfo).b.Emit(ev{K: "lp", P: pi.(procInfo).p, C: []int{}, IP: []int{}})
			}
		}
		if e == "contains.rlocked" {
			if sg := slowGoid.Load(); sg != 0 && sg == goid() {
				select {
				case slowIn <- struct{}{}:
				default:
				}
				time.Sleep(160 * time.Millisecond)
			}
		}
		d := dwell.Load()
		if e == "add.migrating" {
			time.Sleep(time.Duration(4 * d)) // the half-migrated state: mode switched, maps still empty
		} else if d > 0 && e != "contains.rlocked" {
			if rand.Intn(8) == 0 {
				time.Sleep(time.Duration(d / 4))
			} else {
				runtime.Gosched()
			}
		}
	}
	w := vio.Create(*out)
	defer w.Close()
	switchRace(w, rng, *trials)
	removeRace(w, rng, *trials)
	slowReader(w, rng, *nslow)
	dwell.Store(0)
	for run := 0; run < *runs; run++ {
		dwell.Store(int64(50+rng.Intn(400)) * 1000)
		log := evlog.New()
		flt := netutil.NewIPv4Filter()
		anchors := make([]uint32, *nw)
		setup := log.Buf()
		procs.Range(func(k, _ any) bool { procs.Delete(k); return true })
		procs.Store(goid(), procInfo{setup, 99})
		// setup (sequential): anchors + enough filler so that the switch happens under the readers
		for i := 0; i < *nw; i++ {
			anchors[i] = uint32(10+i)<<24 | 1<<16
			c := &net.IPNet{IP: ip4(anchors[i] | rng.Uint32()&0xffff), Mask: net.CIDRMask(16, 32)}
			setup.Emit(ev{K: "wb", P: 99, Op: "add", C: bits(anchors[i], 16), IP: []int{}})
			err := flt.Add(c)
			setup.Emit(ev{K: "we", P: 99, Op: "add", C: bits(anchors[i], 16), IP: []int{}, Err: err != nil})
		}
		prefill := 150 + rng.Intn(100)
		for i := 0; i < prefill; i++ {
			v := uint32(100)<<24 | uint32(i)<<8
			setup.Emit(ev{K: "wb", P: 99, Op: "add", C: bits(v, 24), IP: []int{}})
			err := flt.Add(&net.IPNet{IP: ip4(v), Mask: net.CIDRMask(24, 32)})
			setup.Emit(ev{K: "we", P: 99, Op: "add", C: bits(v, 24), IP: []int{}, Err: err != nil})
			if i%3 == 0 { // tombstones before the switch
				setup.Emit(ev{K: "wb", P: 99, Op: "remove", C: bits(v, 24), IP: []int{}})
				err := flt.Remove(&net.IPNet{IP: ip4(v), Mask: net.CIDRMask(24, 32)})
				setup.Emit(ev{K: "we", P: 99, Op: "remove", C: bits(v, 24), IP: []int{}, Err: err != nil})
			}
		}
		var wg sync.WaitGroup
		var stop atomic.Bool
		touched := make([][]uint32, *nw)
		for i := 0; i < *nw; i++ {
			wg.Add(1)
			seed := rng.Int63()
			go func(i int) {
				defer wg.Done()
				r := rand.New(rand.NewSource(seed))
				b := log.Buf()
				procs.Store(goid(), procInfo{b, 100 + i})
				defer func() {
					if e := recover(); e != nil {
						b.Emit(ev{K: "crash", P: 100 + i, Op: fmt.Sprint(e), C: []int{}, IP: []int{}})
					}
				}()
				type sub struct {
					v    uint32
					plen int
				}
				var mine []sub // sub-ranges of my /8 (outside the anchor /16), prefix lengths 17..32
				for n := 0; n < *churn; n++ {
					if i == 0 && r.Intn(12) == 0 { // writer 0 also owns 0.0.0.0/0
						op := "add"
						if r.Intn(2) == 0 {
							op = "remove"
						}
						c := &net.IPNet{IP: ip4(r.Uint32()), Mask: net.CIDRMask(0, 32)}
						b.Emit(ev{K: "wb", P: 100 + i, Op: op, C: []int{}, IP: []int{}})
						var err error
						if op == "add" {
							err = flt.Add(c)
						} else {
							err = flt.Remove(c)
						}
						b.Emit(ev{K: "we", P: 100 + i, Op: op, C: []int{}, IP: []int{}, Err: err != nil})
						continue
					}
					var v uint32
					plen := 24
					op := "add"
					if len(mine) > 0 && r.Intn(5) < 2 {
						m := mine[r.Intn(len(mine))]
						v, plen = m.v, m.plen
						if r.Intn(3) > 0 {
							op = "remove"
						}
					} else {
						if r.Intn(3) == 0 {
							plen = 17 + r.Intn(16) // prefix lengths that may appear for the first time after the switch
						}
						v = (uint32(10+i)<<24 | uint32(2+r.Intn(200))<<16 | uint32(r.Intn(4))<<8 | r.Uint32()&0xff) & (uint32(0xffffffff) << uint(32-plen))
						mine = append(mine, sub{v, plen})
					}
					c := &net.IPNet{IP: ip4(v | r.Uint32()&(uint32(1)<<uint(32-plen)-1)), Mask: net.CIDRMask(plen, 32)}
					recent[recentN.Add(1)%uint32(len(recent))].Store(v) // readers follow the writers: they look up what is being added / removed right now
					b.Emit(ev{K: "wb", P: 100 + i, Op: op, C: bits(v, plen), IP: []int{}})
					var err error
					if op == "add" {
						err = flt.Add(c)
					} else {
						err = flt.Remove(c)
					}
					b.Emit(ev{K: "we", P: 100 + i, Op: op, C: bits(v, plen), IP: []int{}, Err: err != nil})
					if r.Intn(4) == 0 {
						time.Sleep(time.Duration(r.Intn(100)) * time.Microsecond)
					}
				}
				for _, m := range mine {
					touched[i] = append(touched[i], m.v)
				}
			}(i)
		}
		var rg sync.WaitGroup
		for j := 0; j < *nr; j++ {
			rg.Add(1)
			seed := rng.Int63()
			go func(j int) {
				defer rg.Done()
				r := rand.New(rand.NewSource(seed))
				b := log.Buf()
				procs.Store(goid(), procInfo{b, j + 1})
				for n := 0; !stop.Load() && n < 3000; n++ {
					var v uint32
					switch r.Intn(6) {
					case 4, 5: // an address of a range some writer has just begun to add or remove
						v = recent[r.Intn(len(recent))].Load() | r.Uint32()&0x3
					case 0, 1: // inside an anchor: present during the whole run
						v = anchors[r.Intn(len(anchors))] | r.Uint32()&0xffff
					case 2: // never covered by any range (unless 0.0.0.0/0 is possibly present)
						v = uint32(200+r.Intn(50))<<24 | r.Uint32()&0xffffff
					default: // churning area
						v = uint32(10+r.Intn(*nw))<<24 | uint32(2+r.Intn(200))<<16 | uint32(r.Intn(4))<<8 | r.Uint32()&0xff
					}
					ip := ip4(v)
					if r.Intn(3) == 0 {
						ip = ip.To16()
					}
					b.Emit(ev{K: "rb", P: j + 1, C: []int{}, IP: bits(v, 32)})
					res := flt.Contains(ip)
					b.Emit(ev{K: "re", P: j + 1, C: []int{}, IP: bits(v, 32), Res: res})
					time.Sleep(time.Duration(200+r.Intn(500)) * time.Microsecond)
				}
			}(j)
		}
		finished := make(chan struct{})
		go func() { wg.Wait(); stop.Store(true); rg.Wait(); close(finished) }()
		stuck := false
		for last, idle := log.Count(), 0; !stuck; {
			select {
			case <-finished:
			case <-time.After(time.Second):
				if n := log.Count(); n != last {
					last, idle = n, 0
				} else if idle++; idle >= 20 { // no call began or returned for 20 s: writers and readers are blocked for good
					stuck = true
				}
				continue
			}
			break
		}
		if stuck {
			buf := make([]byte, 1<<20)
			buf = buf[:runtime.Stack(buf, true)]
			nblocked := strings.Count(string(buf), "netutil.(*IPv4Filter)")
			log.Buf().Emit(ev{K: "stuck", P: nblocked, Op: "no call of the filter began or returned for 20 s", C: []int{}, IP: []int{}})
			maps, index := false, 0 // VerifState would block on the same lock
			w.Put(map[string]any{"evs": log.Merge(), "maps": maps, "index": index, "run": run, "note": "deadlock"})
			w.Close()
			os.Exit(0) // the blocked goroutines cannot be recovered; the traces recorded so far are judged
		}
		// updates have stopped: the filter must agree with the set obtained from the programs
		fin := log.Buf()
		procs.Store(goid(), procInfo{fin, 50})
		for i := range touched {
			for _, v := range touched[i] {
				b := v | rng.Uint32()&0xff
				fin.Emit(ev{K: "rb", P: 50, C: []int{}, IP: bits(b, 32)})
				fin.Emit(ev{K: "re", P: 50, C: []int{}, IP: bits(b, 32), Res: flt.Contains(ip4(b))})
			}
		}
		maps, index := flt.VerifState()
		w.Put(map[string]any{"evs": log.Merge(), "maps": maps, "index": index, "run": run, "note": fmt.Sprintf("dwell=%dus prefill=%d", dwell.Load()/1000, prefill)})
	}
}
