// Command ipconc records traces of the real netutil.IPv4Filter under concurrency: writers that each
// own a /8 keep an anchor range present and churn sub-ranges across the list-to-maps switch (one of
// them toggles 0.0.0.0/0), readers probe always-present, never-present and churning addresses.
// A verif hook dwells inside the critical sections - in particular in the half-migrated state - so a
// reader that got in without the lock would see it.  Built with -race; TLC
// (spec/netutil/IPv4FilterConcCases.tla) judges every trace with the interval bookkeeping of the spec.
package main

import (
	"encoding/binary"
	"flag"
	"fmt"
	"math/rand"
	"net"
	"runtime"
	"sync"
	"sync/atomic"
	"time"

	"github.com/whoisnian/glb/util/netutil"
	"verif/harness/internal/evlog"
	"verif/harness/internal/vio"
)

type ev struct {
	K   string `json:"k"`
	P   int    `json:"p"`
	Op  string `json:"op,omitempty"`
	C   []int  `json:"c"`
	IP  []int  `json:"ip"`
	Res bool   `json:"res"`
	Err bool   `json:"err"`
}

func bits(v uint32, n int) []int {
	b := make([]int, n)
	for i := 0; i < n; i++ {
		b[i] = int(v>>(31-i)) & 1
	}
	return b
}
func ip4(v uint32) net.IP { b := make(net.IP, 4); binary.BigEndian.PutUint32(b, v); return b }

var dwell atomic.Int64 // ns to stay inside a critical section (seeded per run)

func main() {
	out := flag.String("out", "traces.ndjson", "")
	runs := flag.Int("runs", 10, "")
	nw := flag.Int("writers", 5, "")
	nr := flag.Int("readers", 6, "")
	churn := flag.Int("churn", 90, "updates per writer")
	flag.Parse()
	rng := rand.New(rand.NewSource(vio.Seed()))
	netutil.VerifHook = func(f *netutil.IPv4Filter, e string) {
		d := dwell.Load()
		if e == "add.migrating" {
			time.Sleep(time.Duration(4 * d)) // the half-migrated state: mode switched, maps still empty
		} else if d > 0 && e != "contains.rlocked" {
			if rand.Intn(8) == 0 {
				time.Sleep(time.Duration(d / 4))
			} else {
				runtime.Gosched()
			}
		}
	}
	w := vio.Create(*out)
	defer w.Close()
	for run := 0; run < *runs; run++ {
		dwell.Store(int64(50+rng.Intn(400)) * 1000)
		log := evlog.New()
		flt := netutil.NewIPv4Filter()
		anchors := make([]uint32, *nw)
		setup := log.Buf()
		// setup (sequential): anchors + enough filler so that the switch happens under the readers
		for i := 0; i < *nw; i++ {
			anchors[i] = uint32(10+i)<<24 | 1<<16
			c := &net.IPNet{IP: ip4(anchors[i] | rng.Uint32()&0xffff), Mask: net.CIDRMask(16, 32)}
			setup.Emit(ev{K: "wb", P: 100 + i, Op: "add", C: bits(anchors[i], 16), IP: []int{}})
			err := flt.Add(c)
			setup.Emit(ev{K: "we", P: 100 + i, Op: "add", C: bits(anchors[i], 16), IP: []int{}, Err: err != nil})
		}
		prefill := 150 + rng.Intn(100)
		for i := 0; i < prefill; i++ {
			v := uint32(100)<<24 | uint32(i)<<8
			setup.Emit(ev{K: "wb", P: 99, Op: "add", C: bits(v, 24), IP: []int{}})
			err := flt.Add(&net.IPNet{IP: ip4(v), Mask: net.CIDRMask(24, 32)})
			setup.Emit(ev{K: "we", P: 99, Op: "add", C: bits(v, 24), IP: []int{}, Err: err != nil})
			if i%3 == 0 { // tombstones before the switch
				setup.Emit(ev{K: "wb", P: 99, Op: "remove", C: bits(v, 24), IP: []int{}})
				err := flt.Remove(&net.IPNet{IP: ip4(v), Mask: net.CIDRMask(24, 32)})
				setup.Emit(ev{K: "we", P: 99, Op: "remove", C: bits(v, 24), IP: []int{}, Err: err != nil})
			}
		}
		var wg sync.WaitGroup
		var stop atomic.Bool
		touched := make([][]uint32, *nw)
		for i := 0; i < *nw; i++ {
			wg.Add(1)
			seed := rng.Int63()
			go func(i int) {
				defer wg.Done()
				r := rand.New(rand.NewSource(seed))
				b := log.Buf()
				defer func() {
					if e := recover(); e != nil {
						b.Emit(ev{K: "crash", P: 100 + i, Op: fmt.Sprint(e), C: []int{}, IP: []int{}})
					}
				}()
				type sub struct {
					v    uint32
					plen int
				}
				var mine []sub // sub-ranges of my /8 (outside the anchor /16), prefix lengths 17..32
				for n := 0; n < *churn; n++ {
					if i == 0 && r.Intn(12) == 0 { // writer 0 also owns 0.0.0.0/0
						op := "add"
						if r.Intn(2) == 0 {
							op = "remove"
						}
						c := &net.IPNet{IP: ip4(r.Uint32()), Mask: net.CIDRMask(0, 32)}
						b.Emit(ev{K: "wb", P: 100 + i, Op: op, C: []int{}, IP: []int{}})
						var err error
						if op == "add" {
							err = flt.Add(c)
						} else {
							err = flt.Remove(c)
						}
						b.Emit(ev{K: "we", P: 100 + i, Op: op, C: []int{}, IP: []int{}, Err: err != nil})
						continue
					}
					var v uint32
					plen := 24
					op := "add"
					if len(mine) > 0 && r.Intn(5) < 2 {
						m := mine[r.Intn(len(mine))]
						v, plen = m.v, m.plen
						if r.Intn(3) > 0 {
							op = "remove"
						}
					} else {
						if r.Intn(3) == 0 {
							plen = 17 + r.Intn(16) // prefix lengths that may appear for the first time after the switch
						}
						v = (uint32(10+i)<<24 | uint32(2+r.Intn(200))<<16 | uint32(r.Intn(4))<<8 | r.Uint32()&0xff) & (uint32(0xffffffff) << uint(32-plen))
						mine = append(mine, sub{v, plen})
					}
					c := &net.IPNet{IP: ip4(v | r.Uint32()&(uint32(1)<<uint(32-plen)-1)), Mask: net.CIDRMask(plen, 32)}
					b.Emit(ev{K: "wb", P: 100 + i, Op: op, C: bits(v, plen), IP: []int{}})
					var err error
					if op == "add" {
						err = flt.Add(c)
					} else {
						err = flt.Remove(c)
					}
					b.Emit(ev{K: "we", P: 100 + i, Op: op, C: bits(v, plen), IP: []int{}, Err: err != nil})
					if r.Intn(4) == 0 {
						time.Sleep(time.Duration(r.Intn(100)) * time.Microsecond)
					}
				}
				for _, m := range mine {
					touched[i] = append(touched[i], m.v)
				}
			}(i)
		}
		var rg sync.WaitGroup
		for j := 0; j < *nr; j++ {
			rg.Add(1)
			seed := rng.Int63()
			go func(j int) {
				defer rg.Done()
				r := rand.New(rand.NewSource(seed))
				b := log.Buf()
				for n := 0; !stop.Load() && n < 3000; n++ {
					var v uint32
					switch r.Intn(4) {
					case 0, 1: // inside an anchor: present during the whole run
						v = anchors[r.Intn(len(anchors))] | r.Uint32()&0xffff
					case 2: // never covered by any range (unless 0.0.0.0/0 is possibly present)
						v = uint32(200+r.Intn(50))<<24 | r.Uint32()&0xffffff
					default: // churning area
						v = uint32(10+r.Intn(*nw))<<24 | uint32(2+r.Intn(200))<<16 | uint32(r.Intn(4))<<8 | r.Uint32()&0xff
					}
					ip := ip4(v)
					if r.Intn(3) == 0 {
						ip = ip.To16()
					}
					b.Emit(ev{K: "rb", P: j + 1, C: []int{}, IP: bits(v, 32)})
					res := flt.Contains(ip)
					b.Emit(ev{K: "re", P: j + 1, C: []int{}, IP: bits(v, 32), Res: res})
					time.Sleep(time.Duration(200+r.Intn(500)) * time.Microsecond)
				}
			}(j)
		}
		wg.Wait()
		stop.Store(true)
		rg.Wait()
		// updates have stopped: the filter must agree with the set obtained from the programs
		fin := log.Buf()
		for i := range touched {
			for _, v := range touched[i] {
				b := v | rng.Uint32()&0xff
				fin.Emit(ev{K: "rb", P: 50, C: []int{}, IP: bits(b, 32)})
				fin.Emit(ev{K: "re", P: 50, C: []int{}, IP: bits(b, 32), Res: flt.Contains(ip4(b))})
			}
		}
		maps, index, _ := flt.VerifState()
		w.Put(map[string]any{"evs": log.Merge(), "maps": maps, "index": index, "run": run, "note": fmt.Sprintf("dwell=%dus prefill=%d", dwell.Load()/1000, prefill)})
	}
}
